package main

import (
	"time"
	"bytes"
	"encoding/json"
	"fmt"
	"io"
	"math"
	"os"
	"os/exec"
	"path/filepath"
	"regexp"
	"strconv"
	"strings"
	"sync"

	"github.com/maruel/panicparse/v2/stack"
)

// C19: source-based argument augmentation is truthful and harmless.
//
// Three streams:
//   (a) function level: a generated one-function source text and a constructed
//       stack.Call go through VerifAugmentCall; the Processed list is compared
//       with the model op `augment` (correspondence) and, for well-typed
//       cases, with the rendering of the typed values (direct oracle).
//   (b) end to end: generated programs are compiled with -gcflags '-N -l',
//       crashed, and their real traceback parsed with the sources in place;
//       every fully printed parameter must render as the literal value the
//       program passed.
//   (c) the same tracebacks against mutated source trees: no panic, nothing
//       but Processed differs from a scan without source analysis.

func init() { props["C19"] = runC19 }

// ---------------------------------------------------------------------------
// typed values: the direct oracle is written on the VALUE, not on the printed
// word.

type tval struct {
	Kind     string   // bool, int, int8 … float64, string, slice, ptr, map, chan, func
	TypeSrc  string   // type as written in the source
	TypeName string   // name augmentation is expected to print
	Expr     string   // expression at the call site (end to end)
	Words    []uint64 // printed words (masked to the size)
	Known    []bool   // false: not predictable (addresses in real programs)
	Agg      bool     // printed as an aggregate {…}
	Want     string   // exact expected rendering, "" when an address is unknown
	WantRe   string   // regexp otherwise
	fbits    uint64   // for float kinds
}

var (
	intEdges = map[int][]int64{
		8:  {-128, -127, -3, -1, 0, 1, 2, 126, 127},
		16: {-32768, -32767, -300, -1, 0, 1, 255, 256, 32767},
		32: {-2147483648, -2147483647, -70000, -1, 0, 1, 65536, 2147483647},
		64: {math.MinInt64, math.MinInt64 + 1, -4294967296, -4294967297, -1, 0, 1, 4294967296, math.MaxInt64},
	}
	floatEdges64 = []uint64{0, 0x8000000000000000, 0x3ff0000000000000, 0xbff0000000000000, 0x3ff8000000000000,
		0x7ff0000000000000, 0xfff0000000000000, 0x7ff8000000000001, 1, 0x000fffffffffffff, 0x0010000000000000,
		0x7fefffffffffffff, 0x3fb999999999999a, 0x4341c37937e08000, 0x3eb0c6f7a0b5ed8d, 0x444b1ae4d6e2ef50}
	floatEdges32 = []uint32{0, 0x80000000, 0x3f800000, 0xbf800000, 0x3fc00000, 0x7f800000, 0xff800000, 0x7fc00001, 1,
		0x007fffff, 0x00800000, 0x7f7fffff, 0x3dcccccd, 0x4b189680, 0x358637bd, 0x60ad78ec}
)

func randInt(r *Rng, bits int) int64 {
	if r.Chance(1, 2) {
		e := intEdges[bits]
		return e[r.Intn(len(e))]
	}
	v := int64(r.Next())
	return v >> uint(64-bits)
}

func randUint(r *Rng, bits int) uint64 {
	max := uint64(math.MaxUint64) >> uint(64-bits)
	switch r.Intn(6) {
	case 0:
		return max
	case 1:
		return max - 1
	case 2:
		return 0
	case 3:
		return max/2 + 1
	}
	return r.Next() & max
}

func mask(v uint64, bits int) uint64 { return v & (uint64(math.MaxUint64) >> uint(64-bits)) }

func hexw(v uint64) string { return "0x" + strconv.FormatUint(v, 16) }

const addrRe = `(0x[0-9a-f]+|#[0-9]+)`

func plausibleAddr(r *Rng) uint64 {
	switch r.Intn(5) {
	case 0:
		return 0
	case 1:
		return 0xc000000000 + uint64(r.Intn(1<<24))*8
	case 2:
		return 0x400000 + uint64(r.Intn(1<<20))
	}
	return 0xc000010000 + uint64(r.Intn(64))*16
}

var (
	ptrTypes = []struct{ src, name, expr string }{
		{"*int", "*int", "&gi"}, {"*T", "*T", "gt"}, {"*float64", "*float64", "&gfl"}, {"*string", "*string", "&gstr"},
	}
	mapTypes = []struct{ src, name, expr string }{
		{"map[int]int", "map[int]int", "gm"}, {"map[string]bool", "map[string]bool", "gm2"},
	}
	chanTypes = []struct{ src, name, expr string }{
		{"chan int", "chan int", "gc"}, {"<-chan int", "chan int", "gc"}, {"chan<- int", "chan int", "gc"}, {"chan string", "chan string", "gc2"},
	}
	funcTypes = []struct{ src, name, expr string }{
		{"func()", "func", "gf"}, {"func(int) string", "func", "gf2"},
	}
	sliceTypes = []struct {
		src, name, base string
		cap             int
	}{
		{"[]int", "[]int", "gs", 8}, {"[]string", "[]string", "gss", 5}, {"[]byte", "[]byte", "gsb", 16}, {"[]*int", "[]*int", "gsp", 4},
	}
	strLits = []string{"", "a", "hello", "héllo wörld", "0123456789abcdef0123456789abcdef"}
)

var scalarKinds = []string{"bool", "int", "int8", "int16", "int32", "int64", "uint", "uint8", "uint16", "uint32", "uint64",
	"uintptr", "byte", "rune", "float32", "float64", "string", "slice", "ptr", "map", "chan", "func"}

// genTV draws one typed value. With e2e the addresses are left unknown and
// Expr is an expression of the generated program; otherwise addresses are
// drawn too.
func genTV(r *Rng, e2e bool) tval {
	k := scalarKinds[r.Intn(len(scalarKinds))]
	t := tval{Kind: k, TypeSrc: k, TypeName: k}
	one := func(w uint64, want, expr string) {
		t.Words, t.Known, t.Want, t.Expr = []uint64{w}, []bool{true}, want, expr
	}
	addr := func(nilExpr, expr string) (uint64, bool, string) {
		if r.Chance(1, 5) {
			return 0, true, nilExpr
		}
		if e2e {
			return 0, false, expr
		}
		return plausibleAddr(r), true, expr
	}
	switch k {
	case "bool":
		b := r.Bool()
		w := uint64(0)
		if b {
			w = 1
		}
		one(w, strconv.FormatBool(b), strconv.FormatBool(b))
	case "int", "int8", "int16", "int32", "int64", "rune":
		bits := map[string]int{"int": 64, "int8": 8, "int16": 16, "int32": 32, "int64": 64, "rune": 32}[k]
		v := randInt(r, bits)
		s := strconv.FormatInt(v, 10)
		one(mask(uint64(v), bits), s, s)
	case "uint", "uint8", "uint16", "uint32", "uint64", "uintptr", "byte":
		bits := map[string]int{"uint": 64, "uint8": 8, "uint16": 16, "uint32": 32, "uint64": 64, "uintptr": 64, "byte": 8}[k]
		v := randUint(r, bits)
		s := strconv.FormatUint(v, 10)
		one(v, s, s)
	case "float32":
		var b uint32
		if r.Chance(1, 2) {
			b = floatEdges32[r.Intn(len(floatEdges32))]
		} else {
			b = uint32(r.Next())
		}
		t.fbits = uint64(b)
		// the rendering is checked by parsing it back (checkFloat)
		one(uint64(b), "", fmt.Sprintf("math.Float32frombits(%#x)", b))
		if f := math.Float32frombits(b); r.Chance(1, 2) && !math.IsNaN(float64(f)) && !math.IsInf(float64(f), 0) && b != 0x80000000 {
			t.Expr = strconv.FormatFloat(float64(f), 'e', -1, 32)
		}
	case "float64":
		var b uint64
		if r.Chance(1, 2) {
			b = floatEdges64[r.Intn(len(floatEdges64))]
		} else {
			b = r.Next()
		}
		t.fbits = b
		one(b, "", fmt.Sprintf("math.Float64frombits(%#x)", b))
		if f := math.Float64frombits(b); r.Chance(1, 2) && !math.IsNaN(f) && !math.IsInf(f, 0) && b != 0x8000000000000000 {
			t.Expr = strconv.FormatFloat(f, 'e', -1, 64)
		}
	case "string":
		s := strLits[r.Intn(len(strLits))]
		t.Agg = true
		t.Expr = strconv.Quote(s)
		if e2e {
			t.Words, t.Known = []uint64{0, uint64(len(s))}, []bool{false, true}
			t.WantRe = `^string\(` + addrRe + fmt.Sprintf(`, len=%d\)$`, len(s))
		} else {
			p := plausibleAddr(r)
			l := uint64(len(s))
			if r.Chance(1, 4) {
				l = r.Next()
			}
			t.Words, t.Known = []uint64{p, l}, []bool{true, true}
			t.Want = fmt.Sprintf("string(%s, len=%d)", hexw(p), l)
		}
	case "slice":
		st := sliceTypes[r.Intn(len(sliceTypes))]
		t.TypeSrc, t.TypeName, t.Agg = st.src, st.name, true
		if e2e {
			if r.Chance(1, 5) {
				t.Expr = "nil"
				t.Words, t.Known = []uint64{0, 0, 0}, []bool{true, true, true}
				t.Want = st.name + "(0x0 len=0 cap=0)"
			} else {
				lo := r.Intn(st.cap)
				hi := lo + r.Intn(st.cap-lo+1)
				t.Expr = fmt.Sprintf("%s[%d:%d]", st.base, lo, hi)
				t.Words, t.Known = []uint64{0, uint64(hi - lo), uint64(st.cap - lo)}, []bool{false, true, true}
				t.WantRe = "^" + regexp.QuoteMeta(st.name) + `\(` + addrRe + fmt.Sprintf(` len=%d cap=%d\)$`, hi-lo, st.cap-lo)
			}
		} else {
			p, l := plausibleAddr(r), uint64(r.Intn(100))
			c := l + uint64(r.Intn(100))
			if r.Chance(1, 4) {
				l, c = r.Next(), r.Next()
			}
			t.Words, t.Known = []uint64{p, l, c}, []bool{true, true, true}
			t.Want = fmt.Sprintf("%s(%s len=%d cap=%d)", st.name, hexw(p), l, c)
		}
	case "ptr", "map", "chan", "func":
		var src, name, expr string
		switch k {
		case "ptr":
			x := ptrTypes[r.Intn(len(ptrTypes))]
			src, name, expr = x.src, x.name, x.expr
		case "map":
			x := mapTypes[r.Intn(len(mapTypes))]
			src, name, expr = x.src, x.name, x.expr
		case "chan":
			x := chanTypes[r.Intn(len(chanTypes))]
			src, name, expr = x.src, x.name, x.expr
		case "func":
			x := funcTypes[r.Intn(len(funcTypes))]
			src, name, expr = x.src, x.name, x.expr
		}
		t.TypeSrc, t.TypeName = src, name
		a, known, ex := addr("nil", expr)
		t.Expr = ex
		t.Words, t.Known = []uint64{a}, []bool{known}
		if known {
			t.Want = fmt.Sprintf("%s(%s)", name, hexw(a))
		} else {
			t.WantRe = "^" + regexp.QuoteMeta(name) + `\(` + addrRe + `\)$`
		}
	}
	return t
}

// checkRendering is the direct oracle for one parameter: got must be the
// rendering of the value. name, when set, is the pseudo name carried by the
// first word (pointer naming) and replaces the address.
func (t *tval) checkRendering(got string) string {
	switch t.Kind {
	case "float32", "float64":
		size := 64
		if t.Kind == "float32" {
			size = 32
		}
		f, err := strconv.ParseFloat(got, size)
		if err != nil && !(got == "+Inf" || got == "-Inf" || got == "NaN") {
			return fmt.Sprintf("%s rendered as %q which does not parse as a float", t.Kind, got)
		}
		var bits uint64
		var isNaN bool
		if size == 32 {
			bits = uint64(math.Float32bits(float32(f)))
			isNaN = math.IsNaN(float64(math.Float32frombits(uint32(t.fbits))))
		} else {
			bits = math.Float64bits(f)
			isNaN = math.IsNaN(math.Float64frombits(t.fbits))
		}
		if isNaN {
			if got != "NaN" {
				return fmt.Sprintf("%s NaN (bits %#x) rendered as %q", t.Kind, t.fbits, got)
			}
			return ""
		}
		if bits != t.fbits {
			return fmt.Sprintf("%s with bits %#x rendered as %q which denotes bits %#x", t.Kind, t.fbits, got, bits)
		}
		return ""
	}
	if t.Want != "" || t.WantRe == "" {
		if got != t.Want {
			return fmt.Sprintf("%s value %s rendered as %q, want %q", t.TypeSrc, t.Expr, got, t.Want)
		}
		return ""
	}
	if !regexp.MustCompile(t.WantRe).MatchString(got) {
		return fmt.Sprintf("%s value %s rendered as %q, want match of %s", t.TypeSrc, t.Expr, got, t.WantRe)
	}
	return ""
}

func (t *tval) arg() stack.Arg {
	mk := func(v uint64) stack.Arg {
		return stack.Arg{Value: v, IsPtr: v > ptrFloorC19 && v < ptrCeilC19}
	}
	if !t.Agg {
		return mk(t.Words[0])
	}
	a := stack.Arg{IsAggregate: true}
	for _, w := range t.Words {
		a.Fields.Values = append(a.Fields.Values, mk(w))
	}
	return a
}

var ptrFloorC19, ptrCeilC19 = stack.VerifPointerBounds()

// ---------------------------------------------------------------------------
// model request

type augmentOp struct {
	Op       string          `json:"op"`
	Types    []HB            `json:"types"`
	Ellipsis bool            `json:"ellipsis"`
	Args     MArgs           `json:"args"`
	F32      [][]interface{} `json:"f32"`
	F64      [][]interface{} `json:"f64"`
}

func flatScalars(as []stack.Arg, out *[]*stack.Arg) {
	for i := range as {
		if as[i].IsAggregate {
			flatScalars(as[i].Fields.Values, out)
		} else {
			*out = append(*out, &as[i])
		}
	}
}

func mkAugmentOp(types []string, ell bool, args *stack.Args) *augmentOp {
	op := &augmentOp{Op: "augment", Types: hbs(types), Ellipsis: ell, Args: mArgs(args), F32: [][]interface{}{}, F64: [][]interface{}{}}
	op.Args.Processed = []HB{}
	var flat []*stack.Arg
	flatScalars(args.Values, &flat)
	s32, s64 := map[uint32]bool{}, map[uint64]bool{}
	for _, a := range flat {
		if b := uint32(a.Value); !s32[b] {
			s32[b] = true
			op.F32 = append(op.F32, []interface{}{b, hb(strconv.FormatFloat(float64(math.Float32frombits(b)), 'g', -1, 32))})
		}
		if b := a.Value; !s64[b] {
			s64[b] = true
			op.F64 = append(op.F64, []interface{}{b, hb(strconv.FormatFloat(math.Float64frombits(b), 'g', -1, 64))})
		}
	}
	return op
}

// compareModel sends the op and compares the model's Processed with got.
func compareModel(res *Result, pool *DrvPool, stream string, op *augmentOp, got []string, ctx interface{}) {
	want := append([]string{}, got...)
	pool.Send(op, func(raw json.RawMessage) {
		res.Trace()
		var rep struct {
			Processed []HB   `json:"processed"`
			Panic     string `json:"panic"`
			Error     string `json:"error"`
		}
		if err := json.Unmarshal(raw, &rep); err != nil || rep.Error != "" || rep.Panic != "" {
			res.Disagree(Finding{Stream: stream, What: fmt.Sprintf("model did not answer with a Processed list: %s", clip(string(raw))), Op: op, Got: want, Expected: ctx})
			return
		}
		m := make([]string, len(rep.Processed))
		for i, p := range rep.Processed {
			m[i] = p.String()
		}
		if strings.Join(m, "\x00") != strings.Join(want, "\x00") || len(m) != len(want) {
			res.Disagree(Finding{Stream: stream, What: "augmentCall: Processed differs between model and implementation", Op: op, Expected: m, Got: want})
		}
	})
}

// ---------------------------------------------------------------------------
// (a) function level

// hostile type texts: everything fieldToType / name can meet.
var hostileTypes = []string{"interface{}", "error", "T", "pkg.T", "*pkg.T", "[4]int", "[N]int", "[...]int", "[][]int", "[]*T", "[]pkg.T",
	"map[string][]int", "map[pkg.K]*V", "struct{ a int }", "G[int]", "(int)", "*[]int", "**int", "func(a, b int) (int, error)",
	"chan []int", "chan<- *T", "interface{ M() }", "any", "complex128", "[2]string", "*struct{}", "map[int]map[int]int", "S"}

var paramNames = []string{"a", "b", "c", "x", "y", "_", "ctx", "n"}

type genFn struct {
	Src    string
	Line   int
	Params []tval // well-typed prefix (one per top-level argument) when Typed
	Typed  bool
}

func genHostileArg(r *Rng, depth int) stack.Arg {
	if depth < 3 && r.Chance(1, 4) {
		a := stack.Arg{IsAggregate: true}
		n := r.Intn(4)
		for i := 0; i < n; i++ {
			a.Fields.Values = append(a.Fields.Values, genHostileArg(r, depth+1))
		}
		a.Fields.Elided = r.Chance(1, 4)
		return a
	}
	if r.Chance(1, 10) {
		return stack.Arg{IsOffsetTooLarge: true}
	}
	var v uint64
	switch r.Intn(8) {
	case 0:
		v = 0
	case 1:
		v = 1
	case 2:
		v = uint64(r.Intn(256))
	case 3:
		v = 0xffffffff00000000 | uint64(uint32(r.Next()))
	case 4:
		v = uint64(uint32(r.Next()))
	case 5:
		v = plausibleAddr(r)
	default:
		v = r.Next()
	}
	a := stack.Arg{Value: v, IsPtr: v > ptrFloorC19 && v < ptrCeilC19, IsInaccurate: r.Chance(1, 10)}
	if r.Chance(1, 8) {
		a.Name = fmt.Sprintf("#%d", 1+r.Intn(5))
	}
	if r.Chance(1, 40) {
		// constructed snapshots may carry both
		a.IsOffsetTooLarge = true
	}
	return a
}

// genFuncCase builds the source of one function and a call.
func genFuncCase(r *Rng) (genFn, stack.Call) {
	var g genFn
	call := stack.Call{Func: stack.Func{Name: "F"}}
	typed := r.Chance(1, 2)
	g.Typed = typed
	var params []string
	recv := ""
	var vals []stack.Arg
	if r.Chance(1, 4) {
		switch r.Intn(4) {
		case 0:
			recv = "(t *T) "
			tv := tval{Kind: "ptr", TypeSrc: "*T", TypeName: "*T"}
			p := plausibleAddr(r)
			tv.Words, tv.Known, tv.Want = []uint64{p}, []bool{true}, "*T("+hexw(p)+")"
			g.Params = append(g.Params, tv)
			vals = append(vals, tv.arg())
		case 1:
			recv = "(*T) "
			tv := tval{Kind: "ptr", TypeSrc: "*T", TypeName: "*T"}
			p := plausibleAddr(r)
			tv.Words, tv.Known, tv.Want = []uint64{p}, []bool{true}, "*T("+hexw(p)+")"
			g.Params = append(g.Params, tv)
			vals = append(vals, tv.arg())
		case 2:
			// value receivers are outside the property's quantifier: only
			// the correspondence is checked
			recv = "(t T) "
			g.Typed, typed = false, false
		case 3:
			recv = "(T) "
			g.Typed, typed = false, false
		}
	}
	n := r.Intn(7)
	if typed {
		unnamed := r.Chance(1, 6)
		for i := 0; i < n; i++ {
			tv := genTV(r, false)
			if unnamed {
				params = append(params, tv.TypeSrc)
				g.Params = append(g.Params, tv)
				vals = append(vals, tv.arg())
				continue
			}
			nm := fmt.Sprintf("p%d", i)
			if r.Chance(1, 6) {
				nm = "_"
			}
			// grouped parameters `a, b int`
			if r.Chance(1, 5) && i+1 < n {
				tv2 := genTV(r, false)
				for tv2.TypeSrc != tv.TypeSrc {
					tv2 = genTV(r, false)
				}
				params = append(params, fmt.Sprintf("%s, q%d %s", nm, i, tv.TypeSrc))
				g.Params = append(g.Params, tv, tv2)
				vals = append(vals, tv.arg(), tv2.arg())
				i++
				continue
			}
			params = append(params, nm+" "+tv.TypeSrc)
			g.Params = append(g.Params, tv)
			vals = append(vals, tv.arg())
		}
		// pointer naming
		for i := range g.Params {
			tv := &g.Params[i]
			if r.Chance(1, 6) && (tv.Kind == "ptr" || tv.Kind == "map" || tv.Kind == "chan" || tv.Kind == "func" || tv.Kind == "string" || tv.Kind == "slice") {
				nm := fmt.Sprintf("#%d", 1+r.Intn(4))
				if tv.Agg {
					vals[i].Fields.Values[0].Name = nm
				} else {
					vals[i].Name = nm
				}
				tv.Want = strings.Replace(tv.Want, hexw(tv.Words[0]), nm, 1)
			}
		}
		// variadic tail: its slice header is one aggregate
		if r.Chance(1, 6) {
			p, l := plausibleAddr(r), uint64(r.Intn(5))
			if unnamed {
				params = append(params, "...int")
			} else {
				params = append(params, "xs ...int")
			}
			// the code renders it with the element type: only correspondence
			vals = append(vals, stack.Arg{IsAggregate: true, Fields: stack.Args{Values: []stack.Arg{{Value: p}, {Value: l}, {Value: l}}}})
		}
		// the runtime may elide the tail
		if r.Chance(1, 6) && len(vals) > 0 {
			k := r.Intn(len(vals) + 1)
			vals = vals[:k]
			if len(g.Params) > k {
				g.Params = g.Params[:k]
			}
			call.Args.Elided = true
		}
	} else {
		unnamed := r.Chance(1, 5)
		for i := 0; i < n; i++ {
			var ty string
			if r.Chance(1, 2) {
				ty = hostileTypes[r.Intn(len(hostileTypes))]
			} else {
				ty = genTV(r, false).TypeSrc
			}
			if i == n-1 && r.Chance(1, 3) {
				ty = "..." + ty
			}
			switch {
			case unnamed:
				params = append(params, ty)
			case r.Chance(1, 4):
				params = append(params, fmt.Sprintf("%s, q%d %s", paramNames[r.Intn(len(paramNames))], i, ty))
			default:
				params = append(params, fmt.Sprintf("%s %s", paramNames[r.Intn(len(paramNames))], ty))
			}
		}
		m := r.Intn(9)
		for i := 0; i < m; i++ {
			vals = append(vals, genHostileArg(r, 0))
		}
		call.Args.Elided = r.Chance(1, 6)
	}
	call.Args.Values = vals
	pre := ""
	g.Line = 4
	if r.Chance(1, 4) {
		pre = "// a comment\n\nvar V = func(x int) int { return x }\n\n"
		g.Line += 4
	}
	g.Src = "package p\n\n" + pre + "func " + recv + "F(" + strings.Join(params, ", ") + ") {\n\tpanic(1)\n}\n"
	if !typed && r.Chance(1, 25) {
		// unparsable
		g.Src = strings.Replace(g.Src, "func ", "func {", 1)
	}
	return g, call
}

func safeAugmentCall(call *stack.Call, src []byte, line int) (ok bool, panicked interface{}) {
	defer func() {
		if e := recover(); e != nil {
			panicked = e
		}
	}()
	return stack.VerifAugmentCall(call, src, line), nil
}

func runC19a(res *Result, pool *DrvPool, r *Rng) {
	n := countN(res.Tier, 12000, 300000)
	for i := 0; i < n; i++ {
		g, call := genFuncCase(r)
		before := jsonStr(mArgList(call.Args.Values))
		src := []byte(g.Src)
		types, ell, okT := stack.VerifExtractTypes(src, "F", g.Line)
		c2 := call
		c2.Args.Values = sArgList(mArgList(call.Args.Values)) // deep copy
		ok, pan := safeAugmentCall(&c2, src, g.Line)
		var flat []*stack.Arg
		flatScalars(call.Args.Values, &flat)
		key := g.Src + "\x00" + before
		res.Eval("a:"+key, ok && len(types) > 0 && len(flat) > 0)
		opDesc := map[string]interface{}{"src": g.Src, "line": g.Line, "args": mArgs(&call.Args)}
		if pan != nil {
			res.Violation(Finding{Stream: "a", What: fmt.Sprintf("augmentCall panicked: %v", pan), Op: opDesc})
			continue
		}
		if ok != okT {
			res.Violation(Finding{Stream: "a", What: "VerifExtractTypes and VerifAugmentCall disagree on whether the function was found", Op: opDesc})
			continue
		}
		if after := jsonStr(mArgList(c2.Args.Values)); after != before || c2.Args.Elided != call.Args.Elided {
			res.Violation(Finding{Stream: "a", What: "augmentCall changed the raw argument values", Op: opDesc, Expected: before, Got: after})
		}
		if !ok {
			res.Count("a:not_found_or_unparsable")
			if c2.Args.Processed != nil {
				res.Violation(Finding{Stream: "a", What: "no function found but Processed is set", Op: opDesc, Got: c2.Args.Processed})
			}
			continue
		}
		if len(types) == 0 && ell {
			res.Violation(Finding{Stream: "a", What: "extractArgumentsType returned no type but ellipsis=true (augmentCall would index types[-1])", Op: opDesc})
		}
		got := c2.Args.Processed
		if len(got) > len(flat)+len(call.Args.Values) {
			res.Violation(Finding{Stream: "a", What: "more Processed entries than scalars plus top-level arguments", Op: opDesc, Got: got})
		}
		for _, t := range types {
			res.Count("a:type:" + typeClass(t))
		}
		if ell {
			res.Count("a:ellipsis")
		}
		if len(flat) > len(types) {
			res.Count("a:more_args_than_types")
		}
		if g.Typed {
			res.Count("a:typed")
			// direct oracle: one Processed entry per well-typed parameter
			for k := range g.Params {
				tv := &g.Params[k]
				if k >= len(got) {
					res.Violation(Finding{Stream: "a", What: fmt.Sprintf("parameter %d (%s) has no Processed entry", k, tv.TypeSrc), Op: opDesc, Got: got})
					break
				}
				if k >= len(types) || types[k] != tv.TypeName {
					res.Violation(Finding{Stream: "a", What: fmt.Sprintf("parameter %d: type name %q, want %q", k, at(types, k), tv.TypeName), Op: opDesc})
					break
				}
				if w := tv.checkRendering(got[k]); w != "" {
					res.Violation(Finding{Stream: "a", What: fmt.Sprintf("parameter %d: %s", k, w), Op: opDesc, Got: got})
					break
				}
				res.Count("a:kind:" + tv.Kind)
			}
		} else {
			res.Count("a:hostile")
		}
		compareModel(res, pool, "S19 augment", mkAugmentOp(types, ell, &call.Args), got, opDesc)
		if i < 2 {
			res.Sample(map[string]interface{}{"stream": "a", "src": g.Src, "types": types, "processed": got})
		}
	}
}

func at(s []string, i int) string {
	if i < len(s) {
		return s[i]
	}
	return "<none>"
}

func typeClass(t string) string {
	switch {
	case strings.HasPrefix(t, "*"):
		return "*"
	case strings.HasPrefix(t, "map["):
		return "map"
	case strings.HasPrefix(t, "chan "):
		return "chan"
	case strings.HasPrefix(t, "[]"):
		return "[]"
	case strings.HasPrefix(t, "["):
		return "array"
	}
	switch t {
	case "bool", "int", "int8", "int16", "int32", "int64", "uint", "uint8", "uint16", "uint32", "uint64", "uintptr", "byte", "rune",
		"float32", "float64", "string", "func", "interface{}", "<unknown>":
		return t
	}
	return "named"
}

// ---------------------------------------------------------------------------
// (b) end to end and (c) mismatching sources

type progFunc struct {
	Name   string // f1
	Method bool   // func (t *T) f1
	Recv   string // receiver type of a method: T or U
	Params []tval
	// filled while rendering
	CallLine int // line of the call to the next function (or of the panic)
}

type prog struct {
	Fns  []progFunc
	Text string
	rng  *Rng
}

const progHeader = `package main

import "math"

var _ = math.Pi

type T struct{ x int }

type U struct{ y, z int }

var (
	gi   = 7
	gfl  = 1.5
	gstr = "s"
	gt   = &T{}
	gu   = &U{}
	gm   = map[int]int{1: 2}
	gm2  = map[string]bool{}
	gc   = make(chan int)
	gc2  = make(chan string, 1)
	gf   = func() {}
	gf2  = func(int) string { return "" }
	gs   = make([]int, 8)
	gss  = make([]string, 5)
	gsb  = make([]byte, 16)
	gsp  = make([]*int, 4)
)
`

func (f *progFunc) words() int {
	n := 0
	if f.Method {
		n++
	}
	for i := range f.Params {
		n += len(f.Params[i].Words)
	}
	return n
}

func genProg(r *Rng) *prog {
	p := &prog{rng: r.Fork()}
	depth := 2 + r.Intn(4)
	for i := 0; i < depth; i++ {
		f := progFunc{Name: fmt.Sprintf("f%d", i+1), Method: r.Chance(2, 5), Recv: "T"}
		limit := 10
		if r.Chance(1, 4) {
			limit = 14 // a few beyond the runtime's print limit
		}
		n := 1 + r.Intn(8)
		if limit > 10 {
			n = 7 + r.Intn(6)
		}
		for k := 0; k < n; k++ {
			tv := genTV(r, true)
			if f.words()+len(tv.Words) > limit {
				break
			}
			f.Params = append(f.Params, tv)
		}
		p.Fns = append(p.Fns, f)
	}
	// two consecutive methods: same method name on two receiver types, with
	// their own parameter lists, in one file
	for i := 1; i < len(p.Fns); i++ {
		if p.Fns[i].Method && p.Fns[i-1].Method && p.Fns[i-1].Recv == "T" {
			p.Fns[i].Recv = "U"
			p.Fns[i].Name = p.Fns[i-1].Name
		}
	}
	p.render(nil)
	return p
}

// render writes the program text. alt, if set, replaces the parameter list of
// one function in the text only (arity mismatch).
func (p *prog) render(alt map[string]string) {
	var b strings.Builder
	// every other program starts with a licence header and a build constraint: the file's first
	// declaration is not at byte 0
	hdr := progHeader
	if p.rng != nil && p.rng.Bool() {
		hdr = "// Copyright 2024 The Authors. All rights reserved.\n// Use of this source code is governed by a licence that can be found in the LICENSE file.\n\n//go:build !never\n\n// Command prog crashes on purpose.\n" + progHeader
	}
	b.WriteString(hdr)
	line := strings.Count(hdr, "\n") + 1
	w := func(s string) { b.WriteString(s); line += strings.Count(s, "\n") }
	callExpr := func(f *progFunc) string {
		var ex []string
		for i := range f.Params {
			ex = append(ex, f.Params[i].Expr)
		}
		recv := ""
		if f.Method {
			recv = "g" + strings.ToLower(f.Recv) + "."
		}
		return recv + f.Name + "(" + strings.Join(ex, ", ") + ")"
	}
	for i := range p.Fns {
		f := &p.Fns[i]
		var ps []string
		for k := range f.Params {
			ps = append(ps, fmt.Sprintf("p%d %s", k, f.Params[k].TypeSrc))
		}
		plist := strings.Join(ps, ", ")
		if a, ok := alt[f.Name]; ok {
			plist = a
		}
		recv := ""
		if f.Method {
			recv = "(t *" + f.Recv + ") "
		}
		w("\n//go:noinline\nfunc " + recv + f.Name + "(" + plist + ") {\n")
		f.CallLine = line
		if i+1 < len(p.Fns) {
			w("\t" + callExpr(&p.Fns[i+1]) + "\n")
		} else {
			w("\tpanic(\"boom\")\n")
		}
		w("}\n")
	}
	w("\nfunc main() {\n\t" + callExpr(&p.Fns[0]) + "\n}\n")
	p.Text = b.String()
}

var goEnv = append(os.Environ(), "GOFLAGS=-mod=mod", "GOPROXY=off", "GOSUMDB=off", "GOTOOLCHAIN=local", "CGO_ENABLED=0", "GOTRACEBACK=single")

// buildAndCrash compiles the program in dir and returns its stderr.
func buildAndCrash(dir string, p *prog) ([]byte, error) {
	if err := os.WriteFile(filepath.Join(dir, "go.mod"), []byte("module prog\n\ngo 1.23\n"), 0o644); err != nil {
		return nil, err
	}
	if err := os.WriteFile(filepath.Join(dir, "main.go"), []byte(p.Text), 0o644); err != nil {
		return nil, err
	}
	cmd := exec.Command("go", "build", "-gcflags", "-N -l", "-o", "prog.bin", ".")
	cmd.Dir, cmd.Env = dir, goEnv
	if out, err := cmd.CombinedOutput(); err != nil {
		return nil, fmt.Errorf("go build: %v\n%s", err, out)
	}
	run := exec.Command(filepath.Join(dir, "prog.bin"))
	run.Dir, run.Env = dir, goEnv
	var stderr bytes.Buffer
	run.Stderr = &stderr
	_ = run.Run()
	os.Remove(filepath.Join(dir, "prog.bin"))
	if !bytes.Contains(stderr.Bytes(), []byte("goroutine 1 [running]")) {
		return nil, fmt.Errorf("no traceback: %s", stderr.String())
	}
	return stderr.Bytes(), nil
}

type scanOut struct {
	gs    []*stack.Goroutine
	err   string
	panic interface{}
}

func scanWith(tb []byte, analyze, names bool) (o scanOut) {
	defer func() {
		if e := recover(); e != nil {
			o.panic = e
		}
	}()
	opts := stack.DefaultOpts()
	opts.AnalyzeSources = analyze
	opts.NameArguments = names
	s, _, err := stack.ScanSnapshot(bytes.NewReader(tb), io.Discard, opts)
	if err != nil && err != io.EOF {
		o.err = err.Error()
	}
	if s != nil {
		o.gs = s.Goroutines
	}
	return o
}

// withoutProcessed is the snapshot in mirror form with every Processed list
// dropped.
func withoutProcessed(gs []*stack.Goroutine) string {
	m := mGs(gs)
	for i := range m {
		for k := range m[i].Sig.Stack.Calls {
			m[i].Sig.Stack.Calls[k].Args.Processed = nil
		}
		for k := range m[i].Sig.Created.Calls {
			m[i].Sig.Created.Calls[k].Args.Processed = nil
		}
	}
	return jsonStr(m)
}

func (f *progFunc) frameName() string {
	if f.Method {
		return "(*" + f.Recv + ")." + f.Name
	}
	return f.Name
}

// checkProgram is the end-to-end oracle on one crashed program.
func checkProgram(res *Result, pool *DrvPool, p *prog, dir string, tb []byte, names bool) bool {
	opDesc := map[string]interface{}{"program": p.Text, "traceback": string(tb), "nameArguments": names}
	on := scanWith(tb, true, names)
	off := scanWith(tb, false, names)
	if on.panic != nil {
		res.Violation(Finding{Stream: "b", What: fmt.Sprintf("ScanSnapshot panicked with sources in place: %v", on.panic), Op: opDesc})
		return false
	}
	if len(on.gs) != 1 || len(off.gs) != 1 {
		res.Violation(Finding{Stream: "b", What: fmt.Sprintf("expected one goroutine, got %d / %d (err %q)", len(on.gs), len(off.gs), on.err), Op: opDesc})
		return false
	}
	if a, b := withoutProcessed(on.gs), withoutProcessed(off.gs); a != b {
		res.Violation(Finding{Stream: "b", What: "source analysis changed something other than Processed", Op: opDesc, Expected: b, Got: a})
	}
	calls := on.gs[0].Stack.Calls
	byName := map[string]*stack.Call{}
	for i := range calls {
		if calls[i].Func.IsPkgMain {
			byName[calls[i].Func.Name] = &calls[i]
		}
	}
	src := []byte(p.Text)
	augmented := false
	for i := range p.Fns {
		f := &p.Fns[i]
		c := byName[f.frameName()]
		if c == nil {
			res.Violation(Finding{Stream: "b", What: "frame " + f.frameName() + " not found in the parsed traceback", Op: opDesc})
			continue
		}
		if c.Line != f.CallLine {
			res.Violation(Finding{Stream: "b", What: fmt.Sprintf("frame %s: line %d, want %d", f.Name, c.Line, f.CallLine), Op: opDesc})
		}
		params := f.Params
		if f.Method {
			recv := tval{Kind: "ptr", TypeSrc: "*" + f.Recv, TypeName: "*" + f.Recv, Expr: "g" + strings.ToLower(f.Recv), Words: []uint64{0}, Known: []bool{false},
				WantRe: `^\*` + f.Recv + `\(` + addrRe + `\)$`}
			params = append([]tval{recv}, params...)
		}
		if len(params) > 0 && len(c.Args.Values) == 0 {
			res.Violation(Finding{Stream: "b", What: "frame " + f.Name + " has no arguments", Op: opDesc})
			continue
		}
		if len(c.Args.Values) > 0 && c.Args.Processed == nil {
			res.Violation(Finding{Stream: "b", What: "frame " + f.Name + " was not augmented although its source is in place", Op: opDesc, Got: mArgs(&c.Args)})
			continue
		}
		// raw words are what the program passed, masked to the size
		printed := 0
		for k := range params {
			tv := &params[k]
			if printed+len(tv.Words) > 10 {
				res.Count("b:beyond_print_limit")
				if !c.Args.Elided && !(k < len(c.Args.Values) && c.Args.Values[k].IsAggregate && c.Args.Values[k].Fields.Elided) {
					res.Violation(Finding{Stream: "b", What: fmt.Sprintf("frame %s: more than 10 words but the arguments are not marked elided", f.Name), Op: opDesc})
				}
				break
			}
			printed += len(tv.Words)
			if k >= len(c.Args.Values) || k >= len(c.Args.Processed) {
				res.Violation(Finding{Stream: "b", What: fmt.Sprintf("frame %s: parameter %d (%s) missing: %d values, %d processed", f.Name, k, tv.TypeSrc, len(c.Args.Values), len(c.Args.Processed)), Op: opDesc, Got: c.Args.Processed})
				break
			}
			a := &c.Args.Values[k]
			var ws []*stack.Arg
			flatScalars(c.Args.Values[k:k+1], &ws)
			if a.IsAggregate != tv.Agg || len(ws) != len(tv.Words) {
				res.Violation(Finding{Stream: "b", What: fmt.Sprintf("frame %s: parameter %d (%s): unexpected shape of the printed argument", f.Name, k, tv.TypeSrc), Op: opDesc, Got: mArg(a)})
				break
			}
			for wi, w := range ws {
				if tv.Known[wi] && w.Value != tv.Words[wi] {
					res.Violation(Finding{Stream: "b", What: fmt.Sprintf("frame %s: parameter %d (%s = %s): runtime printed %#x, generator expected %#x (harness assumption)", f.Name, k, tv.TypeSrc, tv.Expr, w.Value, tv.Words[wi]), Op: opDesc})
				}
			}
			got := c.Args.Processed[k]
			if w := tv.checkRendering(got); w != "" {
				res.Violation(Finding{Stream: "b", What: fmt.Sprintf("frame %s: parameter %d: %s", f.Name, k, w), Op: opDesc, Got: c.Args.Processed})
				break
			}
			// the address part is the printed word (or its pseudo name)
			if len(tv.Known) > 0 && !tv.Known[0] {
				wantAddr := hexw(ws[0].Value)
				if ws[0].Name != "" {
					wantAddr = ws[0].Name
				}
				if !strings.Contains(got, "("+wantAddr) {
					res.Violation(Finding{Stream: "b", What: fmt.Sprintf("frame %s: parameter %d (%s): rendered %q but the printed address is %s", f.Name, k, tv.TypeSrc, got, wantAddr), Op: opDesc})
				}
				if ws[0].Name != "" {
					res.Count("b:named_pointer")
				}
			}
			res.Count("b:kind:" + tv.Kind)
			augmented = true
		}
		// correspondence on the real frame
		types, ell, ok := stack.VerifExtractTypes(src, c.Func.Name, c.Line)
		if !ok {
			res.Violation(Finding{Stream: "b", What: "VerifExtractTypes fails on the generated source for " + f.Name, Op: opDesc})
			continue
		}
		raw := byName[f.frameName()]
		args := stack.Args{Values: raw.Args.Values, Elided: raw.Args.Elided}
		compareModel(res, pool, "S19 augment e2e", mkAugmentOp(types, ell, &args), c.Args.Processed, map[string]interface{}{"frame": f.Name, "program": p.Text})
		res.Count("b:frames")
		if f.Method {
			res.Count("b:method_frames")
		}
	}
	return augmented
}

type mutation struct {
	name string
	// apply changes the tree in dir; unaug says that every main.go frame must
	// stay unaugmented.
	apply func(dir string, p *prog, r *Rng) error
	unaug bool
}

var mutations = []mutation{
	{"delete", func(dir string, p *prog, r *Rng) error { return os.Remove(filepath.Join(dir, "main.go")) }, true},
	{"empty", func(dir string, p *prog, r *Rng) error {
		return os.WriteFile(filepath.Join(dir, "main.go"), nil, 0o644)
	}, true},
	{"truncate", func(dir string, p *prog, r *Rng) error {
		return os.WriteFile(filepath.Join(dir, "main.go"), []byte(p.Text[:r.Intn(len(p.Text))]), 0o644)
	}, false},
	{"shift_down", func(dir string, p *prog, r *Rng) error {
		// insert lines above the functions
		ins := strings.Repeat("// inserted\n", 1+r.Intn(12))
		t := strings.Replace(p.Text, "\n//go:noinline\n", "\n"+ins+"//go:noinline\n", 1)
		return os.WriteFile(filepath.Join(dir, "main.go"), []byte(t), 0o644)
	}, false},
	{"shift_up", func(dir string, p *prog, r *Rng) error {
		// remove lines above the functions
		t := strings.Replace(p.Text, "\tgs   = make([]int, 8)\n\tgss  = make([]string, 5)\n", "\tgs, gss = make([]int, 8), make([]string, 5)\n", 1)
		if r.Bool() {
			t = strings.Replace(t, "\nvar _ = math.Pi\n", "", 1)
			t = strings.Replace(t, "import \"math\"\n", "import _ \"math\"\n", 1)
		}
		return os.WriteFile(filepath.Join(dir, "main.go"), []byte(t), 0o644)
	}, false},
	{"arity", func(dir string, p *prog, r *Rng) error {
		alt := map[string]string{}
		for i := range p.Fns {
			f := &p.Fns[i]
			switch r.Intn(4) {
			case 0:
				alt[f.Name] = ""
			case 1:
				alt[f.Name] = "p0 " + genTV(r, true).TypeSrc
			case 2:
				var ps []string
				for k := range f.Params {
					ps = append(ps, fmt.Sprintf("p%d %s", k, f.Params[k].TypeSrc))
				}
				for k := 0; k < 1+r.Intn(4); k++ {
					ps = append(ps, fmt.Sprintf("z%d %s", k, genTV(r, true).TypeSrc))
				}
				alt[f.Name] = strings.Join(ps, ", ")
			case 3:
				alt[f.Name] = "xs ..." + genTV(r, true).TypeSrc
			}
		}
		q := *p
		q.Fns = append([]progFunc{}, p.Fns...)
		q.render(alt)
		return os.WriteFile(filepath.Join(dir, "main.go"), []byte(q.Text), 0o644)
	}, false},
	{"unparsable", func(dir string, p *prog, r *Rng) error {
		at := r.Intn(len(p.Text))
		junk := []string{"func {{{", "}}}} )(", "\x00\x01\x02", "package", "`"}[r.Intn(5)]
		return os.WriteFile(filepath.Join(dir, "main.go"), []byte(p.Text[:at]+junk+p.Text[at:]), 0o644)
	}, false},
	{"not_go", func(dir string, p *prog, r *Rng) error {
		c := []string{"#include <stdio.h>\nint main(void) {\n\treturn 0;\n}\n", "\x7fELF\x02\x01\x01\x00\x00\x00\n\n\n\n", strings.Repeat("\n", 200), strings.Repeat("TEXT ·f(SB),$0-8\n", 80)}[r.Intn(4)]
		return os.WriteFile(filepath.Join(dir, "main.go"), []byte(c), 0o644)
	}, true},
	{"directory", func(dir string, p *prog, r *Rng) error {
		if err := os.Remove(filepath.Join(dir, "main.go")); err != nil {
			return err
		}
		return os.Mkdir(filepath.Join(dir, "main.go"), 0o755)
	}, true},
	{"other_program", func(dir string, p *prog, r *Rng) error {
		q := genProg(r)
		return os.WriteFile(filepath.Join(dir, "main.go"), []byte(q.Text), 0o644)
	}, false},
	{"no_gomod", func(dir string, p *prog, r *Rng) error { return os.Remove(filepath.Join(dir, "go.mod")) }, false},
	// go/parser accepts receiver lists that are not valid Go (F10)
	{"two_receivers", func(dir string, p *prog, r *Rng) error {
		t := strings.ReplaceAll(p.Text, "\nfunc f", "\nfunc (a *T, b *U) f")
		t = strings.ReplaceAll(t, "\nfunc (t *T) ", "\nfunc (t *T, u *U) ")
		return os.WriteFile(filepath.Join(dir, "main.go"), []byte(t), 0o644)
	}, false},
	{"empty_receiver", func(dir string, p *prog, r *Rng) error {
		t := strings.ReplaceAll(p.Text, "\nfunc f", "\nfunc () f")
		t = strings.ReplaceAll(t, "\nfunc (t *T) ", "\nfunc () ")
		return os.WriteFile(filepath.Join(dir, "main.go"), []byte(t), 0o644)
	}, false},
}

func checkMutations(res *Result, p *prog, dir string, tb []byte) {
	r := p.rng
	restore := func() {
		os.RemoveAll(filepath.Join(dir, "main.go"))
		os.WriteFile(filepath.Join(dir, "main.go"), []byte(p.Text), 0o644)
		os.WriteFile(filepath.Join(dir, "go.mod"), []byte("module prog\n\ngo 1.23\n"), 0o644)
	}
	defer restore()
	processedOf := func(gs []*stack.Goroutine) string {
		var all [][]string
		for _, g := range gs {
			for i := range g.Stack.Calls {
				all = append(all, g.Stack.Calls[i].Args.Processed)
			}
		}
		return jsonStr(all)
	}
	truth := map[bool]string{true: processedOf(scanWith(tb, true, true).gs), false: processedOf(scanWith(tb, true, false).gs)}
	for _, m := range mutations {
		restore()
		if err := m.apply(dir, p, r); err != nil {
			res.Disagree(Finding{Stream: "c", What: "harness: cannot apply mutation " + m.name + ": " + err.Error()})
			continue
		}
		after, _ := os.ReadFile(filepath.Join(dir, "main.go"))
		opDesc := map[string]interface{}{"mutation": m.name, "program": p.Text, "source_on_disk": string(after), "traceback": string(tb)}
		names := r.Bool()
		on := scanWith(tb, true, names)
		off := scanWith(tb, false, names)
		res.Eval("c:"+m.name+"\x00"+string(after)+"\x00"+string(tb), true)
		res.Count("c:" + m.name)
		if on.panic != nil {
			res.Violation(Finding{Stream: "c", What: fmt.Sprintf("ScanSnapshot panicked on mismatching sources (%s): %v", m.name, on.panic), Op: opDesc})
			continue
		}
		if off.panic != nil || len(on.gs) != len(off.gs) {
			res.Violation(Finding{Stream: "c", What: fmt.Sprintf("%s: %d goroutines with source analysis, %d without", m.name, len(on.gs), len(off.gs)), Op: opDesc})
			continue
		}
		if a, b := withoutProcessed(on.gs), withoutProcessed(off.gs); a != b {
			res.Violation(Finding{Stream: "c", What: m.name + ": source analysis on mismatching sources changed something other than Processed", Op: opDesc, Expected: b, Got: a})
		}
		aug := 0
		for _, g := range on.gs {
			for i := range g.Stack.Calls {
				if g.Stack.Calls[i].Args.Processed != nil {
					aug++
				}
			}
		}
		if aug > 0 && processedOf(on.gs) != truth[names] {
			// informational: a mismatching tree that still parses and has a
			// function at that line gets rendered with that function's types
			res.Count("c:" + m.name + ":augmented_differently_from_matching_sources")
		}
		if aug > 0 {
			res.Count("c:" + m.name + ":frames_still_augmented")
			if m.unaug {
				res.Violation(Finding{Stream: "c", What: m.name + ": no usable source but a frame carries Processed", Op: opDesc, Got: mGs(on.gs)})
			}
		}
	}
}

func runC19bc(res *Result, pool *DrvPool, r *Rng) {
	n := countN(res.Tier, 16, 300)
	progs := make([]*prog, n)
	for i := range progs {
		progs[i] = genProg(r)
	}
	if _, err := exec.LookPath("go"); err != nil {
		res.Disagree(Finding{Stream: "b", What: "harness: no go toolchain on PATH: " + err.Error()})
		return
	}
	var wg sync.WaitGroup
	jobs := make(chan int)
	for w := 0; w < 8; w++ {
		wg.Add(1)
		go func() {
			defer wg.Done()
			for i := range jobs {
				p := progs[i]
				dir, err := os.MkdirTemp("", "verif-c19-")
				if err != nil {
					res.Disagree(Finding{Stream: "b", What: "harness: " + err.Error()})
					continue
				}
				if d, err := filepath.EvalSymlinks(dir); err == nil {
					dir = d
				}
				func() {
					defer os.RemoveAll(dir)
					tb, err := buildAndCrash(dir, p)
					if err != nil {
						res.Disagree(Finding{Stream: "b", What: "harness: generated program does not build or crash: " + clip(err.Error()), Op: p.Text})
						return
					}
					a1 := checkProgram(res, pool, p, dir, tb, true)
					a2 := checkProgram(res, pool, p, dir, tb, false)
					res.Eval("b:"+p.Text, a1 && a2)
					res.Count("b:programs")
					if i < 1 {
						on := scanWith(tb, true, true)
						var proc [][]string
						if len(on.gs) == 1 {
							for k := range on.gs[0].Stack.Calls {
								proc = append(proc, on.gs[0].Stack.Calls[k].Args.Processed)
							}
						}
						res.Sample(map[string]interface{}{"stream": "b", "program": p.Text, "traceback": string(tb), "processed": proc})
					}
					checkMutations(res, p, dir, tb)
				}()
			}
		}()
	}
	for i := range progs {
		jobs <- i
	}
	close(jobs)
	wg.Wait()
}

func runC19(prop string, res *Result, pool *DrvPool, r *Rng) {
	defer func() {
		rule := res.Rule
		runC19B(prop, res, pool, r.Fork())
		res.Rule = rule + " (d) " + res.Rule
	}()
	res.Rule = "(a) one-function sources with random receivers/grouped/unnamed/variadic parameters over the supported kinds (typed: arguments are the masked words of drawn values, the oracle renders the VALUE; hostile: arbitrary type texts and argument shapes incl. nested/empty/elided aggregates, `_`, named pointers, wrong arity) through VerifAugmentCall vs model op augment; non-trivial = function found, at least one type and one scalar. " +
		"(b) generated programs (chains of //go:noinline functions and pointer-receiver methods, random parameter lists and literal values, a few beyond the 10-word print limit) built with -gcflags '-N -l', crashed, their traceback scanned with the sources in place, with and without pointer naming; non-trivial = a parameter was rendered and checked in both scans. " +
		"(c) the same tracebacks against mutated trees (deleted, empty, truncated, shifted, different arity, unparsable, non-Go, directory, another program, no go.mod); every case counts. Distinct by hash of source+arguments / program / mutated source+traceback."
	runC19a(res, pool, r.Fork())
	runC19bc(res, pool, r.Fork())
	runC19c(prop, res, pool, r.Fork())
	runC19Rebuild(res, r.Fork())
	runC19d(prop, res, pool, r.Fork())
}


// runC19Rebuild: the sources next to a dump are what the dump's binary was built from NOW.  A
// source file is analysed, then replaced by another build's version of the same length and with
// the same modification time (normalised timestamps: tar, containers, rsync -t), then a dump of the
// new build is analysed in the same process: the typed rendering must follow the file on disk.
func runC19Rebuild(res *Result, r *Rng) {
	dir, err := os.MkdirTemp("", "verif-c19-rebuild-")
	if err != nil {
		return
	}
	defer os.RemoveAll(dir)
	os.MkdirAll(filepath.Join(dir, "src", "app"), 0o755)
	path := filepath.Join(dir, "src", "app", "main.go")
	mk := func(t1, t2 string) string {
		return "package main\n\nfunc f(a " + t1 + ", b " + t2 + ") {\n\tpanic(1)\n}\n\nfunc main() {\n\tf(1, 2)\n}\n"
	}
	dump := "goroutine 1 [running]:\nmain.f(0x7, 0xfffffffb)\n\t" + path + ":4 +0x1d\nmain.main()\n\t" + path + ":8 +0x2\n\n"
	opts := &stack.Opts{LocalGOPATHs: []string{dir}, GuessPaths: true, AnalyzeSources: true}
	render := func() string {
		s, _, _ := stack.ScanSnapshot(strings.NewReader(dump), io.Discard, opts)
		if s == nil || len(s.Goroutines) == 0 || len(s.Goroutines[0].Stack.Calls) == 0 {
			return "<no snapshot>"
		}
		return strings.Join(s.Goroutines[0].Stack.Calls[0].Args.Processed, ", ")
	}
	stamp := time.Unix(1700000000, 0)
	builds := [][3]string{{"int32", "uint32", "7, 4294967291"}, {"uint32", "int32", "7, -5"}, {"uint8", "uint32", "7, 4294967291"}, {"int32", "uint32", "7, 4294967291"}, {"uint32", "int32", "7, -5"}}
	for round := 0; round < countN(res.Tier, 4, 40); round++ {
		for k, b := range builds {
			src := mk(b[0], b[1])
			// same length for the two 13-byte spellings; the third differs in length on purpose
			os.WriteFile(path, []byte(src), 0o644)
			os.Chtimes(path, stamp, stamp)
			got := render()
			res.Count("rebuild-steps")
			if got != b[2] {
				res.Violation(Finding{Stream: "rebuild", What: fmt.Sprintf("step %d of a sequence of builds in one process: the file on disk declares f(a %s, b %s) and the dump passes (0x7, 0xfffffffb): rendered %q, want %q (the file was replaced by a same-length version with the same modification time)", k, b[0], b[1], got, b[2]), Op: map[string]interface{}{"dump": dump, "source": src, "step": k}})
				return
			}
		}
	}
}
