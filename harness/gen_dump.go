package main

import (
	"fmt"
	"strings"
	"unicode"
	"unicode/utf8"
)

// A Go-side model of the runtime's traceback printer (runtime/traceback.go:
// goroutineheader, traceback2/printFuncName/printArgs, printcreatedby,
// tracebackothers) and of tsan's Go report printer. It produces the text of a
// dump together with the snapshot that the text describes (the expectation is
// computed from the description, never by parsing).

type ArgSpec struct {
	Agg    []ArgSpec // non-nil for an aggregate
	IsAgg  bool
	Elided bool // aggregate ends with ...
	V      uint64
	Otl    bool // printed as _
	Inacc  bool // printed with ?
}

type FrameSpec struct {
	Pkg       string // unescaped package path, "" for C-like symbols
	Name      string // rest of the symbol after the package dot
	Args      []ArgSpec
	ArgsElide bool // trailing ", ..."
	Inlined   bool // printed as (...)
	File      string
	Line      int
	Off       string // "" or " +0x1f"
	Fp        string // "" or " fp=0x.. sp=0x.. pc=0x.."
}

type GSpec struct {
	ID       int
	State    string
	Scan     bool
	WaitMin  int
	Locked   bool
	GPM      string // "" or " gp=0x.. m=3 mp=0x.."
	Unavail  bool
	Frames   []FrameSpec
	Elided   int // -1: none; 0: old style marker; n>0: "...n frames elided..."
	ElidedAt int // marker printed after this many frames
	Created  *FrameSpec
	Parent   int // 0: not printed
}

type PrintCfg struct {
	CRLF       bool
	Indent     string
	FileIndent string // "\t" or spaces
}

const ptrFloor = 512 * 1024
const ptrCeil = uint64((^uint(0)) >> 1)

func escapePkg(p string) string {
	// cmd/internal/objabi.PathToPrefix: escape bytes <= ' ', '%', '"', >= 0x7f,
	// and '.' after the last slash.
	slash := strings.LastIndexByte(p, '/')
	var sb strings.Builder
	for i := 0; i < len(p); i++ {
		c := p[i]
		if c <= ' ' || (c == '.' && i > slash) || c == '%' || c == '"' || c >= 0x7f {
			fmt.Fprintf(&sb, "%%%02x", c)
		} else {
			sb.WriteByte(c)
		}
	}
	return sb.String()
}

func (f *FrameSpec) symbol() string {
	if f.Pkg == "" {
		return f.Name
	}
	return escapePkg(f.Pkg) + "." + f.Name
}

func printArgList(sb *strings.Builder, as []ArgSpec, elided bool) {
	for i := range as {
		if i != 0 {
			sb.WriteString(", ")
		}
		a := &as[i]
		switch {
		case a.IsAgg:
			sb.WriteByte('{')
			printArgList(sb, a.Agg, a.Elided)
			sb.WriteByte('}')
		case a.Otl:
			sb.WriteByte('_')
		default:
			fmt.Fprintf(sb, "0x%x", a.V)
			if a.Inacc {
				sb.WriteByte('?')
			}
		}
	}
	if elided {
		if len(as) != 0 {
			sb.WriteString(", ")
		}
		sb.WriteString("...")
	}
}

func (c PrintCfg) eol() string {
	if c.CRLF {
		return "\r\n"
	}
	return "\n"
}

func (c PrintCfg) frame(sb *strings.Builder, f *FrameSpec) {
	sb.WriteString(c.Indent)
	sb.WriteString(f.symbol())
	sb.WriteByte('(')
	if f.Inlined {
		sb.WriteString("...")
	} else {
		printArgList(sb, f.Args, f.ArgsElide)
	}
	sb.WriteByte(')')
	sb.WriteString(c.eol())
	sb.WriteString(c.Indent)
	sb.WriteString(c.FileIndent)
	fmt.Fprintf(sb, "%s:%d%s%s", f.File, f.Line, f.Off, f.Fp)
	sb.WriteString(c.eol())
}

func (c PrintCfg) Goroutine(sb *strings.Builder, g *GSpec) {
	sb.WriteString(c.Indent)
	st := g.State
	if g.Scan {
		st += " (scan)"
	}
	fmt.Fprintf(sb, "goroutine %d%s [%s", g.ID, g.GPM, st)
	if g.WaitMin > 0 {
		fmt.Fprintf(sb, ", %d minutes", g.WaitMin)
	}
	if g.Locked {
		sb.WriteString(", locked to thread")
	}
	sb.WriteString("]:")
	sb.WriteString(c.eol())
	if g.Unavail {
		sb.WriteString(c.Indent)
		sb.WriteString(c.FileIndent)
		sb.WriteString("goroutine running on other thread; stack unavailable")
		sb.WriteString(c.eol())
	} else {
		for i := range g.Frames {
			if g.Elided >= 0 && i == g.ElidedAt {
				sb.WriteString(c.Indent)
				if g.Elided == 0 {
					sb.WriteString("...additional frames elided...")
				} else {
					fmt.Fprintf(sb, "...%d frames elided...", g.Elided)
				}
				sb.WriteString(c.eol())
			}
			c.frame(sb, &g.Frames[i])
		}
	}
	if g.Created != nil {
		sb.WriteString(c.Indent)
		sb.WriteString("created by ")
		sb.WriteString(g.Created.symbol())
		if g.Parent != 0 {
			fmt.Fprintf(sb, " in goroutine %d", g.Parent)
		}
		sb.WriteString(c.eol())
		sb.WriteString(c.Indent)
		sb.WriteString(c.FileIndent)
		fmt.Fprintf(sb, "%s:%d%s", g.Created.File, g.Created.Line, g.Created.Off)
		sb.WriteString(c.eol())
	}
}

// Dump prints goroutines separated by one blank line (tracebackothers).
func (c PrintCfg) Dump(gs []GSpec) string {
	var sb strings.Builder
	for i := range gs {
		if i != 0 {
			sb.WriteString(c.eol())
		}
		c.Goroutine(&sb, &gs[i])
	}
	return sb.String()
}

// ---- expectation ----

func expArg(a *ArgSpec) MArg {
	if a.IsAgg {
		return MArg{Agg: &MAgg{Elided: a.Elided, Values: expArgList(a.Agg)}}
	}
	if a.Otl {
		return MArg{Otl: true}
	}
	return MArg{V: a.V, Ptr: a.V > ptrFloor && a.V < ptrCeil, Inacc: a.Inacc}
}

func expArgList(as []ArgSpec) []MArg {
	out := make([]MArg, len(as))
	for i := range as {
		out[i] = expArg(&as[i])
	}
	return out
}

func lastElem(p string) string {
	if i := strings.LastIndexByte(p, '/'); i >= 0 {
		return p[i+1:]
	}
	return p
}

// expFunc is the demangled function the property promises for a symbol built
// from (pkg, name); inGoroutine is the " in goroutine N" text that follows a
// creator.
func expFunc(pkg, name string, parent int) MFunc {
	complete := name
	if pkg != "" {
		complete = pkg + "." + name
	}
	if parent != 0 {
		complete += fmt.Sprintf(" in goroutine %d", parent)
	}
	f := MFunc{C: hb(complete), IP: hb(pkg), DN: hb(lastElem(pkg)), N: hb(name)}
	if pkg == "main" {
		f.Main = true
		f.Ex = name == "main"
	} else {
		parts := strings.Split(name, ".")
		r, _ := utf8.DecodeRuneInString(parts[len(parts)-1])
		f.Ex = unicode.ToUpper(r) == r
	}
	return f
}

func expCall(f *FrameSpec, parent int, withArgs bool) MCall {
	c := MCall{Fn: expFunc(f.Pkg, f.Name, parent), Remote: hb(f.File), Line: f.Line}
	c.IP = c.Fn.IP
	if i := strings.LastIndexByte(f.File, '/'); i != -1 {
		c.Src = hb(f.File[i+1:])
		if j := strings.LastIndexByte(f.File[:i], '/'); j != -1 {
			c.DirSrc = hb(f.File[j+1:])
		}
	}
	if c.DirSrc.String() == "_test/_testmain.go" {
		c.Loc = 4
	}
	c.Args = MArgs{Processed: []HB{}, Values: []MArg{}}
	if withArgs {
		if f.Inlined {
			c.Args.Elided = true
		} else {
			c.Args.Values = expArgList(f.Args)
			c.Args.Elided = f.ArgsElide
		}
	}
	return c
}

func ExpectedGoroutines(gs []GSpec) []MG {
	out := make([]MG, len(gs))
	for i := range gs {
		g := &gs[i]
		st := g.State
		if g.Scan {
			st += " (scan)"
		}
		m := MG{ID: g.ID, First: i == 0}
		m.Sig.State = hb(st)
		m.Sig.SMin, m.Sig.SMax, m.Sig.Locked = g.WaitMin, g.WaitMin, g.Locked
		m.Sig.Stack.Calls = []MCall{}
		m.Sig.Created.Calls = []MCall{}
		if g.Unavail {
			m.Sig.Stack.Calls = append(m.Sig.Stack.Calls, MCall{Remote: hb("<unavailable>"), Args: MArgs{Processed: []HB{}, Values: []MArg{}}})
		} else {
			for j := range g.Frames {
				m.Sig.Stack.Calls = append(m.Sig.Stack.Calls, expCall(&g.Frames[j], 0, true))
			}
			m.Sig.Stack.Elided = g.Elided >= 0
		}
		if g.Created != nil {
			m.Sig.Created.Calls = append(m.Sig.Created.Calls, expCall(g.Created, g.Parent, false))
		}
		out[i] = m
	}
	return out
}

// ---- random descriptions ----

var waitReasons = []string{"running", "runnable", "syscall", "waiting", "chan receive", "chan send", "select", "select (no cases)",
	"IO wait", "semacquire", "sleep", "sync.Mutex.Lock", "sync.Cond.Wait", "GC assist marking", "finalizer wait", "force gc (idle)",
	"chan receive (nil chan)", "GC worker (idle)", "trace reader (blocked)", "debug call", "sync.WaitGroup.Wait", "preempted", "idle", "dead", "copystack"}

var pkgPool = []string{"main", "main", "main", "runtime", "sync", "net/http", "os", "github.com/foo/bar", "github.com/maruel/panicparse/v2/stack",
	"gopkg.in/yaml.v2", "golang.org/x/sys/unix", "example.com/a.b/c.d", "github.com/user/repo/vendor/golang.org/x/net/http2", "internal/poll",
	"héllo/wörld", "a/b c", "x.y", "foo.bar.baz", "a.b", "type:", "github.com/foo/c++", "example.com/a+b/c", "github.com/foo/bar/v3", "cmd/go/internal/work",
	// packages that merely end in, or start with, "main": only the import path "main" is the main package
	"example.com/tool/internal/main", "x/main", "mainly", "cmd/main.v2"}

var namePool = []string{"main", "foo", "Bar", "(*T).Method", "T.method", "main.func1", "main.func1.2", "init.0", "(*Server).Serve.func2", "glob..func1",
	"F[...]", "(*List[...]).Push", "Ʒ", "ünexported", "Ünic", "_cfunc", "gopanic", "goexit", "(*conn).serve", "Do.func1.gowrap1", "x·y", "a-b",
	// names with blanks: compiler-generated equality functions and methods of anonymous struct types
	"eq.[...]interface {}", "(*struct { sync.Mutex; n int }).Lock", "hash.struct { a int; b string }"}

var cNames = []string{"runtime.goexit", "_cgo_panic", "x_cgo_thread_start", "crosscall2"}

var filePool = []string{"/usr/lib/go/src/runtime/proc.go", "/home/user/go/src/github.com/foo/bar/baz.go", "/root/main.go", "??", "<autogenerated>",
	"/gopath/pkg/mod/gopkg.in/yaml.v2@v2.4.0/decode.go", "/src/asm_amd64.s", "/src/cgo/gcc_linux.c", "C:/Users/Go User/src/main.go",
	"/tmp/go-build123/b001/_test/_testmain.go", "/home/a b/c d.go", "/x/y.go.go", "main.go", "/a/b:12/c.go", "/home/user/src/worker.go",
	"_cgo_gotypes.go", "/weird/.go", "/héllo/wörld.go"}

// deepArg wraps a value in `levels` aggregates: {{{{{v}}}}}
func deepArg(v ArgSpec, levels int) ArgSpec {
	for ; levels > 0; levels-- {
		v = ArgSpec{IsAgg: true, Agg: []ArgSpec{v}}
	}
	return v
}

func genArgs(r *Rng, depth int, max int) ([]ArgSpec, bool) {
	n := r.Intn(max + 1)
	out := make([]ArgSpec, 0, n)
	if depth == 0 && n > 0 && r.Chance(1, 25) {
		// the deepest nesting the runtime prints
		out = append(out, deepArg(ArgSpec{V: genValue(r)}, 3+r.Intn(3)))
	}
	for i := 0; i < n; i++ {
		switch k := r.Intn(12); {
		case k == 0 && depth < 5:
			sub, el := genArgs(r, depth+1, 3)
			out = append(out, ArgSpec{IsAgg: true, Agg: sub, Elided: el})
		case k == 1:
			out = append(out, ArgSpec{Otl: true})
		default:
			out = append(out, ArgSpec{V: genValue(r), Inacc: r.Chance(1, 8)})
		}
	}
	return out, r.Chance(1, 8)
}

var boundaryValues = []uint64{0, 1, 9, 10, ptrFloor - 1, ptrFloor, ptrFloor + 1, ptrCeil - 1, ptrCeil, ptrCeil + 1, ^uint64(0), 0xc000012345, 0xc000012345, 0xc00009a000, 0x7fffffff, 0x80000000}

func genValue(r *Rng) uint64 {
	switch r.Intn(4) {
	case 0:
		return boundaryValues[r.Intn(len(boundaryValues))]
	case 1:
		return uint64(r.Intn(64))
	case 2:
		return 0xc000000000 + uint64(r.Intn(16))*0x1000
	default:
		return r.Next() >> uint(r.Intn(64))
	}
}

func genFrame(r *Rng, simple bool) FrameSpec {
	f := FrameSpec{}
	if !simple && r.Chance(1, 20) {
		f.Pkg, f.Name = "", r.Pick(cNames)
		if i := strings.IndexByte(f.Name, '.'); i >= 0 {
			f.Pkg, f.Name = f.Name[:i], f.Name[i+1:]
		}
	} else {
		f.Pkg, f.Name = r.Pick(pkgPool), r.Pick(namePool)
	}
	if r.Chance(1, 12) {
		f.Inlined = true
	} else {
		f.Args, f.ArgsElide = genArgs(r, 0, 5)
	}
	f.File = r.Pick(filePool)
	f.Line = 1 + r.Intn(3000)
	if r.Chance(1, 30) {
		f.Line = 0
	}
	if r.Chance(1, 40) {
		f.Line = 99999999999999999
	}
	if r.Chance(4, 5) {
		f.Off = fmt.Sprintf(" +0x%x", r.Intn(1<<16))
	}
	if r.Chance(1, 10) {
		f.Fp = fmt.Sprintf(" fp=0x%x sp=0x%x", 0xc000000000+r.Intn(1<<20), 0xc000000000+r.Intn(1<<20))
		if r.Bool() {
			f.Fp += fmt.Sprintf(" pc=0x%x", 0x400000+r.Intn(1<<20))
		}
	}
	return f
}

// GenDump draws a random well-formed dump description.
func GenDump(r *Rng, maxG, maxF int) []GSpec {
	n := 1 + r.Intn(maxG)
	gs := make([]GSpec, n)
	ids := r.Perm(n * 3)
	gpm := r.Chance(1, 8)
	for i := range gs {
		g := &gs[i]
		g.ID = ids[i] + 1
		if r.Chance(1, 30) {
			g.ID = 100000000000000000 + r.Intn(1000)
		}
		g.State = r.Pick(waitReasons)
		g.Scan = r.Chance(1, 20)
		if r.Chance(1, 3) {
			g.WaitMin = 1 + r.Intn(500)
		}
		g.Locked = r.Chance(1, 6)
		if gpm {
			g.GPM = fmt.Sprintf(" gp=0x%x m=%d", 0xc000000000+r.Intn(1<<20), r.Intn(8))
			if r.Bool() {
				g.GPM += fmt.Sprintf(" mp=0x%x", 0xc000000000+r.Intn(1<<20))
			} else if r.Bool() {
				g.GPM = fmt.Sprintf(" gp=0x%x m=nil", 0xc000000000+r.Intn(1<<20))
			}
		}
		g.Elided = -1
		if r.Chance(1, 15) {
			g.Unavail = true
		} else {
			nf := 1 + r.Intn(maxF)
			if r.Chance(1, 50) {
				nf = 100 + r.Intn(51)
			}
			g.Frames = make([]FrameSpec, nf)
			for j := range g.Frames {
				g.Frames[j] = genFrame(r, false)
			}
			if nf > 1 && r.Chance(1, 8) {
				g.Elided = r.Intn(3) * r.Intn(200)
				g.ElidedAt = 1 + r.Intn(nf-1)
			}
		}
		if r.Chance(1, 2) {
			c := genFrame(r, true)
			c.Args, c.Inlined, c.ArgsElide, c.Fp = nil, false, false, ""
			g.Created = &c
			if r.Bool() {
				g.Parent = 1 + r.Intn(50)
			}
		}
	}
	return gs
}

func GenCfg(r *Rng) PrintCfg {
	c := PrintCfg{FileIndent: "\t"}
	c.CRLF = r.Chance(1, 4)
	if r.Chance(1, 4) {
		c.Indent = []string{"  ", "\t", " \t ", "    ", " "}[r.Intn(5)]
	}
	if r.Chance(1, 4) {
		c.FileIndent = strings.Repeat(" ", 1+r.Intn(8))
	}
	return c
}
