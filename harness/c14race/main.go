// c14race is built with -race by the C14 check: N goroutines scan, aggregate
// and render concurrently on shared and private snapshots and a shared Opts
// value. It prints RESULT-MISMATCH lines when a concurrent result differs from
// the sequential one; the race detector reports data races on stderr.
package main

import (
	"runtime"
	"bytes"
	"fmt"
	"html/template"
	"io"
	"os"
	"regexp"
	"strings"
	"sync"

	"github.com/maruel/panicparse/v2/stack"
	"github.com/maruel/panicparse/v2/verifhooks"
)

var reTime = regexp.MustCompile(`<li>Created on [^<]*</li>`)

func render(s *stack.Snapshot, lvl stack.Similarity) string {
	var b bytes.Buffer
	a := s.Aggregate(lvl)
	for _, bk := range a.Buckets {
		fmt.Fprintf(&b, "%v %v %s|", bk.IDs, bk.First, bk.State)
		for _, c := range bk.Stack.Calls {
			fmt.Fprintf(&b, "%s(%s);", c.Func.Complete, &c.Args)
		}
	}
	var h bytes.Buffer
	if err := a.ToHTML(&h, template.HTML("")); err != nil {
		b.WriteString("HTMLERR " + err.Error())
	}
	b.WriteString(reTime.ReplaceAllString(h.String(), ""))
	_, _, base := verifhooks.PathFormats()
	verifhooks.WriteBuckets(&b, verifhooks.NewPalette(true), a, base, false, nil, nil)
	h.Reset()
	s.ToHTML(&h, template.HTML(""))
	b.WriteString(reTime.ReplaceAllString(h.String(), ""))
	return b.String()
}

func main() {
	var dumps []string
	for i := 0; i < 6; i++ {
		var sb strings.Builder
		for g := 1; g <= 12; g++ {
			fmt.Fprintf(&sb, "goroutine %d [chan receive, %d minutes]:\nmain.worker(0xc0000%d0000, 0x%d, {0xc00001%d000, 0x2, 0x2})\n\t/home/u/app/main.go:%d +0x1\nnet/http.(*conn).serve(0xc000123000)\n\t/goroot/src/net/http/server.go:1900 +0x5\ncreated by main.main in goroutine 1\n\t/home/u/app/main.go:10 +0x2\n\n", g+i*100, g%3, g%4, g%2, g%5, 20+g%2)
		}
		dumps = append(dumps, sb.String())
	}
	// path guessing on, with several local roots, so that root detection runs
	// in every scan on the shared options value
	opts := &stack.Opts{NameArguments: true, GuessPaths: true, LocalGOROOT: runtime.GOROOT(), LocalGOPATHs: []string{"/nonexistent/gp", "/nonexistent/a/longer/gopath", "/nonexistent/mid/gp"}}
	shared, _, _ := stack.ScanSnapshot(strings.NewReader(dumps[0]), io.Discard, opts)
	levels := []stack.Similarity{stack.ExactFlags, stack.ExactLines, stack.AnyPointer, stack.AnyValue}
	// concurrent phase first (so that lazily initialised shared state, if any,
	// is first touched concurrently), sequential reference afterwards
	type res struct{ key, out string }
	var wg sync.WaitGroup
	var mu sync.Mutex
	var got []res
	for w := 0; w < 16; w++ {
		wg.Add(1)
		go func(w int) {
			defer wg.Done()
			for it := 0; it < 6; it++ {
				li := (w + it) % 4
				o := render(shared, levels[li])
				di := (w*7 + it) % len(dumps)
				s, _, _ := stack.ScanSnapshot(strings.NewReader(dumps[di]), io.Discard, opts)
				o2 := render(s, levels[li])
				mu.Lock()
				got = append(got, res{fmt.Sprint("shared", li), o}, res{fmt.Sprint(di, li), o2})
				mu.Unlock()
			}
		}(w)
	}
	wg.Wait()
	ref := map[string]string{}
	for li, l := range levels {
		ref[fmt.Sprint("shared", li)] = render(shared, l)
	}
	for di, d := range dumps {
		s, _, _ := stack.ScanSnapshot(strings.NewReader(d), io.Discard, opts)
		for li, l := range levels {
			ref[fmt.Sprint(di, li)] = render(s, l)
		}
	}
	bad := 0
	for _, g := range got {
		if g.out != ref[g.key] {
			bad++
		}
	}
	if bad != 0 {
		fmt.Printf("RESULT-MISMATCH %d\n", bad)
		os.Exit(3)
	}
	fmt.Println("c14race ok")
}
