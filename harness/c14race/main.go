// c14race is built with -race by the C14 check: N goroutines scan, aggregate
// and render concurrently on shared and private snapshots and a shared Opts
// value. It prints RESULT-MISMATCH lines when a concurrent result differs from
// the sequential one; the race detector reports data races on stderr.
package main

import (
	"runtime"
	"bytes"
	"fmt"
	"html/template"
	"io"
	"os"
	"regexp"
	"strings"
	"sync"

	"github.com/maruel/panicparse/v2/stack"
	"github.com/maruel/panicparse/v2/verifhooks"
)

var reTime = regexp.MustCompile(`<li>Created on [^<]*</li>`)

func render(s *stack.Snapshot, lvl stack.Similarity) string {
	var b bytes.Buffer
	a := s.Aggregate(lvl)
	for _, bk := range a.Buckets {
		fmt.Fprintf(&b, "%v %v %s|", bk.IDs, bk.First, bk.State)
		for _, c := range bk.Stack.Calls {
			fmt.Fprintf(&b, "%s(%s);", c.Func.Complete, &c.Args)
		}
	}
	var h bytes.Buffer
	if err := a.ToHTML(&h, template.HTML("")); err != nil {
		b.WriteString("HTMLERR " + err.Error())
	}
	b.WriteString(reTime.ReplaceAllString(h.String(), ""))
	_, _, base := verifhooks.PathFormats()
	verifhooks.WriteBuckets(&b, verifhooks.NewPalette(true), a, base, false, nil, nil)
	h.Reset()
	s.ToHTML(&h, template.HTML(""))
	b.WriteString(reTime.ReplaceAllString(h.String(), ""))
	return b.String()
}

func main() {
	var dumps []string
	for i := 0; i < 6; i++ {
		var sb strings.Builder
		for g := 1; g <= 12; g++ {
			fmt.Fprintf(&sb, "goroutine %d [chan receive, %d minutes]:\nmain.worker(0xc0000%d0000, 0x%d, {0xc00001%d000, 0x2, 0x2})\n\t/home/u/app/main.go:%d +0x1\nnet/http.(*conn).serve(0xc000123000)\n\t/goroot/src/net/http/server.go:1900 +0x5\ncreated by main.main in goroutine 1\n\t/home/u/app/main.go:10 +0x2\n\n", g+i*100, g%3, g%4, g%2, g%5, 20+g%2)
		}
		dumps = append(dumps, sb.String())
	}
	// path guessing on, with several local roots, so that root detection runs
	// in every scan on the shared options value
	opts := &stack.Opts{NameArguments: true, GuessPaths: true, LocalGOROOT: runtime.GOROOT(), LocalGOPATHs: []string{"/nonexistent/gp", "/nonexistent/a/longer/gopath", "/nonexistent/mid/gp"}}
	shared, _, _ := stack.ScanSnapshot(strings.NewReader(dumps[0]), io.Discard, opts)
	levels := []stack.Similarity{stack.ExactFlags, stack.ExactLines, stack.AnyPointer, stack.AnyValue}
	// a snapshot augmented from sources on disk: a call with more argument words than the runtime
	// prints (elided) whose arguments carry the typed rendering, shared by all renderers
	tmp, err := os.MkdirTemp("", "verif-c14race-")
	if err != nil {
		fmt.Println("DRIVER-FAILED cannot create a temporary directory:", err)
		os.Exit(4)
	}
	src := "package main\n\nfunc many(a, b, c, d, e, f, g, h, i, j, k, l int) {\n\tpanic(a)\n}\n\nfunc main() {\n\tmany(1, 2, 3, 4, 5, 6, 7, 8, 9, 10, 11, 12)\n}\n"
	os.WriteFile(tmp+"/main.go", []byte(src), 0o600)
	dumpSrc := fmt.Sprintf("goroutine 1 [running]:\nmain.many(0x1, 0x2, 0x3, 0x4, 0x5, 0x6, 0x7, 0x8, 0x9, 0xa, ...)\n\t%s/main.go:4 +0x1\nmain.main()\n\t%s/main.go:8 +0x2\n\n", tmp, tmp)
	optsSrc := &stack.Opts{NameArguments: true, GuessPaths: true, AnalyzeSources: true, LocalGOROOT: runtime.GOROOT(), LocalGOPATHs: []string{"/nonexistent/gp"}}
	sharedSrc, _, _ := stack.ScanSnapshot(strings.NewReader(dumpSrc), io.Discard, optsSrc)
	os.RemoveAll(tmp)
	if sharedSrc == nil || len(sharedSrc.Goroutines) != 1 || len(sharedSrc.Goroutines[0].Stack.Calls[0].Args.Processed) == 0 || !sharedSrc.Goroutines[0].Stack.Calls[0].Args.Elided {
		fmt.Println("DRIVER-FAILED the augmented snapshot has no typed rendering of an elided argument list")
		os.Exit(4)
	}
	// concurrent phase first (so that lazily initialised shared state, if any,
	// is first touched concurrently), sequential reference afterwards
	type res struct{ key, out string }
	var wg sync.WaitGroup
	var mu sync.Mutex
	var got []res
	for w := 0; w < 16; w++ {
		wg.Add(1)
		go func(w int) {
			defer wg.Done()
			for it := 0; it < 6; it++ {
				li := (w + it) % 4
				o := render(shared, levels[li])
				os3 := render(sharedSrc, levels[li])
				di := (w*7 + it) % len(dumps)
				s, _, _ := stack.ScanSnapshot(strings.NewReader(dumps[di]), io.Discard, opts)
				o2 := render(s, levels[li])
				mu.Lock()
				got = append(got, res{fmt.Sprint("shared", li), o}, res{fmt.Sprint(di, li), o2}, res{fmt.Sprint("sharedSrc", li), os3})
				mu.Unlock()
			}
		}(w)
	}
	wg.Wait()
	ref := map[string]string{}
	for li, l := range levels {
		ref[fmt.Sprint("shared", li)] = render(shared, l)
		ref[fmt.Sprint("sharedSrc", li)] = render(sharedSrc, l)
	}
	for di, d := range dumps {
		s, _, _ := stack.ScanSnapshot(strings.NewReader(d), io.Discard, opts)
		for li, l := range levels {
			ref[fmt.Sprint(di, li)] = render(s, l)
		}
	}
	bad := 0
	for _, g := range got {
		if g.out != ref[g.key] {
			bad++
		}
	}
	if bad != 0 {
		fmt.Printf("RESULT-MISMATCH %d\n", bad)
		os.Exit(3)
	}
	fmt.Println("c14race ok")
}
