// translate_args.go — the group `Args`: parseArgs of stack/context.go.
//
// Generated file: lean/PP/TranslatedArgs.lean (namespace PP.TrAr, its own Env); run-time support:
// lean/PP/Go/PreludeArgs.lean; agreement with the hand-written model PP/Model/Args.lean:
// lean/PP/Tie/TranslatedArgs.lean (tie_parseArgs, parseArgs_no_panic).
//
// Like group ScanSM this group has its OWN small statement/expression translator (type arT): it shares nothing with
// the other groups but lid / lowerFirst / trFail, needs no hook in translate.go, and is a WHITELIST: every construct
// not listed here fails the group by name (`translation_failed`).  A Go function is a non-recursive
// `def f (E : Env) args : Option τ` (`none` = run-time panic), calls of package functions go through `E`.
//
// What is translated and what each construct ASSUMES (sound or refuse):
//
//   - Values: bool = Bool; int = Int (never Nat: `depth--` reaches -1; every int literal is emitted with its type;
//     ASSUMES, like the other groups, that no int overflows: the ints here are a nesting depth and slice lengths);
//     uint64 = Nat (only values coming out of strconv.ParseUint and the two constants pointerFloor/pointerCeiling,
//     only compared); []byte = Bytes, immutable (there is no element assignment in the whitelist, so aliasing
//     between byte slices cannot be observed); stack.Arg / stack.Args = the records GArg / GArgs of PreludeArgs.lean,
//     FIELD FOR FIELD (nothing is assumed about which fields an aggregate uses).
//   - Control: every statement list is a term of type `Option (Step σ ρ)`: `.ret v` = return, `.cont st` = fell
//     through, st = the variables declared outside the construct and assigned inside it (in scope order).
//     if / else-if / else, tagless switch without fallthrough (case expressions must be total: they are evaluated one
//     after the other), `for i := 0; i < n; i++` (n a local the body does not assign, i not assigned, no
//     break/continue/goto/label: `forCount`, n.toNat iterations), `for _, s := range bytes.Split(x, commaSpace)`
//     (`forRange` over the model's `Bytes.splitOn`), return.  A loop body becomes its own definition `f_loopN`
//     taking every variable in scope that it does not assign as a parameter and the assigned ones as state.
//     A declaration that shadows a variable in scope is refused; every use of an identifier is checked to resolve to
//     the innermost Lean binding of that name (`use`).
//   - POINTERS.  Exactly one local has its address taken (`&args`, the ROOT, of type Args); it may be mentioned
//     nowhere else but in `return args, nil`.  `*Args` is a path into the root (`Ptr`), `*Arg` a path plus an index
//     (`PArg`), `[N]*Args` a list of N `Ptr`.  Pointer values only come from: nil, `&root`, `&q.Fields` (q a *Arg
//     local), `&p.Values[i]` (p a *Args local), `arr[i]`; they are only stored by `x := ptr` (new local) and
//     `arr[i] = ptr`; they are never compared, passed, returned or dereferenced as a whole (`*p`).  Reads and writes
//     through them: `len(p.Values)`, `p.Values = append(p.Values, x)` (same p on both sides; x an Arg composite
//     literal with scalar fields only, or a local declared by one — so no slice is ever shared between two Args),
//     `p.F = e` / `q.F = e` for a scalar field F.  The path reading is Go's semantics as long as no element a live
//     pointer points into is moved by a reallocating append: `ptrAppendValues` receives the depths of ALL pointer
//     variables in scope and yields `none` when one of them is deeper than p.  Hence `none` = "Go panics, or the
//     path semantics might not be Go's": acceptable only together with a no-`none` theorem (parseArgs_no_panic).
//     Since nothing but panics (`none`) can go wrong inside one statement and expressions have no effects, the
//     partial sub-expressions of a statement are hoisted in front of it in source order.
//   - `x[:hi]` on a []byte local: `sliceTo` (`none` when hi > len although Go allows up to cap: covered by the same
//     no-`none` theorem).
//   - `v, err := strconv.ParseUint(unsafeString(x), 0, 64)` directly followed by `if err != nil { …; return … }`, err
//     used nowhere else: `match parseUint0 x with | none => … | some v => …` (model function, trusted; unsafeString
//     is the identity).
//   - Errors are tags: `errors.New(c)` / `fmt.Errorf(c)` with a constant c WITHOUT operands, c one of the four
//     messages of arErrTag = the constructor of the model's ArgErr; nil = none.  The table as read from the source
//     is emitted as `errorSites` and pinned in the Tie file.
//   - Package-level names: the byte literals commaSpace / threeDots / underscore / inaccurateQuestionMark =
//     PP.Extracted.* (checked package-wide: never assigned, address never taken, never sliced/indexed on the left);
//     constants are evaluated by the type checker; trimCurlyBrackets is a function of Env (tied in group Func).
package main

import (
	"fmt"
	"go/ast"
	"go/constant"
	"go/token"
	"go/types"
	"strings"
)

var arErrTag = map[string]string{
	"nested aggregate-typed arguments exceeded depth limit": "ArgErr.depth",
	"failed to parse int":             "ArgErr.int",
	"unmatched closing curly bracket": "ArgErr.close",
	"unmatched opening curly bracket": "ArgErr.open_",
}

var arByteVars = map[string]bool{"commaSpace": true, "threeDots": true, "underscore": true, "inaccurateQuestionMark": true}
var arNatConsts = map[string]bool{"pointerFloor": true, "pointerCeiling": true}

type arKind int

const (
	arPlain arKind = iota // Bool, Int, Nat, Bytes, GArg
	arPtr                 // *Args
	arPArg                // *Arg
	arArr                 // [N]*Args
	arRoot                // the Args local whose address is taken
)

type arVar struct {
	name     string
	typ      string
	obj      types.Object
	kind     arKind
	freshLit bool // a GArg local declared by a scalar-only composite literal, not assigned since
}

type arT struct {
	p     *pkgInfo
	fn    string
	resT  string
	scope []*arVar
	root  types.Object
	pre   []string // hoisted partial sub-expressions of the statement being translated
	tmp   int
	nloop int
	defs  []string
	sites *[][2]string
	body  *ast.BlockStmt
}

func (t *arT) fail(n ast.Node, f string, a ...interface{}) {
	pos := t.p.fset.Position(n.Pos())
	panic(trFail{fmt.Sprintf("%s:%d: %s", pos.Filename[strings.LastIndex(pos.Filename, "/")+1:], pos.Line, fmt.Sprintf(f, a...))})
}

func (t *arT) fresh() string { t.tmp++; return fmt.Sprintf("t%d", t.tmp) }

func (t *arT) declare(n ast.Node, v *arVar) {
	for _, w := range t.scope {
		if w.name == v.name {
			t.fail(n, "declaration of %s shadows a variable in scope", v.name)
		}
	}
	t.scope = append(t.scope, v)
}

// use resolves an identifier to the variable in scope it denotes; the innermost Lean binding of that name must be
// that variable.
func (t *arT) use(id *ast.Ident) *arVar {
	obj := t.p.info.Uses[id]
	if obj == nil {
		obj = t.p.info.Defs[id]
	}
	for i := len(t.scope) - 1; i >= 0; i-- {
		if t.scope[i].name == lid(id.Name) {
			if t.scope[i].obj != obj {
				t.fail(id, "identifier %s does not resolve to the binding in scope", id.Name)
			}
			return t.scope[i]
		}
	}
	return nil
}

func (t *arT) typeOf(e ast.Expr) types.Type {
	tv, ok := t.p.info.Types[e]
	if !ok {
		t.fail(e, "untyped expression %s", types.ExprString(e))
	}
	return tv.Type
}

func arNamed(ty types.Type, name string) bool {
	n, ok := ty.(*types.Named)
	return ok && n.Obj().Name() == name && n.Obj().Pkg() != nil && n.Obj().Pkg().Name() == "stack"
}

func arIsBytes(ty types.Type) bool {
	s, ok := ty.Underlying().(*types.Slice)
	if !ok {
		return false
	}
	b, ok := s.Elem().(*types.Basic)
	return ok && b.Kind() == types.Uint8
}

func arBasic(ty types.Type, k types.BasicKind) bool {
	b, ok := ty.(*types.Basic)
	return ok && b.Kind() == k
}

// leanType: the Lean type and the kind of a Go type of the whitelist
func (t *arT) leanType(n ast.Node, ty types.Type) (string, arKind) {
	switch {
	case arBasic(ty, types.Int):
		return "Int", arPlain
	case arBasic(ty, types.Bool):
		return "Bool", arPlain
	case arBasic(ty, types.Uint64):
		return "Nat", arPlain
	case arIsBytes(ty):
		return "Bytes", arPlain
	case arNamed(ty, "Args"):
		return "GArgs", arPlain
	case arNamed(ty, "Arg"):
		return "GArg", arPlain
	}
	if p, ok := ty.(*types.Pointer); ok {
		if arNamed(p.Elem(), "Args") {
			return "Ptr", arPtr
		}
		if arNamed(p.Elem(), "Arg") {
			return "PArg", arPArg
		}
	}
	if a, ok := ty.(*types.Array); ok {
		if p, ok := a.Elem().(*types.Pointer); ok && arNamed(p.Elem(), "Args") {
			return "List Ptr", arArr
		}
	}
	t.fail(n, "type %s is not in the whitelist", ty)
	return "", arPlain
}

// ---------------------------------------------------------------- expressions

func (t *arT) hoist(term string) string {
	x := t.fresh()
	t.pre = append(t.pre, fmt.Sprintf("Option.bind (%s) fun %s =>", term, x))
	return x
}

func (t *arT) rootName(n ast.Node) string {
	for _, v := range t.scope {
		if v.kind == arRoot {
			return v.name
		}
	}
	t.fail(n, "a pointer is used where the root variable is not in scope")
	return ""
}

// ptrVar: e is a local of pointer kind k
func (t *arT) ptrVar(e ast.Expr, k arKind) *arVar {
	id, ok := e.(*ast.Ident)
	if !ok {
		t.fail(e, "expected a pointer variable, got %s", types.ExprString(e))
	}
	v := t.use(id)
	if v == nil || v.kind != k {
		t.fail(e, "%s is not a local pointer variable of the expected type", id.Name)
	}
	return v
}

// valuesOf: e is `p.Values` for a *Args local p
func (t *arT) valuesOf(e ast.Expr) *arVar {
	sel, ok := e.(*ast.SelectorExpr)
	if !ok || sel.Sel.Name != "Values" {
		t.fail(e, "expected p.Values, got %s", types.ExprString(e))
	}
	return t.ptrVar(sel.X, arPtr)
}

func (t *arT) intConst(e ast.Expr) (string, bool) {
	tv := t.p.info.Types[e]
	if tv.Value == nil || tv.Value.Kind() != constant.Int {
		return "", false
	}
	if b, ok := tv.Type.Underlying().(*types.Basic); !ok || (b.Kind() != types.Int && b.Kind() != types.UntypedInt) {
		return "", false
	}
	return fmt.Sprintf("(%s : Int)", tv.Value.ExactString()), true
}

// expr: a value of plain kind (Bool, Int, Nat, Bytes, GArg, GArgs)
func (t *arT) expr(e ast.Expr) string {
	if c, ok := t.intConst(e); ok {
		return c
	}
	switch x := e.(type) {
	case *ast.ParenExpr:
		return t.expr(x.X)
	case *ast.Ident:
		if x.Name == "true" || x.Name == "false" {
			if _, ok := t.p.info.Uses[x].(*types.Const); ok && t.p.info.Uses[x].Parent() == types.Universe {
				return x.Name
			}
		}
		if v := t.use(x); v != nil {
			if v.kind != arPlain {
				t.fail(e, "%s (a pointer, an array of pointers or the root) is used as a value", x.Name)
			}
			return v.name
		}
		obj := t.p.info.Uses[x]
		if obj != nil && obj.Parent() == t.p.pkg.Scope() {
			if _, ok := obj.(*types.Var); ok && arByteVars[x.Name] && arIsBytes(obj.Type()) {
				return "Extracted." + x.Name
			}
			if _, ok := obj.(*types.Const); ok && arNatConsts[x.Name] && arBasic(t.typeOf(e), types.Uint64) {
				return "Extracted." + x.Name
			}
		}
		t.fail(e, "identifier %s is not in the whitelist", x.Name)
	case *ast.BinaryExpr:
		lt, rt := t.typeOf(x.X), t.typeOf(x.Y)
		num := func(ty types.Type) bool {
			return arBasic(ty, types.Int) || arBasic(ty, types.Uint64) || arBasic(ty, types.UntypedInt)
		}
		switch x.Op {
		case token.LAND:
			l := t.expr(x.X)
			n := len(t.pre)
			r := t.expr(x.Y)
			if len(t.pre) != n {
				t.fail(x.Y, "the right operand of && is partial")
			}
			return fmt.Sprintf("(%s && %s)", l, r)
		case token.SUB, token.ADD:
			if !arBasic(t.typeOf(e), types.Int) {
				t.fail(e, "arithmetic on %s", t.typeOf(e))
			}
			op := map[token.Token]string{token.SUB: "-", token.ADD: "+"}[x.Op]
			return fmt.Sprintf("(%s %s %s)", t.expr(x.X), op, t.expr(x.Y))
		case token.LSS, token.GTR, token.LEQ, token.GEQ, token.EQL, token.NEQ:
			if !num(lt) || !num(rt) {
				t.fail(e, "comparison of %s and %s", lt, rt)
			}
			if (arBasic(lt, types.Uint64) || arBasic(rt, types.Uint64)) && !(arBasic(lt, types.Uint64) && arBasic(rt, types.Uint64)) {
				t.fail(e, "comparison of a uint64 with a constant")
			}
			op := map[token.Token]string{token.LSS: "<", token.GTR: ">", token.LEQ: "≤", token.GEQ: "≥", token.EQL: "=", token.NEQ: "≠"}[x.Op]
			return fmt.Sprintf("decide (%s %s %s)", t.expr(x.X), op, t.expr(x.Y))
		}
		t.fail(e, "operator %s", x.Op)
	case *ast.CallExpr:
		if id, ok := x.Fun.(*ast.Ident); ok && id.Name == "len" && t.p.info.Uses[id].Parent() == types.Universe && len(x.Args) == 1 {
			if arIsBytes(t.typeOf(x.Args[0])) {
				return fmt.Sprintf("ilen %s", t.atom(x.Args[0]))
			}
			p := t.valuesOf(x.Args[0])
			return t.hoist(fmt.Sprintf("ptrLenValues %s %s", t.rootName(e), p.name))
		}
		if sel, ok := x.Fun.(*ast.SelectorExpr); ok {
			if pk, ok := sel.X.(*ast.Ident); ok {
				if pn, ok := t.p.info.Uses[pk].(*types.PkgName); ok && pn.Imported().Path() == "bytes" && len(x.Args) == 2 {
					switch sel.Sel.Name {
					case "Equal":
						return fmt.Sprintf("(%s == %s)", t.atom(x.Args[0]), t.atom(x.Args[1]))
					case "HasSuffix":
						return fmt.Sprintf("Bytes.hasSuffix %s %s", t.atom(x.Args[0]), t.atom(x.Args[1]))
					}
				}
			}
		}
		t.fail(e, "call %s", types.ExprString(x.Fun))
	case *ast.SliceExpr:
		if x.Low != nil || x.Slice3 || x.High == nil || !arIsBytes(t.typeOf(x.X)) {
			t.fail(e, "slice expression %s", types.ExprString(e))
		}
		id, ok := x.X.(*ast.Ident)
		if !ok || t.use(id) == nil {
			t.fail(e, "slice of something that is not a local")
		}
		return t.hoist(fmt.Sprintf("sliceTo %s %s", t.expr(x.X), t.atom(x.High)))
	case *ast.CompositeLit:
		ty := t.typeOf(e)
		if arNamed(ty, "Args") && len(x.Elts) == 0 {
			return "({} : GArgs)"
		}
		if arNamed(ty, "Arg") {
			var fs []string
			for _, el := range x.Elts {
				kv, ok := el.(*ast.KeyValueExpr)
				if !ok {
					t.fail(el, "positional composite literal")
				}
				vt := t.typeOf(kv.Value)
				if !arBasic(vt, types.Bool) && !arBasic(vt, types.Uint64) && !arBasic(vt, types.UntypedBool) {
					t.fail(kv.Value, "field value of type %s in an Arg literal (scalar fields only)", vt)
				}
				fs = append(fs, fmt.Sprintf("%s := %s", lowerFirst(kv.Key.(*ast.Ident).Name), t.expr(kv.Value)))
			}
			if len(fs) == 0 {
				return "({} : GArg)"
			}
			return fmt.Sprintf("({ %s } : GArg)", strings.Join(fs, ", "))
		}
		t.fail(e, "composite literal of type %s", ty)
	}
	t.fail(e, "expression %s is not in the whitelist", types.ExprString(e))
	return ""
}

func (t *arT) atom(e ast.Expr) string {
	s := t.expr(e)
	if !strings.ContainsAny(s, " ") {
		return s
	}
	// already one parenthesised group?
	if strings.HasPrefix(s, "(") && strings.HasSuffix(s, ")") {
		d := 0
		for i, c := range s {
			if c == '(' {
				d++
			} else if c == ')' {
				d--
				if d == 0 && i != len(s)-1 {
					return "(" + s + ")"
				}
			}
		}
		return s
	}
	return "(" + s + ")"
}

// ptrExpr: a pointer value (term, kind)
func (t *arT) ptrExpr(e ast.Expr) (string, arKind) {
	switch x := e.(type) {
	case *ast.Ident:
		if x.Name == "nil" && t.p.info.Uses[x] == types.Universe.Lookup("nil") {
			return "(none : Ptr)", arPtr
		}
	case *ast.IndexExpr:
		id, ok := x.X.(*ast.Ident)
		if ok {
			if v := t.use(id); v != nil && v.kind == arArr {
				return t.hoist(fmt.Sprintf("arrGet %s %s", v.name, t.atom(x.Index))), arPtr
			}
		}
	case *ast.UnaryExpr:
		if x.Op != token.AND {
			break
		}
		switch y := x.X.(type) {
		case *ast.Ident:
			if v := t.use(y); v != nil && v.kind == arRoot {
				return "ptrRoot", arPtr
			}
		case *ast.SelectorExpr:
			if y.Sel.Name == "Fields" {
				q := t.ptrVar(y.X, arPArg)
				return t.hoist(fmt.Sprintf("pargAddrFields %s", q.name)), arPtr
			}
		case *ast.IndexExpr:
			p := t.valuesOf(y.X)
			i := t.atom(y.Index)
			return t.hoist(fmt.Sprintf("ptrAddrValuesIdx %s %s %s", t.rootName(e), p.name, i)), arPArg
		}
	}
	t.fail(e, "pointer expression %s is not in the whitelist", types.ExprString(e))
	return "", arPlain
}

// live: the depths of all pointers in scope
func (t *arT) live() string {
	var parts, single []string
	flush := func() {
		if len(single) > 0 {
			parts = append(parts, "["+strings.Join(single, ", ")+"]")
			single = nil
		}
	}
	for _, v := range t.scope {
		switch v.kind {
		case arArr:
			flush()
			parts = append(parts, v.name+".map Ptr.depth")
		case arPtr:
			single = append(single, "Ptr.depth "+v.name)
		case arPArg:
			single = append(single, "PArg.depth "+v.name)
		}
	}
	flush()
	if len(parts) == 0 {
		return "([] : List Nat)"
	}
	return "(" + strings.Join(parts, " ++ ") + ")"
}

func (t *arT) errTag(e ast.Expr) string {
	if id, ok := e.(*ast.Ident); ok && id.Name == "nil" && t.p.info.Uses[id] == types.Universe.Lookup("nil") {
		return "none"
	}
	c, ok := e.(*ast.CallExpr)
	if ok && len(c.Args) == 1 {
		if sel, ok := c.Fun.(*ast.SelectorExpr); ok {
			if pk, ok := sel.X.(*ast.Ident); ok {
				if pn, ok := t.p.info.Uses[pk].(*types.PkgName); ok &&
					((pn.Imported().Path() == "errors" && sel.Sel.Name == "New") || (pn.Imported().Path() == "fmt" && sel.Sel.Name == "Errorf")) {
					if tv := t.p.info.Types[c.Args[0]]; tv.Value != nil && tv.Value.Kind() == constant.String {
						msg := constant.StringVal(tv.Value)
						if strings.Contains(msg, "%") {
							t.fail(e, "error format with a verb")
						}
						tag, ok := arErrTag[msg]
						if !ok {
							t.fail(e, "unknown error message %q", msg)
						}
						*t.sites = append(*t.sites, [2]string{msg, tag})
						return "some " + tag
					}
				}
			}
		}
	}
	t.fail(e, "error expression %s is not in the whitelist", types.ExprString(e))
	return ""
}

// ---------------------------------------------------------------- statements

func arTuple(vs []*arVar) string {
	if len(vs) == 0 {
		return "()"
	}
	var ns []string
	for _, v := range vs {
		ns = append(ns, v.name)
	}
	if len(ns) == 1 {
		return ns[0]
	}
	return "(" + strings.Join(ns, ", ") + ")"
}

func arTupleT(vs []*arVar) string {
	if len(vs) == 0 {
		return "Unit"
	}
	var ns []string
	for _, v := range vs {
		ns = append(ns, v.typ)
	}
	return strings.Join(ns, " × ")
}

func arFun(vs []*arVar) string {
	if len(vs) == 0 {
		return "fun (_ : Unit) =>"
	}
	return "fun " + arTuple(vs) + " =>"
}

// assigned: the variables of the CURRENT scope assigned (directly or through a pointer: the root) in the nodes
func (t *arT) assigned(nodes ...ast.Node) []*arVar {
	set := map[*arVar]bool{}
	var lhs func(e ast.Expr)
	lhs = func(e ast.Expr) {
		switch x := e.(type) {
		case *ast.Ident:
			if x.Name == "_" {
				return
			}
			obj := t.p.info.Uses[x]
			if obj == nil {
				return // a definition
			}
			for _, v := range t.scope {
				if v.obj == obj {
					set[v] = true
				}
			}
		case *ast.IndexExpr:
			lhs(x.X)
		case *ast.SelectorExpr:
			// a write through a pointer: the root
			if _, ok := t.typeOf(x.X).(*types.Pointer); !ok {
				t.fail(e, "assignment to a field of a non-pointer")
			}
			for _, v := range t.scope {
				if v.kind == arRoot {
					set[v] = true
				}
			}
		default:
			t.fail(e, "assignment to %s", types.ExprString(e))
		}
	}
	for _, n := range nodes {
		ast.Inspect(n, func(m ast.Node) bool {
			switch x := m.(type) {
			case *ast.AssignStmt:
				for _, l := range x.Lhs {
					lhs(l)
				}
			case *ast.IncDecStmt:
				lhs(x.X)
			case *ast.RangeStmt:
				if x.Tok == token.ASSIGN {
					t.fail(x, "range with =")
				}
			}
			return true
		})
	}
	// the root first, then the others in scope order
	var out []*arVar
	for _, v := range t.scope {
		if set[v] && v.kind == arRoot {
			out = append(out, v)
		}
	}
	for _, v := range t.scope {
		if set[v] && v.kind != arRoot {
			out = append(out, v)
		}
	}
	return out
}

func arTerminates(b *ast.BlockStmt) bool {
	if len(b.List) == 0 {
		return false
	}
	_, ok := b.List[len(b.List)-1].(*ast.ReturnStmt)
	return ok
}

func arParen(s string) string {
	i := 0
	for i < len(s) && s[i] == ' ' {
		i++
	}
	return s[:i] + "(" + s[i:] + ")"
}

func (t *arT) flush(ind string, sb *strings.Builder) {
	for _, l := range t.pre {
		sb.WriteString(ind + l + "\n")
	}
	t.pre = nil
}

func (t *arT) block(list []ast.Stmt, W []*arVar, ind string) string {
	n := len(t.scope)
	s := t.stmts(list, W, ind)
	t.scope = t.scope[:n]
	return s
}

// stmts: the statement list as a term of type Option (Step σ ρ), σ = the tuple W handed over when it falls through
func (t *arT) stmts(list []ast.Stmt, W []*arVar, ind string) string {
	var sb strings.Builder
	if len(t.pre) != 0 {
		panic("pending hoisted expressions")
	}
	for i := 0; i < len(list); i++ {
		switch s := list[i].(type) {
		case *ast.DeclStmt:
			gd := s.Decl.(*ast.GenDecl)
			if gd.Tok == token.CONST {
				continue // constants are evaluated by the type checker where they are used
			}
			if gd.Tok != token.VAR {
				t.fail(s, "declaration")
			}
			for _, sp := range gd.Specs {
				vs := sp.(*ast.ValueSpec)
				if len(vs.Values) != 0 || len(vs.Names) != 1 {
					t.fail(s, "var with initialiser or several names")
				}
				obj := t.p.info.Defs[vs.Names[0]]
				ty, k := t.leanType(s, obj.Type())
				v := &arVar{name: lid(vs.Names[0].Name), typ: ty, obj: obj, kind: k}
				switch {
				case k == arArr:
					fmt.Fprintf(&sb, "%slet %s : List Ptr := List.replicate %d none\n", ind, v.name, obj.Type().(*types.Array).Len())
				case ty == "GArgs":
					if obj == t.root {
						v.kind = arRoot
					}
					fmt.Fprintf(&sb, "%slet %s : GArgs := {}\n", ind, v.name)
				default:
					t.fail(s, "var of type %s", obj.Type())
				}
				t.declare(s, v)
			}
		case *ast.IncDecStmt:
			id, ok := s.X.(*ast.Ident)
			if !ok || !arBasic(t.typeOf(s.X), types.Int) {
				t.fail(s, "++/-- on %s", types.ExprString(s.X))
			}
			v := t.use(id)
			if v == nil {
				t.fail(s, "++/-- on a non-local")
			}
			op := "+"
			if s.Tok == token.DEC {
				op = "-"
			}
			fmt.Fprintf(&sb, "%slet %s := %s %s (1 : Int)\n", ind, v.name, v.name, op)
		case *ast.AssignStmt:
			// v, err := strconv.ParseUint(unsafeString(x), 0, 64); if err != nil { …; return … }
			if x, vId, errId := t.parseUintIdiom(s); x != "" {
				if i+1 >= len(list) {
					t.fail(s, "ParseUint without the error test")
				}
				ifs, ok := list[i+1].(*ast.IfStmt)
				if !ok || ifs.Init != nil || ifs.Else != nil || !arTerminates(ifs.Body) || !t.isErrTest(ifs.Cond, errId) {
					t.fail(s, "ParseUint must be followed by `if err != nil { …; return … }`")
				}
				if t.countUses(t.p.info.Defs[errId]) != 1 {
					t.fail(s, "the error of ParseUint is used elsewhere")
				}
				fmt.Fprintf(&sb, "%smatch parseUint0 %s with\n%s| none =>\n%s\n%s| some %s =>\n", ind, x, ind, arParen(t.block(ifs.Body.List, W, ind+"  ")), ind, lid(vId.Name))
				t.declare(s, &arVar{name: lid(vId.Name), typ: "Nat", obj: t.p.info.Defs[vId]})
				i++
				continue
			}
			sb.WriteString(t.assign(s, ind))
		case *ast.ReturnStmt:
			if len(s.Results) != 2 {
				t.fail(s, "return with %d results", len(s.Results))
			}
			var r0 string
			if id, ok := s.Results[0].(*ast.Ident); ok && t.p.info.Uses[id] == t.root {
				v := t.use(id)
				if v == nil {
					t.fail(s, "the root is not in scope")
				}
				r0 = v.name // a copy of the root: nothing else is live after the return
			} else {
				r0 = t.expr(s.Results[0])
			}
			r1 := t.errTag(s.Results[1])
			t.flush(ind, &sb)
			fmt.Fprintf(&sb, "%ssome (.ret (%s, %s))", ind, r0, r1)
			if i != len(list)-1 {
				t.fail(s, "statements after return")
			}
			return sb.String()
		case *ast.IfStmt:
			if s.Init != nil {
				t.fail(s, "if with init")
			}
			c := t.expr(s.Cond)
			t.flush(ind, &sb)
			if s.Else == nil && arTerminates(s.Body) {
				fmt.Fprintf(&sb, "%sif %s then\n%s\n%selse\n", ind, c, arParen(t.block(s.Body.List, W, ind+"  ")), ind)
				continue
			}
			J := t.assigned(s)
			fmt.Fprintf(&sb, "%sseqS (if %s then\n%s\n%selse\n", ind, c, arParen(t.block(s.Body.List, J, ind+"  ")), ind)
			switch e := s.Else.(type) {
			case nil:
				fmt.Fprintf(&sb, "%s  some (.cont %s)", ind, arTuple(J))
			case *ast.BlockStmt:
				sb.WriteString(t.block(e.List, J, ind+"  "))
			default:
				t.fail(s, "else if")
			}
			fmt.Fprintf(&sb, ") %s\n", arFun(J))
		case *ast.SwitchStmt:
			if s.Init != nil || s.Tag != nil {
				t.fail(s, "switch with init or tag")
			}
			J := t.assigned(s)
			fmt.Fprintf(&sb, "%sseqS (", ind)
			hasDefault := false
			for k, cc := range s.Body.List {
				cl := cc.(*ast.CaseClause)
				for _, b := range cl.Body {
					if br, ok := b.(*ast.BranchStmt); ok {
						t.fail(br, "%s in a switch", br.Tok)
					}
				}
				if cl.List == nil {
					if k != len(s.Body.List)-1 {
						t.fail(cl, "default is not the last clause")
					}
					hasDefault = true
					fmt.Fprintf(&sb, "else\n%s", t.block(cl.Body, J, ind+"  "))
					continue
				}
				if len(cl.List) != 1 {
					t.fail(cl, "case with several expressions")
				}
				c := t.expr(cl.List[0])
				if len(t.pre) != 0 {
					t.fail(cl, "partial case expression")
				}
				if k > 0 {
					sb.WriteString("else ")
				}
				fmt.Fprintf(&sb, "if %s then\n%s\n%s", c, arParen(t.block(cl.Body, J, ind+"  ")), ind)
			}
			if !hasDefault {
				fmt.Fprintf(&sb, "else\n%s  some (.cont %s)", ind, arTuple(J))
			}
			fmt.Fprintf(&sb, ") %s\n", arFun(J))
		case *ast.ForStmt:
			sb.WriteString(t.forStmt(s, ind))
		case *ast.RangeStmt:
			sb.WriteString(t.rangeStmt(s, ind))
		default:
			t.fail(s, "statement %T is not in the whitelist", s)
		}
	}
	fmt.Fprintf(&sb, "%ssome (.cont %s)", ind, arTuple(W))
	return sb.String()
}

func (t *arT) countUses(obj types.Object) int {
	n := 0
	ast.Inspect(t.body, func(m ast.Node) bool {
		if id, ok := m.(*ast.Ident); ok && t.p.info.Uses[id] == obj {
			n++
		}
		return true
	})
	return n
}

func (t *arT) isErrTest(c ast.Expr, errId *ast.Ident) bool {
	b, ok := c.(*ast.BinaryExpr)
	if !ok || b.Op != token.NEQ {
		return false
	}
	l, ok1 := b.X.(*ast.Ident)
	r, ok2 := b.Y.(*ast.Ident)
	return ok1 && ok2 && t.p.info.Uses[l] == t.p.info.Defs[errId] && r.Name == "nil" && t.p.info.Uses[r] == types.Universe.Lookup("nil")
}

// parseUintIdiom: `v, err := strconv.ParseUint(unsafeString(x), 0, 64)` → (x, v, err)
func (t *arT) parseUintIdiom(s *ast.AssignStmt) (string, *ast.Ident, *ast.Ident) {
	if s.Tok != token.DEFINE || len(s.Lhs) != 2 || len(s.Rhs) != 1 {
		return "", nil, nil
	}
	c, ok := s.Rhs[0].(*ast.CallExpr)
	if !ok {
		return "", nil, nil
	}
	sel, ok := c.Fun.(*ast.SelectorExpr)
	if !ok || sel.Sel.Name != "ParseUint" {
		return "", nil, nil
	}
	pk, ok := sel.X.(*ast.Ident)
	if !ok {
		return "", nil, nil
	}
	if pn, ok := t.p.info.Uses[pk].(*types.PkgName); !ok || pn.Imported().Path() != "strconv" || len(c.Args) != 3 {
		return "", nil, nil
	}
	for k, want := range map[int]string{1: "0", 2: "64"} {
		tv := t.p.info.Types[c.Args[k]]
		if tv.Value == nil || tv.Value.ExactString() != want {
			t.fail(s, "ParseUint with base/bitSize other than 0, 64")
		}
	}
	us, ok := c.Args[0].(*ast.CallExpr)
	if !ok || len(us.Args) != 1 {
		t.fail(s, "ParseUint of something that is not unsafeString(x)")
	}
	uf, ok := us.Fun.(*ast.Ident)
	if !ok || uf.Name != "unsafeString" || t.p.info.Uses[uf].Parent() != t.p.pkg.Scope() || !arIsBytes(t.typeOf(us.Args[0])) {
		t.fail(s, "ParseUint of something that is not unsafeString(x)")
	}
	v, ok1 := s.Lhs[0].(*ast.Ident)
	e, ok2 := s.Lhs[1].(*ast.Ident)
	if !ok1 || !ok2 || t.p.info.Defs[v] == nil || t.p.info.Defs[e] == nil {
		t.fail(s, "ParseUint must define two new variables")
	}
	x := t.atom(us.Args[0])
	if len(t.pre) != 0 {
		t.fail(s, "partial operand of ParseUint")
	}
	return x, v, e
}

func (t *arT) assign(s *ast.AssignStmt, ind string) string {
	var sb strings.Builder
	if s.Tok == token.DEFINE {
		// x, y, z := trimCurlyBrackets(e)
		if c, ok := s.Rhs[0].(*ast.CallExpr); ok && len(s.Rhs) == 1 {
			if f, ok := c.Fun.(*ast.Ident); ok && f.Name == "trimCurlyBrackets" && t.p.info.Uses[f].Parent() == t.p.pkg.Scope() && len(s.Lhs) == 3 && len(c.Args) == 1 {
				arg := t.atom(c.Args[0])
				t.flush(ind, &sb)
				var vs []*arVar
				for _, l := range s.Lhs {
					id := l.(*ast.Ident)
					obj := t.p.info.Defs[id]
					if obj == nil {
						t.fail(s, ":= re-using a variable")
					}
					ty, k := t.leanType(s, obj.Type())
					v := &arVar{name: lid(id.Name), typ: ty, obj: obj, kind: k}
					t.declare(s, v)
					vs = append(vs, v)
				}
				fmt.Fprintf(&sb, "%sOption.bind (E.trimCurlyBrackets %s) fun %s =>\n", ind, arg, arTuple(vs))
				return sb.String()
			}
		}
		if len(s.Lhs) != 1 || len(s.Rhs) != 1 {
			t.fail(s, "tuple definition")
		}
		id := s.Lhs[0].(*ast.Ident)
		obj := t.p.info.Defs[id]
		if obj == nil {
			t.fail(s, ":= re-using a variable")
		}
		ty, k := t.leanType(s, obj.Type())
		v := &arVar{name: lid(id.Name), typ: ty, obj: obj, kind: k}
		if k == arPtr || k == arPArg {
			term, pk := t.ptrExpr(s.Rhs[0])
			if pk != k {
				t.fail(s, "pointer kinds differ")
			}
			// the value was hoisted under a temporary: bind the variable itself instead
			if n := len(t.pre); n > 0 && strings.HasSuffix(t.pre[n-1], "fun "+term+" =>") {
				t.pre[n-1] = strings.TrimSuffix(t.pre[n-1], "fun "+term+" =>") + "fun " + v.name + " =>"
				t.tmp--
				t.flush(ind, &sb)
			} else {
				t.flush(ind, &sb)
				fmt.Fprintf(&sb, "%slet %s : %s := %s\n", ind, v.name, ty, term)
			}
			t.declare(s, v)
			return sb.String()
		}
		if k != arPlain || ty == "GArgs" {
			t.fail(s, "definition of a variable of type %s", obj.Type())
		}
		e := t.expr(s.Rhs[0])
		if ty == "GArg" {
			if _, ok := s.Rhs[0].(*ast.CompositeLit); !ok {
				t.fail(s, "an Arg local must be declared by a composite literal")
			}
			v.freshLit = true
		}
		t.flush(ind, &sb)
		fmt.Fprintf(&sb, "%slet %s : %s := %s\n", ind, v.name, ty, e)
		t.declare(s, v)
		return sb.String()
	}
	if s.Tok != token.ASSIGN || len(s.Lhs) != 1 || len(s.Rhs) != 1 {
		t.fail(s, "assignment form")
	}
	switch l := s.Lhs[0].(type) {
	case *ast.Ident:
		v := t.use(l)
		if v == nil || v.kind != arPlain || v.typ == "GArg" || v.typ == "GArgs" {
			t.fail(s, "assignment to %s", l.Name)
		}
		e := t.expr(s.Rhs[0])
		// the value was hoisted under a temporary: bind the variable itself instead
		if n := len(t.pre); n > 0 && strings.HasSuffix(t.pre[n-1], "fun "+e+" =>") {
			t.pre[n-1] = strings.TrimSuffix(t.pre[n-1], "fun "+e+" =>") + "fun " + v.name + " =>"
			t.tmp--
			t.flush(ind, &sb)
			return sb.String()
		}
		t.flush(ind, &sb)
		fmt.Fprintf(&sb, "%slet %s : %s := %s\n", ind, v.name, v.typ, e)
	case *ast.IndexExpr:
		// arr[i] = ptr
		id, ok := l.X.(*ast.Ident)
		var v *arVar
		if ok {
			v = t.use(id)
		}
		if v == nil || v.kind != arArr {
			t.fail(s, "element assignment to something that is not the array of pointers")
		}
		idx := t.atom(l.Index)
		term, k := t.ptrExpr(s.Rhs[0])
		if k != arPtr {
			t.fail(s, "pointer kinds differ")
		}
		t.flush(ind, &sb)
		fmt.Fprintf(&sb, "%sOption.bind (arrSet %s %s %s) fun %s =>\n", ind, v.name, idx, term, v.name)
	case *ast.SelectorExpr:
		id, ok := l.X.(*ast.Ident)
		var v *arVar
		if ok {
			v = t.use(id)
		}
		if v == nil || (v.kind != arPtr && v.kind != arPArg) {
			t.fail(s, "field assignment through something that is not a local pointer")
		}
		root := t.rootName(s)
		f := l.Sel.Name
		if v.kind == arPtr && f == "Values" {
			// p.Values = append(p.Values, x)
			c, ok := s.Rhs[0].(*ast.CallExpr)
			if !ok || len(c.Args) != 2 || c.Ellipsis.IsValid() {
				t.fail(s, "Values may only be appended to")
			}
			if fid, ok := c.Fun.(*ast.Ident); !ok || fid.Name != "append" || t.p.info.Uses[fid].Parent() != types.Universe {
				t.fail(s, "Values may only be appended to")
			}
			if t.valuesOf(c.Args[0]) != v {
				t.fail(s, "append to another slice")
			}
			var x string
			switch a := c.Args[1].(type) {
			case *ast.CompositeLit:
				x = t.expr(a)
			case *ast.Ident:
				w := t.use(a)
				if w == nil || !w.freshLit {
					t.fail(s, "the appended value is not a literal nor a local declared by one")
				}
				x = w.name
			default:
				t.fail(s, "the appended value is not a literal nor a local declared by one")
			}
			t.flush(ind, &sb)
			fmt.Fprintf(&sb, "%sOption.bind (ptrAppendValues %s %s %s %s) fun %s =>\n", ind, root, t.live(), v.name, x, root)
			return sb.String()
		}
		ft := t.typeOf(l)
		if !arBasic(ft, types.Bool) && !arBasic(ft, types.Uint64) {
			t.fail(s, "assignment to field %s of type %s", f, ft)
		}
		e := t.expr(s.Rhs[0])
		t.flush(ind, &sb)
		op := "ptrModArgs"
		if v.kind == arPArg {
			op = "pargMod"
		}
		fmt.Fprintf(&sb, "%sOption.bind (%s %s %s fun x => { x with %s := %s }) fun %s =>\n", ind, op, root, v.name, lowerFirst(f), e, root)
	default:
		t.fail(s, "assignment to %s", types.ExprString(s.Lhs[0]))
	}
	return sb.String()
}

// loopDef emits the body of a loop as its own definition; ixBind / elBind are the binders of index and element
func (t *arT) loopDef(body *ast.BlockStmt, W []*arVar, binders string, extra []*arVar) string {
	t.nloop++
	name := fmt.Sprintf("%s_loop%d", t.fn, t.nloop)
	inW := map[*arVar]bool{}
	for _, v := range W {
		inW[v] = true
	}
	var caps, capNames []string
	for _, v := range t.scope {
		if !inW[v] {
			caps = append(caps, fmt.Sprintf("(%s : %s)", v.name, v.typ))
			capNames = append(capNames, v.name)
		}
	}
	n := len(t.scope)
	for _, v := range extra {
		t.declare(body, v)
	}
	var sb strings.Builder
	stT := arTupleT(W)
	fmt.Fprintf(&sb, "def %s (E : Env) %s %s (st : %s) : Option (Step (%s) (%s)) :=\n", name, strings.Join(caps, " "), binders, stT, stT, t.resT)
	if len(W) > 0 {
		fmt.Fprintf(&sb, "  let %s := st\n", arTuple(W))
	}
	sb.WriteString(t.block(body.List, W, "  "))
	sb.WriteString("\n")
	t.scope = t.scope[:n]
	t.defs = append(t.defs, sb.String())
	call := name + " E"
	if len(capNames) > 0 {
		call += " " + strings.Join(capNames, " ")
	}
	return call
}

func (t *arT) noJumps(body *ast.BlockStmt) {
	ast.Inspect(body, func(m ast.Node) bool {
		switch x := m.(type) {
		case *ast.BranchStmt:
			t.fail(x, "%s in a loop", x.Tok)
		case *ast.LabeledStmt:
			t.fail(x, "label")
		case *ast.FuncLit, *ast.GoStmt, *ast.DeferStmt:
			t.fail(x, "closure / go / defer")
		}
		return true
	})
}

// for i := 0; i < n; i++ { body }
func (t *arT) forStmt(s *ast.ForStmt, ind string) string {
	init, ok := s.Init.(*ast.AssignStmt)
	if !ok || init.Tok != token.DEFINE || len(init.Lhs) != 1 || len(init.Rhs) != 1 {
		t.fail(s, "loop form")
	}
	i := init.Lhs[0].(*ast.Ident)
	iobj := t.p.info.Defs[i]
	if c, ok := t.intConst(init.Rhs[0]); !ok || c != "(0 : Int)" || iobj == nil || !arBasic(iobj.Type(), types.Int) {
		t.fail(s, "loop form: the counter must start at 0")
	}
	cond, ok := s.Cond.(*ast.BinaryExpr)
	if !ok || cond.Op != token.LSS {
		t.fail(s, "loop form: condition")
	}
	ci, ok1 := cond.X.(*ast.Ident)
	cn, ok2 := cond.Y.(*ast.Ident)
	if !ok1 || !ok2 || t.p.info.Uses[ci] != iobj {
		t.fail(s, "loop form: condition")
	}
	bound := t.use(cn)
	if bound == nil || bound.typ != "Int" {
		t.fail(s, "loop form: the bound must be a local int")
	}
	post, ok := s.Post.(*ast.IncDecStmt)
	if !ok || post.Tok != token.INC {
		t.fail(s, "loop form: post statement")
	}
	if pi, ok := post.X.(*ast.Ident); !ok || t.p.info.Uses[pi] != iobj {
		t.fail(s, "loop form: post statement")
	}
	t.noJumps(s.Body)
	W := t.assigned(s.Body)
	for _, v := range W {
		if v == bound {
			t.fail(s, "the loop body assigns the bound")
		}
	}
	iv := &arVar{name: lid(i.Name), typ: "Int", obj: iobj}
	// the body must not assign the counter
	ast.Inspect(s.Body, func(m ast.Node) bool {
		switch x := m.(type) {
		case *ast.AssignStmt:
			for _, l := range x.Lhs {
				if id, ok := l.(*ast.Ident); ok && t.p.info.Uses[id] == iobj {
					t.fail(x, "the loop body assigns the counter")
				}
			}
		case *ast.IncDecStmt:
			if id, ok := x.X.(*ast.Ident); ok && t.p.info.Uses[id] == iobj {
				t.fail(x, "the loop body assigns the counter")
			}
		case *ast.UnaryExpr:
			if id, ok := x.X.(*ast.Ident); ok && x.Op == token.AND && t.p.info.Uses[id] == iobj {
				t.fail(x, "address of the counter")
			}
		}
		return true
	})
	call := t.loopDef(s.Body, W, fmt.Sprintf("(%s : Int)", iv.name), []*arVar{iv})
	return fmt.Sprintf("%sseqS (forCount (%s) %s %s) %s\n", ind, call, bound.name, arTuple(W), arFun(W))
}

// for _, x := range bytes.Split(y, commaSpace) { body }
func (t *arT) rangeStmt(s *ast.RangeStmt, ind string) string {
	if s.Tok != token.DEFINE || s.Value == nil {
		t.fail(s, "range form")
	}
	if k, ok := s.Key.(*ast.Ident); !ok || k.Name != "_" {
		t.fail(s, "range form: the key must be _")
	}
	x := s.Value.(*ast.Ident)
	c, ok := s.X.(*ast.CallExpr)
	if !ok || len(c.Args) != 2 {
		t.fail(s, "range over something that is not bytes.Split")
	}
	sel, ok := c.Fun.(*ast.SelectorExpr)
	if !ok || sel.Sel.Name != "Split" {
		t.fail(s, "range over something that is not bytes.Split")
	}
	if pk, ok := sel.X.(*ast.Ident); !ok {
		t.fail(s, "range over something that is not bytes.Split")
	} else if pn, ok := t.p.info.Uses[pk].(*types.PkgName); !ok || pn.Imported().Path() != "bytes" {
		t.fail(s, "range over something that is not bytes.Split")
	}
	if sep, ok := c.Args[1].(*ast.Ident); !ok || sep.Name != "commaSpace" {
		t.fail(s, "bytes.Split with a separator other than commaSpace")
	}
	xs := fmt.Sprintf("(Bytes.splitOn %s %s)", t.atom(c.Args[0]), t.atom(c.Args[1]))
	if len(t.pre) != 0 {
		t.fail(s, "partial range operand")
	}
	t.noJumps(s.Body)
	W := t.assigned(s.Body)
	xv := &arVar{name: lid(x.Name), typ: "Bytes", obj: t.p.info.Defs[x]}
	call := t.loopDef(s.Body, W, fmt.Sprintf("(_i : Nat) (%s : Bytes)", xv.name), []*arVar{xv})
	return fmt.Sprintf("%sseqS (forRange (%s) %s 0 %s) %s\n", ind, call, xs, arTuple(W), arFun(W))
}

// ---------------------------------------------------------------- driver

func (p *pkgInfo) translateArgs() string {
	ns := "PP.TrAr"
	var sb strings.Builder
	fmt.Fprintf(&sb, "/- GENERATED by /verif/extract (translate_args.go) from stack/context.go — do not edit. -/\nimport PP.Go.PreludeArgs\nset_option linter.unusedVariables false\nnamespace %s\nopen PP PP.Go PP.Go.Ar\n\n", ns)
	var failed []string
	var sites [][2]string
	// package-wide: the byte literals are never assigned, their address is never taken
	for _, file := range p.files {
		ast.Inspect(file, func(n ast.Node) bool {
			isByteVar := func(e ast.Expr) bool {
				for {
					switch y := e.(type) {
					case *ast.IndexExpr:
						e = y.X
						continue
					case *ast.SliceExpr:
						e = y.X
						continue
					case *ast.ParenExpr:
						e = y.X
						continue
					}
					break
				}
				id, ok := e.(*ast.Ident)
				if !ok || !arByteVars[id.Name] {
					return false
				}
				v, ok := p.info.Uses[id].(*types.Var)
				return ok && v.Parent() == p.pkg.Scope()
			}
			switch x := n.(type) {
			case *ast.AssignStmt:
				for _, l := range x.Lhs {
					if isByteVar(l) {
						failed = append(failed, fmt.Sprintf("a byte literal of the package is assigned (%s)", types.ExprString(l)))
					}
				}
			case *ast.IncDecStmt:
				if isByteVar(x.X) {
					failed = append(failed, "a byte literal of the package is assigned")
				}
			case *ast.UnaryExpr:
				if x.Op == token.AND && isByteVar(x.X) {
					failed = append(failed, "the address of a byte literal of the package is taken")
				}
			}
			return true
		})
	}
	fd := p.funcDecl("", "parseArgs")
	t := &arT{p: p, fn: "parseArgs", sites: &sites, body: fd.Body, resT: "GArgs × Option ArgErr"}
	var main string
	func() {
		defer func() {
			if r := recover(); r != nil {
				if tf, ok := r.(trFail); ok {
					failed = append(failed, "parseArgs: "+tf.msg)
					return
				}
				panic(r)
			}
		}()
		// signature: (line []byte) (Args, error)
		ps, rs := fd.Type.Params.List, fd.Type.Results.List
		if fd.Recv != nil || len(ps) != 1 || len(ps[0].Names) != 1 || !arIsBytes(t.typeOf(ps[0].Type)) ||
			len(rs) != 2 || len(rs[0].Names) != 0 || !arNamed(t.typeOf(rs[0].Type), "Args") || t.typeOf(rs[1].Type).String() != "error" {
			t.fail(fd, "signature of parseArgs")
		}
		pn := ps[0].Names[0]
		t.declare(fd, &arVar{name: lid(pn.Name), typ: "Bytes", obj: p.info.Defs[pn]})
		// the root: the one local whose address is taken; it is mentioned nowhere else but in `return root, nil`
		rootUses := 0
		ast.Inspect(fd.Body, func(n ast.Node) bool {
			switch x := n.(type) {
			case *ast.UnaryExpr:
				if x.Op != token.AND {
					break
				}
				if id, ok := x.X.(*ast.Ident); ok {
					obj := p.info.Uses[id]
					if t.root != nil && t.root != obj {
						t.fail(x, "the address of a second variable is taken")
					}
					if !arNamed(obj.Type(), "Args") {
						t.fail(x, "the address of a variable of type %s is taken", obj.Type())
					}
					t.root = obj
					rootUses++
				}
			case *ast.StarExpr:
				if tv, ok := p.info.Types[x]; !ok || !tv.IsType() {
					t.fail(x, "explicit dereference")
				}
			case *ast.FuncLit, *ast.GoStmt, *ast.DeferStmt:
				t.fail(x, "closure / go / defer")
			case *ast.ReturnStmt:
				if len(x.Results) == 2 {
					if id, ok := x.Results[0].(*ast.Ident); ok && t.root != nil && p.info.Uses[id] == t.root {
						rootUses++
					}
				}
			}
			return true
		})
		if t.root != nil && t.countUses(t.root) != rootUses {
			t.fail(fd, "the root variable is used other than as &root or in `return root, …`")
		}
		body := t.block(fd.Body.List, nil, "  ")
		main = fmt.Sprintf("def parseArgs (E : Env) (%s : Bytes) : Option (%s) :=\n  finish (\n%s)\n", lid(pn.Name), t.resT, body)
	}()
	if len(failed) > 0 {
		return fmt.Sprintf("/- GENERATED by /verif/extract (translate_args.go) — the translation FAILED. -/\nnamespace %s\ntheorem translation_failed : %q = \"\" := rfl\nend %s\n", ns, strings.Join(failed, "; "), ns)
	}
	sb.WriteString("structure Env where\n  trimCurlyBrackets : Bytes → Option (Int × Bytes × Int)\n  parseArgs : Bytes → Option (GArgs × Option ArgErr)\n\n")
	sb.WriteString("/-- error messages of the source (in source order) and the tags they were translated to -/\ndef errorSites : List (String × ArgErr) :=\n  [")
	for i, s := range sites {
		if i > 0 {
			sb.WriteString(",\n   ")
		}
		fmt.Fprintf(&sb, "(%q, %s)", s[0], s[1])
	}
	sb.WriteString("]\n\n")
	for _, d := range t.defs {
		sb.WriteString(d + "\n")
	}
	sb.WriteString(main)
	fmt.Fprintf(&sb, "\nend %s\n", ns)
	return sb.String()
}
