// translate_aug.go — the group `Aug`: augmentCall of stack/source.go (the decoding of the raw argument words into
// typed renderings, `Args.Processed`) and (*Args).walk of stack/stack.go, which it calls.
//
// Generated file: lean/PP/TranslatedAug.lean (namespace PP.TrAu, its own Env); run-time support:
// lean/PP/Go/PreludeAug.lean; agreement with the hand-written model PP/Model/Augment.lean:
// lean/PP/Tie/TranslatedAug.lean.
//
// Like group ScanSM this group has its OWN statement/expression translator (type auT): a whitelist that shares only the
// spelling helpers (lid, lowerFirst, leanBytes, atom, leanStr, trFail) with the other groups, so no hook in
// translate.go is needed and the other generated files cannot depend on it.  Everything that is not listed here makes
// the translation of the group fail by name (`translation_failed`).  A Go function is a non-recursive
// `def f (E : Env) args : Option τ` (`none` = a Go run-time panic); calls of the group's functions go through `E`.
//
// What is translated, and what each construct ASSUMES (sound or refuse):
//
//   - Values.  bool = Bool; string = Bytes; uint64 = Nat (no arithmetic on it is translated, only conversions,
//     comparisons with constants and formatting); int = Nat: the only int operations translated are `len`, literals,
//     comparisons, `i++` (ASSUMES no overflow: the counter is bounded by the number of iterations) and a subtraction
//     used DIRECTLY as an index (`xs[a-b]` is `goSub`: negative = index out of range = panic = `none`).
//     Slices are lists (nil ≡ empty; `make([]T, 0, n)` with n a `len(…)` is `[]`; `x = append(x, e)` only in this form;
//     `x[1:]`-style reslicing is `goSlice`).  Structs are the model's structures; `stack.Arg` is read through
//     `ofArg` (PP/Go/Prelude.lean).
//   - Pointers.  A pointer PARAMETER (`call *Call`, `a *Args`, `f *ast.FuncDecl`) is a value: ASSUMES the callers pass
//     non-nil pointers (augmentGoroutine passes `&g.Stack.Calls[i]` and tests `f != nil`; walk is called on addresses
//     of fields).  `x := &PATH` (and the parameter of a visitor, and an element of a `[]*Arg`) is a NON-NIL pointer,
//     translated as the VALUE of PATH at that moment (its index panics included).  This is sound because the
//     translator checks, for every function of the group, that (1) the only assignment that is not to a local
//     variable is `call.Args.Processed = append(call.Args.Processed, …)` on the pointer parameter, and (2) the field
//     `Processed` is read nowhere but in that very path — so nothing that can be read through any alias ever changes:
//     the `Arg`s are only read through, never written (this is the check the task asks for).  A `[]*Arg` local may only
//     be assigned `make`, `append(itself, non-nil pointer)` or a reslice of itself, so all its elements are non-nil.
//     A pointer a local closure RETURNS is nilable: `Option T`; `return nil` = `none`, `p == nil` = `p.isNone`, a field
//     read `p.F` is a match on `p` (`none` = nil dereference = panic).
//   - `call` is threaded and returned (`Option Call`): augmentCall returns nothing else.
//   - Local closures `x := func(params) T { … }` become definitions of their own `f_x (E) captured… params…` with
//     EXPLICIT STATE: the locals the body (or a closure it calls) reads are parameters, those it assigns are returned
//     with the result (`Option (mutated… × result)`), and a call rebinds them.  Checked: the closure variable is never
//     reassigned; it is only ever CALLED (never passed on, stored or compared); at every call each captured variable
//     is in scope as the same Go variable (types.Object identity); an expression that calls a closure does not read a
//     variable the closure assigns anywhere else (Go's order of evaluation between a call and a variable read is
//     unspecified); calls are evaluated left to right.  A function literal passed as an ARGUMENT (`fmtFn`) may not
//     assign any captured variable nor call a mutating closure: it is a Lean `fun v => … : Option T`.
//   - (*Args).walk(visitor) is DEFUNCTIONALISED: the translated `walk` returns the list of the `*Arg` the visitor is
//     called on, in call order (`visitor(arg)` appends `arg`; `P.walk(visitor)` with the same visitor appends what
//     `E.walk P` returns); it is checked to do nothing else (no assignment other than to its own locals).  A call
//     `P.walk(func(arg *Arg) { BODY })` is then `for arg in E.walk P { BODY }` (`forIdx`), the locals BODY assigns being
//     the loop state; a `return` in BODY is `continue`.  Sound because BODY cannot change what walk reads (check (1)).
//   - `for i := range xs` → `forIdx` (xs evaluated once); `for init; cond; post` → `whileFuel` on `E.fuel` (`none` when
//     the fuel runs out: a `some` is the result of the Go loop, PreludeAug `whileFuel_mono`); `continue` runs post.
//     `return` inside a loop is refused.  cond must be free of panics and calls.
//   - if / else-if / switch on a string variable with constant cases (no fallthrough): if no branch jumps, the
//     variables assigned inside are handed over as a tuple; if a branch can `continue`/`return` while another falls
//     through, the rest of the block becomes a join definition `f_joinN` taking every variable in scope; every
//     hand-over is checked against shadowing (the name must still resolve to the same Go variable).
//   - Names.  A Go local keeps its name in Lean (an assignment is a shadowing `let`); every use is checked to resolve to
//     the binding of the Go variable it denotes (`use`, `need`).  Refused: a local whose name starts with `_` or is one
//     of the Lean names the generated terms use (auReserved: it would capture them), a `for` loop variable that hides
//     a variable of the same name (its Lean binding outlives the loop).
//   - Conversions of a uint64: `uint32(v)` = `v % 2^32`; `int8/16/32/64(v)`, `int(v)` = `goTrunc bits v : Int` (two's
//     complement; `int` ASSUMED 64 bits wide); `int64(x)` of a signed value is `x` (sign extension).
//   - Floats are never computed with: `math.Float32frombits(u)`, `math.Float64frombits(v)`, `float64(x)` are followed
//     symbolically to the one place they may be used, `strconv.FormatFloat(f, 'g', -1, 32|64)`, which is the ORACLE
//     `E.formatFloat32 bits` / `E.formatFloat64 bits` (32 only of a float32 widened, 64 only of Float64frombits).
//   - strconv.FormatInt(x, 10) = goFormatInt, strconv.FormatUint(v, 10) = goFormatUint, fmt.Sprintf with a constant
//     format of literal text, `%s` (string operand) and `%x` (uint64 operand: goHex), strings.HasPrefix = hasPrefix,
//     strings.Join = join (argument order swapped), extractArgumentsType(f) = the ORACLE `E.extractArgumentsType`
//     (modelled separately: PP/Model/TypeNames.lean); `*ast.FuncDecl` is the model's `TN.GoFuncDecl`
//     (`f.Recv != nil` = `f.recv.isSome`, `f.Recv.List` = the content of `f.recv`, `none` = nil dereference).
package main

import (
	"fmt"
	"go/ast"
	"go/constant"
	"go/token"
	"go/types"
	"sort"
	"strings"
)

var trFuncsAug = [][2]string{{"Args", "walk"}, {"", "augmentCall"}}

const (
	auPlain   = iota // an ordinary value
	auNonNil         // a non-nil pointer, translated as the value it points to
	auNilable        // a nilable pointer: Option T
	auClosure        // a local closure (a definition)
	auFnParam        // a parameter of function type (a Lean function)
	auFloat          // a float followed symbolically (never emitted)
	auVisitor        // the visitor parameter of walk
)

type auVar struct {
	obj  types.Object
	name string // Lean name
	typ  string // Lean type
	kind int
	clo  *auClo
	fsym string // auFloat: "32" or "64"
	fbit string // auFloat: the Lean term of the bit pattern
	loc  bool   // declared by the init statement of a loop (not handed over after it)
}

type auClo struct {
	def    string
	caps   []*auVar // captured plain variables, in declaration order
	mut    []*auVar // those it assigns
	res    string   // Lean type of the result, "" if none
	resPtr bool     // the result is a nilable pointer
	nparam int
}

type auCtx struct {
	ret  func(n ast.Node, v string) string // `return v` (v == "" for a bare return); nil = refused here
	cont func(n ast.Node) string           // `continue`; nil = refused here
	end  func(n ast.Node) string           // falling off the end of the list
	typ  string                            // Lean type of the term being built (without Option)
	// the result of the enclosing function literal, for `return`
	resPtr bool
}

type auT struct {
	p      *pkgInfo
	fn     string
	fd     *ast.FuncDecl
	scope  []*auVar
	defs   []string
	tmp    int
	njoin  int
	nloop  int
	acc    *auVar // walk: the list of visited arguments
	callP  types.Object
	inLoop int
}

func (t *auT) fail(n ast.Node, f string, a ...interface{}) {
	pos := t.p.fset.Position(n.Pos())
	panic(trFail{fmt.Sprintf("%s:%d: %s", pos.Filename[strings.LastIndex(pos.Filename, "/")+1:], pos.Line, fmt.Sprintf(f, a...))})
}

func (t *auT) fresh() string { t.tmp++; return fmt.Sprintf("_t%d", t.tmp) }

func (t *auT) typeOf(e ast.Expr) types.Type {
	if tv, ok := t.p.info.Types[e]; ok && tv.Type != nil {
		return tv.Type
	}
	if id, ok := e.(*ast.Ident); ok {
		if o := t.p.info.ObjectOf(id); o != nil {
			return o.Type()
		}
	}
	t.fail(e, "no type information")
	return nil
}

func (t *auT) lookup(obj types.Object) *auVar {
	for i := len(t.scope) - 1; i >= 0; i-- {
		if t.scope[i].obj == obj {
			return t.scope[i]
		}
	}
	return nil
}

// visibleAs: the Lean name of v still denotes v (no later declaration of the same name hides it)
func (t *auT) visibleAs(v *auVar) bool {
	for i := len(t.scope) - 1; i >= 0; i-- {
		if t.scope[i].name == v.name && t.scope[i].kind != auFloat && t.scope[i].kind != auClosure {
			return t.scope[i] == v
		}
	}
	return false
}

func (t *auT) need(n ast.Node, vs []*auVar) {
	for _, v := range vs {
		if !t.visibleAs(v) {
			t.fail(n, "variable %s is not in scope (or shadowed) where its value is handed over", v.name)
		}
	}
}

func (t *auT) use(id *ast.Ident) *auVar {
	obj := t.p.info.ObjectOf(id)
	if obj == nil {
		t.fail(id, "unresolved identifier %s", id.Name)
	}
	v := t.lookup(obj)
	if v == nil {
		t.fail(id, "identifier %s is not a local of the translated function", id.Name)
	}
	if v.kind != auFloat && v.kind != auClosure && !t.visibleAs(v) {
		t.fail(id, "identifier %s is shadowed in the translation", id.Name)
	}
	return v
}

func (t *auT) declare(n ast.Node, v *auVar) {
	if strings.HasPrefix(v.name, "_") || auReserved[v.name] {
		t.fail(n, "local name %s collides with the names the translation uses", v.name)
	}
	t.scope = append(t.scope, v)
}

// auReserved: the Lean names the generated terms use; a Go local of that name would capture them
var auReserved = map[string]bool{"E": true, "join": true, "hasPrefix": true, "goSub": true, "goSlice": true, "goHex": true, "goU32": true,
	"goTrunc": true, "goFormatInt": true, "goFormatUint": true, "forIdx": true, "whileFuel": true, "ofArg": true, "some": true, "none": true,
	"decide": true, "true": true, "false": true, "Option": true, "List": true, "Nat": true, "Bool": true, "Bytes": true, "Arg": true, "Args": true,
	"Call": true, "TN": true, "UInt8": true, "Unit": true, "walk": true, "augmentCall": true}

func (t *auT) save() []*auVar     { return append([]*auVar{}, t.scope...) }
func (t *auT) restore(s []*auVar) { t.scope = s }

// plainVisible: the value variables in scope (innermost binding of each name), in declaration order
func (t *auT) plainVisible() []*auVar {
	var out []*auVar
	for _, v := range t.scope {
		if (v.kind == auPlain || v.kind == auNonNil || v.kind == auNilable || v.kind == auFnParam) && t.visibleAs(v) {
			out = append(out, v)
		}
	}
	return out
}

func auTuple(vs []*auVar) string {
	if len(vs) == 0 {
		return "()"
	}
	var s []string
	for _, v := range vs {
		s = append(s, v.name)
	}
	if len(s) == 1 {
		return s[0]
	}
	return "(" + strings.Join(s, ", ") + ")"
}

func auTupleType(vs []*auVar) string {
	if len(vs) == 0 {
		return "Unit"
	}
	var s []string
	for _, v := range vs {
		s = append(s, atom(v.typ))
	}
	if len(s) == 1 {
		return vs[0].typ
	}
	return "(" + strings.Join(s, " × ") + ")"
}

func auParams(vs []*auVar) string {
	var s []string
	for _, v := range vs {
		s = append(s, fmt.Sprintf("(%s : %s)", v.name, v.typ))
	}
	return strings.Join(s, " ")
}

func auArgs(vs []*auVar) string {
	var s []string
	for _, v := range vs {
		s = append(s, v.name)
	}
	return strings.Join(s, " ")
}

func auNamed(ty types.Type) string {
	if p, ok := ty.(*types.Pointer); ok {
		ty = p.Elem()
	}
	if n, ok := ty.(*types.Named); ok {
		if n.Obj().Pkg() != nil {
			return n.Obj().Pkg().Name() + "." + n.Obj().Name()
		}
		return n.Obj().Name()
	}
	return ""
}

// leanType of a Go type as a VALUE (pointers: the pointee)
func (t *auT) leanType(n ast.Node, ty types.Type) string {
	switch x := ty.(type) {
	case *types.Basic:
		switch x.Kind() {
		case types.Bool, types.UntypedBool:
			return "Bool"
		case types.String, types.UntypedString:
			return "Bytes"
		case types.Int, types.Uint64, types.UntypedInt:
			return "Nat"
		}
	case *types.Slice:
		return "List " + atom(t.leanType(n, x.Elem()))
	case *types.Pointer:
		return t.leanType(n, x.Elem())
	case *types.Named:
		switch auNamed(x) {
		case "stack.Arg":
			return "Arg"
		case "stack.Args":
			return "Args"
		case "stack.Call":
			return "Call"
		case "ast.FuncDecl":
			return "TN.GoFuncDecl"
		}
	case *types.Signature:
		if x.Params().Len() == 1 && x.Results().Len() == 1 {
			return t.leanType(n, x.Params().At(0).Type()) + " → Option " + atom(t.leanType(n, x.Results().At(0).Type()))
		}
	}
	t.fail(n, "type %s is not translated", ty)
	return ""
}

func auIsPtr(ty types.Type) bool { _, ok := ty.Underlying().(*types.Pointer); return ok }

func auBasic(ty types.Type) types.BasicKind {
	if b, ok := ty.Underlying().(*types.Basic); ok {
		return b.Kind()
	}
	return types.Invalid
}

func (t *auT) isNilIdent(e ast.Expr) bool {
	id, ok := unparen(e).(*ast.Ident)
	if !ok {
		return false
	}
	_, isNil := t.p.info.ObjectOf(id).(*types.Nil)
	return isNil
}

func (t *auT) pkgFunc(x *ast.CallExpr) string {
	sel, ok := x.Fun.(*ast.SelectorExpr)
	if !ok {
		return ""
	}
	id, ok := sel.X.(*ast.Ident)
	if !ok {
		return ""
	}
	if pn, ok := t.p.info.ObjectOf(id).(*types.PkgName); ok {
		return pn.Imported().Path() + "." + sel.Sel.Name
	}
	return ""
}

func (t *auT) constInt(e ast.Expr) (int64, bool) {
	if tv, ok := t.p.info.Types[e]; ok && tv.Value != nil && tv.Value.Kind() == constant.Int {
		return constant.Int64Val(tv.Value)
	}
	return 0, false
}

func (t *auT) constStr(e ast.Expr) (string, bool) {
	if tv, ok := t.p.info.Types[e]; ok && tv.Value != nil && tv.Value.Kind() == constant.String {
		return constant.StringVal(tv.Value), true
	}
	return "", false
}

// closureOf: e is an identifier bound to a local closure
func (t *auT) closureOf(e ast.Expr) *auVar {
	id, ok := e.(*ast.Ident)
	if !ok {
		return nil
	}
	obj := t.p.info.ObjectOf(id)
	if obj == nil {
		return nil
	}
	if v := t.lookup(obj); v != nil && v.kind == auClosure {
		return v
	}
	return nil
}

// ptrKind of a pointer-typed expression: auNonNil, auNilable, or -1 for the constant nil
func (t *auT) ptrKind(e ast.Expr) int {
	e = unparen(e)
	if t.isNilIdent(e) {
		return -1
	}
	switch x := e.(type) {
	case *ast.Ident:
		v := t.use(x)
		if v.kind == auNonNil || v.kind == auNilable {
			return v.kind
		}
	case *ast.SelectorExpr:
		if auNamed(t.typeOf(x.X)) == "ast.FuncDecl" && x.Sel.Name == "Recv" {
			return auNilable
		}
	case *ast.IndexExpr:
		return auNonNil // element of a slice of pointers: non-nil by the invariant on such slices
	case *ast.UnaryExpr:
		if x.Op == token.AND {
			return auNonNil
		}
	case *ast.CallExpr:
		if c := t.closureOf(x.Fun); c != nil && c.clo.resPtr {
			return auNilable
		}
	}
	t.fail(e, "pointer expression %s is not translated", types.ExprString(e))
	return 0
}

func auMatch(scrut, pat, body string) string {
	return "match " + scrut + " with\n| none => none\n| some " + pat + " =>\n" + body
}

func auParen(s string) string { return "(" + s + ")" }

// isPure: evaluating e cannot panic, calls no closure and no function parameter
func (t *auT) isPure(e ast.Expr) bool {
	pure := true
	ast.Inspect(e, func(n ast.Node) bool {
		switch x := n.(type) {
		case *ast.IndexExpr, *ast.SliceExpr, *ast.FuncLit, *ast.StarExpr, *ast.TypeAssertExpr:
			pure = false
		case *ast.SelectorExpr:
			if _, isPkg := t.p.info.ObjectOf(x.Sel).(*types.Func); isPkg {
				return true
			}
			if sel, ok := t.p.info.Selections[x]; ok {
				rt := sel.Recv()
				if auNamed(rt) == "ast.FieldList" {
					pure = false
				}
				if auIsPtr(rt) {
					if t.isNilIdent(x.X) || t.ptrKindQuiet(x.X) != auNonNil {
						pure = false
					}
				}
			}
		case *ast.CallExpr:
			if tv, ok := t.p.info.Types[x.Fun]; ok && tv.IsType() {
				return true
			}
			if id, ok := x.Fun.(*ast.Ident); ok {
				if _, ok := t.p.info.ObjectOf(id).(*types.Builtin); ok && id.Name == "len" {
					return true
				}
			}
			switch t.pkgFunc(x) {
			case "strings.HasPrefix", "strconv.FormatInt", "strconv.FormatUint", "strconv.FormatFloat", "math.Float32frombits", "math.Float64frombits", "fmt.Sprintf", "strings.Join":
				return true
			}
			pure = false
		}
		return pure
	})
	return pure
}

func (t *auT) ptrKindQuiet(e ast.Expr) (k int) {
	defer func() {
		if r := recover(); r != nil {
			if _, ok := r.(trFail); ok {
				k = auNilable
				return
			}
			panic(r)
		}
	}()
	return t.ptrKind(e)
}

func (t *auT) pureTerm(e ast.Expr) string {
	if !t.isPure(e) {
		t.fail(e, "expression %s must be free of panics and calls here", types.ExprString(e))
	}
	out := ""
	t.ev(e, func(v string) string { out = v; return "" })
	return out
}

// evFloat follows a float expression symbolically: ("32", bits) = float64(math.Float32frombits(bits)) or the float32
// itself, ("64", bits) = math.Float64frombits(bits)
func (t *auT) evFloat(e ast.Expr) (string, string) {
	e = unparen(e)
	switch x := e.(type) {
	case *ast.Ident:
		if v := t.use(x); v.kind == auFloat {
			return v.fsym, v.fbit
		}
	case *ast.CallExpr:
		if tv, ok := t.p.info.Types[x.Fun]; ok && tv.IsType() && len(x.Args) == 1 {
			if auBasic(tv.Type) == types.Float64 && auBasic(t.typeOf(x.Args[0])) == types.Float32 {
				return t.evFloat(x.Args[0]) // float32 → float64 is exact
			}
		}
		switch t.pkgFunc(x) {
		case "math.Float32frombits":
			return "32", t.pureTerm(x.Args[0])
		case "math.Float64frombits":
			return "64", t.pureTerm(x.Args[0])
		}
	}
	t.fail(e, "float expression %s is not translated", types.ExprString(e))
	return "", ""
}

func (t *auT) evAll(es []ast.Expr, k func([]string) string) string {
	var vs []string
	var rec func(i int) string
	rec = func(i int) string {
		if i == len(es) {
			return k(vs)
		}
		return t.ev(es[i], func(v string) string { vs = append(vs, v); return rec(i + 1) })
	}
	return rec(0)
}

// evDeref: the value e points to (e of pointer type) or e itself
func (t *auT) evDeref(e ast.Expr, k func(string) string) string {
	if !auIsPtr(t.typeOf(e)) {
		return t.ev(e, k)
	}
	switch t.ptrKind(e) {
	case auNonNil:
		return t.ev(e, k)
	case auNilable:
		return t.ev(e, func(p string) string {
			d := t.fresh()
			return auMatch(p, d, k(d))
		})
	}
	t.fail(e, "dereference of nil")
	return ""
}

// evIndex: an index expression; a subtraction directly in index position is goSub (negative = panic)
func (t *auT) evIndex(e ast.Expr, k func(string) string) string {
	e = unparen(e)
	if b, ok := e.(*ast.BinaryExpr); ok && b.Op == token.SUB {
		return t.evAll([]ast.Expr{b.X, b.Y}, func(v []string) string {
			j := t.fresh()
			return auMatch(fmt.Sprintf("goSub %s %s", atom(v[0]), atom(v[1])), j, k(j))
		})
	}
	if auBasic(t.typeOf(e)) != types.Int && auBasic(t.typeOf(e)) != types.UntypedInt {
		t.fail(e, "index of type %s", t.typeOf(e))
	}
	return t.ev(e, k)
}

func (t *auT) field(n ast.Node, recv types.Type, name string, allowProcessed bool) string {
	switch auNamed(recv) + "." + name {
	case "stack.Call.Args":
		return "args"
	case "stack.Args.Values":
		return "values"
	case "stack.Args.Elided":
		return "elided"
	case "stack.Args.Processed":
		if allowProcessed {
			return "processed"
		}
		t.fail(n, "the field Processed is read outside `call.Args.Processed = append(call.Args.Processed, …)`")
	case "stack.Arg.Name", "stack.Arg.Value", "stack.Arg.IsOffsetTooLarge", "stack.Arg.IsAggregate", "stack.Arg.Fields", "stack.Arg.IsPtr", "stack.Arg.IsInaccurate":
		return lowerFirst(name)
	}
	t.fail(n, "field %s of %s is not translated", name, recv)
	return ""
}

func (t *auT) evSelector(x *ast.SelectorExpr, allowProcessed bool, k func(string) string) string {
	rt := t.typeOf(x.X)
	switch auNamed(rt) {
	case "ast.FuncDecl":
		if x.Sel.Name != "Recv" {
			t.fail(x, "field %s of ast.FuncDecl is not translated", x.Sel.Name)
		}
		return t.evDeref(x.X, func(v string) string { return k(atom(v) + ".recv") })
	case "ast.FieldList":
		if x.Sel.Name != "List" {
			t.fail(x, "field %s of ast.FieldList is not translated", x.Sel.Name)
		}
		return t.ev(x.X, func(p string) string {
			d := t.fresh()
			return auMatch(p, d, k(d))
		})
	}
	f := t.field(x, rt, x.Sel.Name, allowProcessed)
	return t.evDeref(x.X, func(v string) string {
		if auNamed(rt) == "stack.Arg" {
			return k("(ofArg " + atom(v) + ")." + f)
		}
		return k(atom(v) + "." + f)
	})
}

// ev evaluates e, with its panics, and hands the Lean term of its value to k
func (t *auT) ev(e ast.Expr, k func(string) string) string {
	e = unparen(e)
	if _, isLit := e.(*ast.FuncLit); !isLit {
		if tv, ok := t.p.info.Types[e]; ok && tv.Value != nil {
			switch tv.Value.Kind() {
			case constant.String:
				return k(leanBytes(constant.StringVal(tv.Value)))
			case constant.Bool:
				return k(fmt.Sprint(constant.BoolVal(tv.Value)))
			case constant.Int:
				if v, ok := constant.Int64Val(tv.Value); ok && v >= 0 && (auBasic(tv.Type) == types.Int || auBasic(tv.Type) == types.UntypedInt || auBasic(tv.Type) == types.Uint64) {
					return k(fmt.Sprint(v))
				}
			}
			t.fail(e, "constant %s is not translated", types.ExprString(e))
		}
	}
	switch x := e.(type) {
	case *ast.Ident:
		v := t.use(x)
		switch v.kind {
		case auPlain, auNonNil, auNilable:
			return k(v.name)
		}
		t.fail(e, "%s is used as a value", x.Name)
	case *ast.SelectorExpr:
		return t.evSelector(x, false, k)
	case *ast.IndexExpr:
		if _, ok := t.typeOf(x.X).Underlying().(*types.Slice); !ok {
			t.fail(e, "index into %s", t.typeOf(x.X))
		}
		return t.ev(x.X, func(xs string) string {
			return t.evIndex(x.Index, func(j string) string {
				r := t.fresh()
				return auMatch(atom(xs)+"["+j+"]?", r, k(r))
			})
		})
	case *ast.SliceExpr:
		if _, ok := t.typeOf(x.X).Underlying().(*types.Slice); !ok || x.Slice3 {
			t.fail(e, "slice expression on %s", t.typeOf(x.X))
		}
		return t.ev(x.X, func(xs string) string {
			bound := func(b ast.Expr, def string, k func(string) string) string {
				if b == nil {
					return k(def)
				}
				return t.evIndex(b, k)
			}
			return bound(x.Low, "0", func(lo string) string {
				return bound(x.High, atom(xs)+".length", func(hi string) string {
					r := t.fresh()
					return auMatch(fmt.Sprintf("goSlice %s %s %s", atom(xs), atom(lo), atom(hi)), r, k(r))
				})
			})
		})
	case *ast.UnaryExpr:
		switch x.Op {
		case token.NOT:
			return t.ev(x.X, func(v string) string { return k("(!" + atom(v) + ")") })
		case token.AND:
			// a non-nil pointer is the value of its pointee now (nothing reachable through it is ever written: header)
			switch unparen(x.X).(type) {
			case *ast.SelectorExpr, *ast.IndexExpr:
				return t.ev(x.X, k)
			}
		}
	case *ast.BinaryExpr:
		return t.evBinary(x, k)
	case *ast.CallExpr:
		return t.evCall(x, k)
	}
	t.fail(e, "expression %s is not translated", types.ExprString(e))
	return ""
}

func (t *auT) evBinary(x *ast.BinaryExpr, k func(string) string) string {
	switch x.Op {
	case token.EQL, token.NEQ:
		for _, pr := range [][2]ast.Expr{{x.X, x.Y}, {x.Y, x.X}} {
			if t.isNilIdent(pr[0]) {
				if !auIsPtr(t.typeOf(pr[1])) || t.ptrKind(pr[1]) != auNilable {
					t.fail(x, "nil test of %s", types.ExprString(pr[1]))
				}
				m := ".isNone"
				if x.Op == token.NEQ {
					m = ".isSome"
				}
				return t.ev(pr[1], func(p string) string { return k(atom(p) + m) })
			}
		}
		switch auBasic(t.typeOf(x.X)) {
		case types.String, types.Int, types.Uint64, types.Bool:
		default:
			t.fail(x, "comparison of %s", t.typeOf(x.X))
		}
		op := " == "
		if x.Op == token.NEQ {
			op = " != "
		}
		return t.evAll([]ast.Expr{x.X, x.Y}, func(v []string) string { return k("(" + atom(v[0]) + op + atom(v[1]) + ")") })
	case token.LSS, token.LEQ, token.GTR, token.GEQ:
		if auBasic(t.typeOf(x.X)) != types.Int || auBasic(t.typeOf(x.Y)) != types.Int {
			t.fail(x, "ordering of %s", t.typeOf(x.X))
		}
		op := map[token.Token]string{token.LSS: "<", token.LEQ: "≤", token.GTR: ">", token.GEQ: "≥"}[x.Op]
		return t.evAll([]ast.Expr{x.X, x.Y}, func(v []string) string {
			return k("(decide (" + atom(v[0]) + " " + op + " " + atom(v[1]) + "))")
		})
	case token.LAND, token.LOR:
		op, short := " && ", "false"
		if x.Op == token.LOR {
			op, short = " || ", "true"
		}
		if t.isPure(x.Y) {
			return t.evAll([]ast.Expr{x.X, x.Y}, func(v []string) string { return k("(" + atom(v[0]) + op + atom(v[1]) + ")") })
		}
		// the right operand can panic: it is evaluated only when the left one does not decide
		return t.ev(x.X, func(a string) string {
			sc := t.save()
			rhs := t.ev(x.Y, func(b string) string { return "some " + atom(b) })
			t.restore(sc)
			r := t.fresh()
			cond := "if " + a + " then\n" + auParen(rhs) + "\nelse some " + short
			if x.Op == token.LOR {
				cond = "if " + a + " then some " + short + " else\n" + auParen(rhs)
			}
			return auMatch(auParen(cond), r, k(r))
		})
	}
	t.fail(x, "operator %s is not translated", x.Op)
	return ""
}

// signedBits: e is a conversion intN(v) / int(v) of a uint64; the width
func (t *auT) signedConv(e ast.Expr) (int, ast.Expr, bool) {
	c, ok := unparen(e).(*ast.CallExpr)
	if !ok || len(c.Args) != 1 {
		return 0, nil, false
	}
	tv, ok := t.p.info.Types[c.Fun]
	if !ok || !tv.IsType() || auBasic(t.typeOf(c.Args[0])) != types.Uint64 {
		return 0, nil, false
	}
	switch auBasic(tv.Type) {
	case types.Int8:
		return 8, c.Args[0], true
	case types.Int16:
		return 16, c.Args[0], true
	case types.Int32:
		return 32, c.Args[0], true
	case types.Int64, types.Int: // int is ASSUMED to be 64 bits wide
		return 64, c.Args[0], true
	}
	return 0, nil, false
}

// evSigned: an expression of a signed sized integer type, as a Lean Int
func (t *auT) evSigned(e ast.Expr, k func(string) string) string {
	if bits, a, ok := t.signedConv(e); ok {
		return t.ev(a, func(v string) string { return k(fmt.Sprintf("(goTrunc %d %s)", bits, atom(v))) })
	}
	if c, ok := unparen(e).(*ast.CallExpr); ok && len(c.Args) == 1 {
		if tv, ok := t.p.info.Types[c.Fun]; ok && tv.IsType() && auBasic(tv.Type) == types.Int64 {
			if _, _, ok := t.signedConv(c.Args[0]); ok {
				return t.evSigned(c.Args[0], k) // sign extension keeps the value
			}
		}
	}
	t.fail(e, "signed integer expression %s is not translated", types.ExprString(e))
	return ""
}

func (t *auT) evSprintf(x *ast.CallExpr, k func(string) string) string {
	f, ok := t.constStr(x.Args[0])
	if !ok {
		t.fail(x, "fmt.Sprintf with a format that is not a constant")
	}
	type piece struct {
		lit  string
		verb byte
	}
	var ps []piece
	lit := ""
	for i := 0; i < len(f); i++ {
		if f[i] != '%' {
			lit += string(f[i])
			continue
		}
		if i+1 >= len(f) || (f[i+1] != 's' && f[i+1] != 'x') {
			t.fail(x, "fmt.Sprintf: only %%s and %%x are translated (%q)", f)
		}
		if lit != "" {
			ps = append(ps, piece{lit: lit})
			lit = ""
		}
		ps = append(ps, piece{verb: f[i+1]})
		i++
	}
	if lit != "" {
		ps = append(ps, piece{lit: lit})
	}
	ops := x.Args[1:]
	nv := 0
	for _, p := range ps {
		if p.verb != 0 {
			if nv >= len(ops) {
				t.fail(x, "fmt.Sprintf: missing operand")
			}
			want := types.String
			if p.verb == 'x' {
				want = types.Uint64
			}
			if b, ok := t.typeOf(ops[nv]).(*types.Basic); !ok || b.Kind() != want {
				t.fail(x, "fmt.Sprintf: verb %%%c with an operand of type %s", p.verb, t.typeOf(ops[nv]))
			}
			nv++
		}
	}
	if nv != len(ops) || len(ps) == 0 {
		t.fail(x, "fmt.Sprintf: operand count")
	}
	return t.evAll(ops, func(vs []string) string {
		var parts []string
		i := 0
		for _, p := range ps {
			switch p.verb {
			case 0:
				parts = append(parts, leanBytes(p.lit))
			case 's':
				parts = append(parts, atom(vs[i]))
				i++
			case 'x':
				parts = append(parts, "goHex "+atom(vs[i]))
				i++
			}
		}
		return k("(" + strings.Join(parts, " ++ ") + ")")
	})
}

func (t *auT) evCall(x *ast.CallExpr, k func(string) string) string {
	if tv, ok := t.p.info.Types[x.Fun]; ok && tv.IsType() {
		if len(x.Args) == 1 && auBasic(tv.Type) == types.Uint32 && auBasic(t.typeOf(x.Args[0])) == types.Uint64 {
			return t.ev(x.Args[0], func(v string) string { return k("(goU32 " + atom(v) + ")") })
		}
		t.fail(x, "conversion %s is not translated here", types.ExprString(x))
	}
	if id, ok := x.Fun.(*ast.Ident); ok {
		if _, ok := t.p.info.ObjectOf(id).(*types.Builtin); ok {
			switch id.Name {
			case "len":
				return t.ev(x.Args[0], func(v string) string { return k(atom(v) + ".length") })
			case "make":
				if _, ok := t.typeOf(x).Underlying().(*types.Slice); ok && len(x.Args) == 3 {
					if n, ok := t.constInt(x.Args[1]); ok && n == 0 {
						if c, ok := unparen(x.Args[2]).(*ast.CallExpr); ok {
							if cid, ok := c.Fun.(*ast.Ident); ok && cid.Name == "len" {
								// the capacity is a length: not negative, no panic; evaluated for its own panics
								return t.ev(x.Args[2], func(string) string { return k("([] : " + t.leanType(x, t.typeOf(x)) + ")") })
							}
						}
					}
				}
			}
			t.fail(x, "builtin %s is not translated in this form", types.ExprString(x))
		}
		if c := t.closureOf(id); c != nil {
			return t.evClosureCall(x, c, k)
		}
		if v := t.lookup(t.p.info.ObjectOf(id)); v != nil && v.kind == auFnParam {
			return t.ev(x.Args[0], func(a string) string {
				r := t.fresh()
				return auMatch(v.name+" "+atom(a), r, k(r))
			})
		}
	}
	switch t.pkgFunc(x) {
	case "strings.HasPrefix":
		return t.evAll(x.Args, func(v []string) string { return k("(hasPrefix " + atom(v[0]) + " " + atom(v[1]) + ")") })
	case "strings.Join":
		return t.evAll(x.Args, func(v []string) string { return k("(join " + atom(v[1]) + " " + atom(v[0]) + ")") })
	case "strconv.FormatUint":
		if b, ok := t.constInt(x.Args[1]); !ok || b != 10 || auBasic(t.typeOf(x.Args[0])) != types.Uint64 {
			t.fail(x, "strconv.FormatUint: only base 10")
		}
		return t.ev(x.Args[0], func(v string) string { return k("(goFormatUint " + atom(v) + ")") })
	case "strconv.FormatInt":
		if b, ok := t.constInt(x.Args[1]); !ok || b != 10 {
			t.fail(x, "strconv.FormatInt: only base 10")
		}
		return t.evSigned(x.Args[0], func(v string) string { return k("(goFormatInt " + atom(v) + ")") })
	case "strconv.FormatFloat":
		fm, ok1 := t.p.info.Types[x.Args[1]]
		pr, ok2 := t.p.info.Types[x.Args[2]]
		bs, ok3 := t.constInt(x.Args[3])
		if !ok1 || !ok2 || !ok3 || fm.Value == nil || pr.Value == nil || fm.Value.ExactString() != "103" || pr.Value.ExactString() != "-1" {
			t.fail(x, "strconv.FormatFloat: only format 'g' with precision -1")
		}
		sym, bits := t.evFloat(x.Args[0])
		if fmt.Sprint(bs) != sym {
			t.fail(x, "strconv.FormatFloat: bit size %d of a value made from %s bits", bs, sym)
		}
		return k("(E.formatFloat" + sym + " " + atom(bits) + ")")
	case "fmt.Sprintf":
		return t.evSprintf(x, k)
	}
	t.fail(x, "call %s is not translated", types.ExprString(x))
	return ""
}

// funTerm: a function literal passed as an argument (one parameter, one result): a Lean function into Option
func (t *auT) funTerm(fl *ast.FuncLit) string {
	sig := t.typeOf(fl).(*types.Signature)
	if sig.Params().Len() != 1 || sig.Results().Len() != 1 || len(fl.Type.Params.List) != 1 || len(fl.Type.Params.List[0].Names) != 1 {
		t.fail(fl, "function literal argument must have one parameter and one result")
	}
	if m := t.assignedIn(fl.Body.List, fl.Body); len(m) != 0 {
		t.fail(fl, "a function literal passed as an argument assigns the captured variable %s", m[0].name)
	}
	sc := t.save()
	id := fl.Type.Params.List[0].Names[0]
	pv := &auVar{obj: t.p.info.ObjectOf(id), name: lid(id.Name), typ: t.leanType(fl, sig.Params().At(0).Type()), kind: auPlain}
	t.declare(fl, pv)
	save := t.inLoop
	t.inLoop = 0
	body := t.stmts(fl.Body.List, auCtx{
		ret: func(n ast.Node, v string) string {
			if v == "" {
				t.fail(n, "return without a value")
			}
			return "some " + atom(v)
		},
		end: func(n ast.Node) string { t.fail(n, "function literal can fall off its end"); return "" },
		typ: t.leanType(fl, sig.Results().At(0).Type()),
	})
	t.inLoop = save
	t.restore(sc)
	return fmt.Sprintf("(fun (%s : %s) =>\n%s)", pv.name, pv.typ, body)
}

func (t *auT) evClosureCall(x *ast.CallExpr, c *auVar, k func(string) string) string {
	if len(x.Args) != c.clo.nparam {
		t.fail(x, "closure call with %d arguments", len(x.Args))
	}
	var args []string
	var rec func(i int) string
	rec = func(i int) string {
		if i < len(x.Args) {
			if fl, ok := unparen(x.Args[i]).(*ast.FuncLit); ok {
				args = append(args, t.funTerm(fl))
				return rec(i + 1)
			}
			return t.ev(x.Args[i], func(v string) string { args = append(args, atom(v)); return rec(i + 1) })
		}
		t.need(x, c.clo.caps)
		call := c.clo.def + " E"
		for _, v := range c.clo.caps {
			call += " " + v.name
		}
		for _, a := range args {
			call += " " + a
		}
		r := t.fresh()
		pat := r
		switch {
		case len(c.clo.mut) != 0 && c.clo.res != "":
			pat = "(" + auTuple(c.clo.mut) + ", " + r + ")"
		case len(c.clo.mut) != 0:
			pat = auTuple(c.clo.mut)
			if len(c.clo.mut) > 1 {
				pat = auTuple(c.clo.mut)
			}
		case c.clo.res == "":
			pat = "_"
		}
		return auMatch(call, pat, k(r))
	}
	return rec(0)
}

// rootObj: the variable an assignable expression is rooted at
func (t *auT) rootObj(e ast.Expr) types.Object {
	for {
		switch x := unparen(e).(type) {
		case *ast.Ident:
			return t.p.info.ObjectOf(x)
		case *ast.SelectorExpr:
			e = x.X
		case *ast.IndexExpr:
			e = x.X
		case *ast.StarExpr:
			e = x.X
		default:
			return nil
		}
	}
}

// assignedIn: the variables of the current scope that the statements assign (directly, in a function literal, or
// through a closure they call), in declaration order.  An over-approximation is harmless (more is handed over).
func (t *auT) assignedIn(list []ast.Stmt, where ast.Node) []*auVar {
	set := map[*auVar]bool{}
	add := func(o types.Object) {
		if o == nil {
			return
		}
		if v := t.lookup(o); v != nil && (v.kind == auPlain || v.kind == auNonNil || v.kind == auNilable) {
			set[v] = true
		}
	}
	for _, s := range list {
		ast.Inspect(s, func(n ast.Node) bool {
			switch x := n.(type) {
			case *ast.AssignStmt:
				for _, l := range x.Lhs {
					if id, ok := l.(*ast.Ident); ok && x.Tok == token.DEFINE && t.p.info.Defs[id] != nil {
						continue
					}
					add(t.rootObj(l))
				}
			case *ast.IncDecStmt:
				add(t.rootObj(x.X))
			case *ast.RangeStmt:
				if x.Tok == token.ASSIGN {
					t.fail(x, "range with assignment to existing variables")
				}
			case *ast.CallExpr:
				if c := t.closureOf(x.Fun); c != nil {
					for _, m := range c.clo.mut {
						set[m] = true
					}
				}
				if id, ok := x.Fun.(*ast.Ident); ok && t.acc != nil {
					if v := t.lookup(t.p.info.ObjectOf(id)); v != nil && v.kind == auVisitor {
						set[t.acc] = true
					}
				}
				if sel, ok := x.Fun.(*ast.SelectorExpr); ok && sel.Sel.Name == "walk" && t.acc != nil {
					set[t.acc] = true
				}
			}
			return true
		})
	}
	var out []*auVar
	for _, v := range t.scope {
		if set[v] {
			out = append(out, v)
			delete(set, v)
		}
	}
	return out
}

// mutCalls: the variables assigned by the closures that n calls (outside nested function literals)
func (t *auT) mutCalls(n ast.Node) []*auVar {
	var out []*auVar
	ast.Inspect(n, func(m ast.Node) bool {
		switch x := m.(type) {
		case *ast.FuncLit:
			return false
		case *ast.CallExpr:
			if c := t.closureOf(x.Fun); c != nil {
				out = append(out, c.clo.mut...)
			}
		}
		return true
	})
	return out
}

// checkOrder: an expression that calls a closure does not read, outside the closure, a variable the closure assigns
func (t *auT) checkOrder(n ast.Node) {
	if n == nil {
		return
	}
	muts := t.mutCalls(n)
	if len(muts) == 0 {
		return
	}
	ast.Inspect(n, func(m ast.Node) bool {
		switch x := m.(type) {
		case *ast.FuncLit:
			return false
		case *ast.BinaryExpr:
			if (x.Op == token.LAND || x.Op == token.LOR) && len(t.mutCalls(x.Y)) != 0 {
				t.fail(x, "a closure that assigns captured variables is called under && / ||")
			}
		case *ast.Ident:
			if o := t.p.info.ObjectOf(x); o != nil {
				for _, v := range muts {
					if v.obj == o {
						t.fail(x, "%s is read in an expression that also calls a closure assigning it (order of evaluation unspecified)", x.Name)
					}
				}
			}
		}
		return true
	})
}

func (t *auT) hasJump(list []ast.Stmt) bool {
	j := false
	for _, s := range list {
		ast.Inspect(s, func(n ast.Node) bool {
			switch n.(type) {
			case *ast.FuncLit:
				return false
			case *ast.ReturnStmt, *ast.BranchStmt:
				j = true
			}
			return !j
		})
	}
	return j
}

func (t *auT) terminates(list []ast.Stmt) bool {
	if len(list) == 0 {
		return false
	}
	switch x := list[len(list)-1].(type) {
	case *ast.ReturnStmt:
		return true
	case *ast.BranchStmt:
		return x.Tok == token.CONTINUE && x.Label == nil
	case *ast.IfStmt:
		if x.Else == nil {
			return false
		}
		return t.terminates(x.Body.List) && t.terminates(auElse(x))
	}
	return false
}

func auElse(s *ast.IfStmt) []ast.Stmt {
	switch e := s.Else.(type) {
	case nil:
		return nil
	case *ast.BlockStmt:
		return e.List
	default:
		return []ast.Stmt{e}
	}
}

func (t *auT) zero(n ast.Node, ty types.Type) string {
	switch x := ty.Underlying().(type) {
	case *types.Basic:
		switch x.Kind() {
		case types.String:
			return "([] : Bytes)"
		case types.Bool:
			return "false"
		case types.Int, types.Uint64:
			return "0"
		}
	case *types.Slice:
		return "([] : " + t.leanType(n, ty) + ")"
	}
	t.fail(n, "zero value of %s is not translated", ty)
	return ""
}

// block: a nested statement list with its own scope
func (t *auT) block(list []ast.Stmt, ctx auCtx) string {
	sc := t.save()
	s := t.stmts(list, ctx)
	t.restore(sc)
	return s
}

// tupleCtx: inside a branch that cannot jump, falling off the end hands over vs
func (t *auT) tupleCtx(vs []*auVar) auCtx {
	return auCtx{end: func(n ast.Node) string { t.need(n, vs); return "some " + auTuple(vs) }, typ: auTupleType(vs)}
}

// joinOrTuple translates `branches; rest`: mk builds the branching term from the context its branches end in
func (t *auT) branching(n ast.Node, branches [][]ast.Stmt, rest []ast.Stmt, ctx auCtx, mk func(auCtx) string) string {
	if len(rest) == 0 {
		return mk(ctx)
	}
	var all []ast.Stmt
	for _, b := range branches {
		all = append(all, b...)
	}
	if !t.hasJump(all) {
		vs := t.assignedIn(all, n)
		t.need(n, vs)
		br := mk(t.tupleCtx(vs))
		return auMatch(auParen(br), auTuple(vs), t.stmts(rest, ctx))
	}
	// some branch jumps, another falls through: the rest of the block becomes a join definition
	vs := t.plainVisible()
	t.njoin++
	name := fmt.Sprintf("%s_join%d", t.fn, t.njoin)
	sc := t.save()
	body := t.stmts(rest, ctx)
	t.restore(sc)
	t.defs = append(t.defs, fmt.Sprintf("def %s (E : Env) %s : Option %s :=\n%s\n", name, auParams(vs), atom(ctx.typ), smIndent(body)))
	jc := ctx
	jc.end = func(m ast.Node) string { t.need(m, vs); return name + " E " + auArgs(vs) }
	return mk(jc)
}

func (t *auT) stmts(list []ast.Stmt, ctx auCtx) string {
	if len(list) == 0 {
		if ctx.end == nil {
			t.fail(t.fd, "statement list can fall off its end here")
		}
		return ctx.end(t.fd)
	}
	s, rest := list[0], list[1:]
	switch x := s.(type) {
	case *ast.ReturnStmt:
		if ctx.ret == nil {
			t.fail(x, "return is not translated here (inside a loop or a branch that must fall through)")
		}
		if len(rest) != 0 {
			t.fail(x, "unreachable code after return")
		}
		t.checkOrder(x)
		switch len(x.Results) {
		case 0:
			return ctx.ret(x, "")
		case 1:
			if ctx.resPtr {
				switch t.ptrKind(x.Results[0]) {
				case -1:
					return ctx.ret(x, "none")
				case auNonNil:
					return t.ev(x.Results[0], func(v string) string { return ctx.ret(x, "(some "+atom(v)+")") })
				}
			}
			return t.ev(x.Results[0], func(v string) string { return ctx.ret(x, v) })
		}
		t.fail(x, "return of several values")
	case *ast.BranchStmt:
		if x.Tok != token.CONTINUE || x.Label != nil || ctx.cont == nil {
			t.fail(x, "%s is not translated here", x.Tok)
		}
		if len(rest) != 0 {
			t.fail(x, "unreachable code after continue")
		}
		return ctx.cont(x)
	case *ast.DeclStmt:
		gd, ok := x.Decl.(*ast.GenDecl)
		if !ok || gd.Tok != token.VAR || len(gd.Specs) != 1 {
			t.fail(x, "declaration is not translated")
		}
		vs := gd.Specs[0].(*ast.ValueSpec)
		if len(vs.Values) != 0 || len(vs.Names) != 1 {
			t.fail(x, "var declaration with values or several names")
		}
		id := vs.Names[0]
		ty := t.typeOf(vs.Type)
		v := &auVar{obj: t.p.info.ObjectOf(id), name: lid(id.Name), typ: t.leanType(x, ty), kind: auPlain}
		z := t.zero(x, ty)
		t.declare(x, v)
		return fmt.Sprintf("let %s : %s := %s\n%s", v.name, v.typ, z, t.stmts(rest, ctx))
	case *ast.AssignStmt:
		t.checkOrder(x)
		return t.assign(x, rest, ctx)
	case *ast.ExprStmt:
		t.checkOrder(x)
		return t.exprStmt(x, rest, ctx)
	case *ast.IfStmt:
		if x.Init != nil {
			t.fail(x, "if with an init statement")
		}
		t.checkOrder(x.Cond)
		els := auElse(x)
		if t.terminates(x.Body.List) && x.Else == nil {
			return t.ev(x.Cond, func(c string) string {
				return "if " + c + " then\n" + auParen(t.block(x.Body.List, ctx)) + "\nelse\n" + auParen(t.stmts(rest, ctx))
			})
		}
		if len(rest) != 0 && t.terminates(x.Body.List) && t.terminates(els) {
			t.fail(rest[0], "unreachable code")
		}
		return t.ev(x.Cond, func(c string) string {
			return t.branching(x, [][]ast.Stmt{x.Body.List, els}, rest, ctx, func(bc auCtx) string {
				return "if " + c + " then\n" + auParen(t.block(x.Body.List, bc)) + "\nelse\n" + auParen(t.block(els, bc))
			})
		})
	case *ast.SwitchStmt:
		return t.switchStmt(x, rest, ctx)
	case *ast.ForStmt:
		return t.forStmt(x, rest, ctx)
	case *ast.RangeStmt:
		return t.rangeStmt(x, rest, ctx)
	}
	t.fail(s, "statement is not translated")
	return ""
}

func (t *auT) switchStmt(x *ast.SwitchStmt, rest []ast.Stmt, ctx auCtx) string {
	tag, ok := unparen(x.Tag).(*ast.Ident)
	if x.Init != nil || !ok || auBasic(t.typeOf(tag)) != types.String {
		t.fail(x, "switch must be on a string variable")
	}
	tv := t.use(tag)
	if tv.kind != auPlain {
		t.fail(x, "switch tag")
	}
	var branches [][]ast.Stmt
	var conds []string
	var def []ast.Stmt
	hasDef := false
	for _, c := range x.Body.List {
		cc := c.(*ast.CaseClause)
		for _, s := range cc.Body {
			if b, ok := s.(*ast.BranchStmt); ok && (b.Tok == token.FALLTHROUGH || b.Tok == token.BREAK) {
				t.fail(b, "%s in a switch", b.Tok)
			}
		}
		if cc.List == nil {
			hasDef, def = true, cc.Body
			continue
		}
		var cs []string
		for _, e := range cc.List {
			v, ok := t.constStr(e)
			if !ok {
				t.fail(e, "case must be a string constant")
			}
			cs = append(cs, "("+tv.name+" == "+leanBytes(v)+")")
		}
		conds = append(conds, strings.Join(cs, " || "))
		branches = append(branches, cc.Body)
	}
	_ = hasDef
	all := append(append([][]ast.Stmt{}, branches...), def)
	return t.branching(x, all, rest, ctx, func(bc auCtx) string {
		// constant cases are compared in source order; the default clause is taken when none matches, wherever it stands
		var sb strings.Builder
		for i, b := range branches {
			t.need(x, []*auVar{tv})
			sb.WriteString("if " + conds[i] + " then\n" + auParen(t.block(b, bc)) + "\nelse ")
		}
		sb.WriteString("\n" + auParen(t.block(def, bc)))
		return sb.String()
	})
}

func (t *auT) assign(x *ast.AssignStmt, rest []ast.Stmt, ctx auCtx) string {
	if x.Tok != token.DEFINE && x.Tok != token.ASSIGN {
		t.fail(x, "assignment operator %s", x.Tok)
	}
	// types, extra := extractArgumentsType(f): the oracle
	if len(x.Lhs) == 2 && len(x.Rhs) == 1 && x.Tok == token.DEFINE {
		if c, ok := x.Rhs[0].(*ast.CallExpr); ok {
			if id, ok := c.Fun.(*ast.Ident); ok && id.Name == "extractArgumentsType" && len(c.Args) == 1 {
				if fn, ok := t.p.info.ObjectOf(id).(*types.Func); ok && fn.Pkg() == t.p.pkg && fn.Parent() == t.p.pkg.Scope() {
					a, aok := x.Lhs[0].(*ast.Ident)
					b, bok := x.Lhs[1].(*ast.Ident)
					if !aok || !bok || t.p.info.Defs[a] == nil || t.p.info.Defs[b] == nil || a.Name == "_" || b.Name == "_" {
						t.fail(x, "extractArgumentsType must define two new variables")
					}
					return t.evDeref(c.Args[0], func(f string) string {
						va := &auVar{obj: t.p.info.Defs[a], name: lid(a.Name), typ: "List Bytes", kind: auPlain}
						vb := &auVar{obj: t.p.info.Defs[b], name: lid(b.Name), typ: "Bool", kind: auPlain}
						t.declare(x, va)
						t.declare(x, vb)
						return fmt.Sprintf("let %s : List Bytes := (E.extractArgumentsType %s).1\nlet %s : Bool := (E.extractArgumentsType %s).2\n%s", va.name, atom(f), vb.name, atom(f), t.stmts(rest, ctx))
					})
				}
			}
		}
	}
	if len(x.Lhs) != 1 || len(x.Rhs) != 1 {
		t.fail(x, "assignment of several values")
	}
	lhs, rhs := unparen(x.Lhs[0]), unparen(x.Rhs[0])
	id, isId := lhs.(*ast.Ident)
	if !isId {
		// call.Args.Processed = append(call.Args.Processed, e): the only write that is not to a local
		s1, ok1 := lhs.(*ast.SelectorExpr)
		if ok1 && x.Tok == token.ASSIGN && s1.Sel.Name == "Processed" {
			if s2, ok := unparen(s1.X).(*ast.SelectorExpr); ok && s2.Sel.Name == "Args" {
				if root, ok := unparen(s2.X).(*ast.Ident); ok && t.callP != nil && t.p.info.ObjectOf(root) == t.callP {
					if c, ok := rhs.(*ast.CallExpr); ok && len(c.Args) == 2 && !c.Ellipsis.IsValid() {
						if fid, ok := c.Fun.(*ast.Ident); ok && fid.Name == "append" && types.ExprString(c.Args[0]) == types.ExprString(lhs) {
							if _, ok := t.p.info.ObjectOf(fid).(*types.Builtin); ok && t.rootObj(c.Args[0]) == t.callP {
								cv := t.use(root)
								return t.ev(c.Args[1], func(v string) string {
									t.need(x, []*auVar{cv})
									n := cv.name
									return fmt.Sprintf("let %s : Call := { %s with args := { %s.args with processed := %s.args.processed ++ [%s] } }\n%s", n, n, n, n, v, t.stmts(rest, ctx))
								})
							}
						}
					}
				}
			}
		}
		t.fail(x, "assignment to %s: only locals and `call.Args.Processed = append(call.Args.Processed, …)` are written", types.ExprString(lhs))
	}
	if id.Name == "_" {
		t.fail(x, "assignment to _")
	}
	if fl, ok := rhs.(*ast.FuncLit); ok {
		if x.Tok != token.DEFINE || t.p.info.Defs[id] == nil {
			t.fail(x, "a closure variable is reassigned")
		}
		t.declareClosure(id, fl)
		return t.stmts(rest, ctx)
	}
	ty := t.typeOf(rhs)
	isNew := x.Tok == token.DEFINE && t.p.info.Defs[id] != nil
	if isNew {
		obj := t.p.info.Defs[id]
		if k := auBasic(ty); k == types.Float64 || k == types.Float32 {
			sym, bits := t.evFloat(rhs)
			// the bits are a pure term over variables in scope now; the float variable must not outlive a rebinding of them
			t.declare(x, &auVar{obj: obj, name: lid(id.Name), kind: auFloat, fsym: sym, fbit: bits})
			for _, s := range rest {
				if len(t.assignedIn([]ast.Stmt{s}, s)) != 0 {
					t.fail(s, "a variable is assigned while a float variable followed symbolically is live")
				}
			}
			return t.stmts(rest, ctx)
		}
		v := &auVar{obj: obj, name: lid(id.Name), kind: auPlain}
		if auIsPtr(ty) {
			switch t.ptrKind(rhs) {
			case auNonNil:
				v.kind, v.typ = auNonNil, t.leanType(x, ty)
			case auNilable:
				v.kind, v.typ = auNilable, "Option "+atom(t.leanType(x, ty))
			default:
				t.fail(x, "pointer variable initialised with nil")
			}
		} else {
			v.typ = t.leanType(x, ty)
			if _, isSig := ty.Underlying().(*types.Signature); isSig {
				t.fail(x, "function value stored in a variable")
			}
		}
		return t.ev(rhs, func(val string) string {
			t.declare(x, v)
			return fmt.Sprintf("let %s : %s := %s\n%s", v.name, v.typ, val, t.stmts(rest, ctx))
		})
	}
	v := t.use(id)
	if v.kind != auPlain {
		t.fail(x, "assignment to %s (a pointer, closure or parameter of function type)", id.Name)
	}
	if t.callP != nil && v.obj == t.callP {
		t.fail(x, "the pointer parameter is reassigned")
	}
	elemPtr := false
	if sl, ok := v.obj.Type().Underlying().(*types.Slice); ok {
		elemPtr = auIsPtr(sl.Elem())
	}
	done := func(val string) string {
		t.need(x, []*auVar{v})
		return fmt.Sprintf("let %s : %s := %s\n%s", v.name, v.typ, val, t.stmts(rest, ctx))
	}
	if c, ok := rhs.(*ast.CallExpr); ok {
		if fid, ok := c.Fun.(*ast.Ident); ok && fid.Name == "append" {
			if _, ok := t.p.info.ObjectOf(fid).(*types.Builtin); ok {
				a0, ok := unparen(c.Args[0]).(*ast.Ident)
				if !ok || len(c.Args) != 2 || c.Ellipsis.IsValid() || t.p.info.ObjectOf(a0) != v.obj {
					t.fail(x, "append is only translated as x = append(x, e)")
				}
				if elemPtr && t.ptrKind(c.Args[1]) != auNonNil {
					t.fail(x, "a pointer that may be nil is appended to a slice of pointers")
				}
				return t.ev(c.Args[1], func(e string) string { return done(v.name + " ++ [" + e + "]") })
			}
		}
	}
	if elemPtr {
		// a slice of pointers keeps only non-nil elements: make, append (above) or a reslice of itself
		okForm := false
		switch r := rhs.(type) {
		case *ast.SliceExpr:
			if rid, ok := unparen(r.X).(*ast.Ident); ok && t.p.info.ObjectOf(rid) == v.obj {
				okForm = true
			}
		case *ast.CallExpr:
			if fid, ok := r.Fun.(*ast.Ident); ok && fid.Name == "make" {
				okForm = true
			}
		}
		if !okForm {
			t.fail(x, "a slice of pointers is assigned something else than make, append to itself or a reslice of itself")
		}
	}
	return t.ev(rhs, done)
}

func (t *auT) isWalk(x *ast.CallExpr) (*ast.SelectorExpr, bool) {
	sel, ok := x.Fun.(*ast.SelectorExpr)
	if !ok || sel.Sel.Name != "walk" || len(x.Args) != 1 {
		return nil, false
	}
	fn, ok := t.p.info.ObjectOf(sel.Sel).(*types.Func)
	if !ok || fn.Pkg() != t.p.pkg {
		return nil, false
	}
	sig := fn.Type().(*types.Signature)
	if sig.Recv() == nil || auNamed(sig.Recv().Type()) != "stack.Args" {
		return nil, false
	}
	return sel, true
}

func (t *auT) exprStmt(x *ast.ExprStmt, rest []ast.Stmt, ctx auCtx) string {
	c, ok := unparen(x.X).(*ast.CallExpr)
	if !ok {
		t.fail(x, "expression statement")
	}
	if cl := t.closureOf(c.Fun); cl != nil {
		return t.evClosureCall(c, cl, func(string) string { return t.stmts(rest, ctx) })
	}
	if id, ok := c.Fun.(*ast.Ident); ok {
		if v := t.lookup(t.p.info.ObjectOf(id)); v != nil && v.kind == auVisitor && len(c.Args) == 1 {
			// visitor(arg): the argument joins the list of visited arguments
			if t.ptrKind(c.Args[0]) != auNonNil {
				t.fail(x, "the visitor is called on a pointer that may be nil")
			}
			return t.ev(c.Args[0], func(a string) string {
				t.need(x, []*auVar{t.acc})
				return fmt.Sprintf("let _acc : List Arg := _acc ++ [%s]\n%s", a, t.stmts(rest, ctx))
			})
		}
	}
	if sel, ok := t.isWalk(c); ok {
		recv := func(k func(string) string) string { return t.evDeref(sel.X, k) }
		if id, ok := unparen(c.Args[0]).(*ast.Ident); ok {
			if v := t.lookup(t.p.info.ObjectOf(id)); v != nil && v.kind == auVisitor {
				// P.walk(visitor) with the same visitor: it is called on what walk visits in P, in order
				return recv(func(p string) string {
					r := t.fresh()
					t.need(x, []*auVar{t.acc})
					return auMatch("E.walk "+atom(p), r, fmt.Sprintf("let _acc : List Arg := _acc ++ %s\n%s", r, t.stmts(rest, ctx)))
				})
			}
		}
		if fl, ok := unparen(c.Args[0]).(*ast.FuncLit); ok {
			return recv(func(p string) string {
				r := t.fresh()
				return auMatch("E.walk "+atom(p), r, t.visitLoop(x, fl, r, rest, ctx))
			})
		}
	}
	t.fail(x, "call statement %s is not translated", types.ExprString(c))
	return ""
}

// loopDef emits the definition of a loop body and returns (name applied to its captured variables, state variables)
func (t *auT) loopDef(n ast.Node, state []*auVar, binders string, body func(auCtx) string, post func() string) string {
	var caps []*auVar
	inState := map[*auVar]bool{}
	for _, v := range state {
		inState[v] = true
	}
	for _, v := range t.plainVisible() {
		if !inState[v] {
			caps = append(caps, v)
		}
	}
	t.need(n, state)
	t.nloop++
	name := fmt.Sprintf("%s_loop%d", t.fn, t.nloop)
	done := func(m ast.Node) string {
		p := ""
		if post != nil {
			p = post()
		}
		t.need(m, state)
		return p + "some " + auTuple(state)
	}
	b := body(auCtx{cont: done, end: done, typ: auTupleType(state)})
	t.defs = append(t.defs, fmt.Sprintf("def %s (E : Env) %s %s (_st : %s) : Option %s :=\n%s\n", name, auParams(caps), binders, auTupleType(state), atom(auTupleType(state)),
		smIndent("match _st with\n| "+auTuple(state)+" =>\n"+b)))
	app := name + " E"
	if len(caps) != 0 {
		app += " " + auArgs(caps)
	}
	return app
}

// visitLoop: P.walk(func(arg *Arg) { BODY }) = for arg in (E.walk P) { BODY }; a return in BODY is a continue
func (t *auT) visitLoop(n ast.Node, fl *ast.FuncLit, list string, rest []ast.Stmt, ctx auCtx) string {
	if len(fl.Type.Params.List) != 1 || len(fl.Type.Params.List[0].Names) != 1 || fl.Type.Results != nil {
		t.fail(fl, "visitor literal must have one named parameter and no result")
	}
	state := t.assignedIn(fl.Body.List, fl)
	sc := t.save()
	id := fl.Type.Params.List[0].Names[0]
	av := &auVar{obj: t.p.info.ObjectOf(id), name: lid(id.Name), typ: "Arg", kind: auNonNil}
	t.declare(fl, av)
	app := t.loopDef(fl, state, "(_i : Nat)", func(bc auCtx) string {
		bc.ret = func(m ast.Node, v string) string {
			if v != "" {
				t.fail(m, "visitor returns a value")
			}
			return bc.end(m)
		}
		return t.stmts(fl.Body.List, bc)
	}, nil)
	t.restore(sc)
	// the element is one of the captured variables of the body definition (declared last): the fun binds it by name
	return auMatch(fmt.Sprintf("forIdx (fun _i %s => %s _i) %s 0 %s", av.name, app, list, auTuple(state)), auTuple(state), t.stmts(rest, ctx))
}

func (t *auT) rangeStmt(x *ast.RangeStmt, rest []ast.Stmt, ctx auCtx) string {
	key, ok := x.Key.(*ast.Ident)
	if x.Tok != token.DEFINE || !ok || x.Value != nil || key.Name == "_" {
		t.fail(x, "range loop must be `for i := range xs`")
	}
	if _, ok := t.typeOf(x.X).Underlying().(*types.Slice); !ok {
		t.fail(x, "range over %s", t.typeOf(x.X))
	}
	if t.hasReturn(x.Body.List) {
		t.fail(x, "return inside a loop")
	}
	return t.ev(x.X, func(xs string) string {
		state := t.assignedIn(x.Body.List, x)
		sc := t.save()
		iv := &auVar{obj: t.p.info.ObjectOf(key), name: lid(key.Name), typ: "Nat", kind: auPlain}
		for _, v := range state {
			if v.obj == iv.obj {
				t.fail(x, "the range index is assigned")
			}
		}
		t.declare(x, iv)
		app := t.loopDef(x, state, "(_x : "+atom(strings.TrimPrefix(t.leanType(x, t.typeOf(x.X)), "List "))+")", func(bc auCtx) string {
			return t.stmts(x.Body.List, bc)
		}, nil)
		t.restore(sc)
		return auMatch(fmt.Sprintf("forIdx (fun %s _x => %s _x) %s 0 %s", iv.name, app, atom(xs), auTuple(state)), auTuple(state), t.stmts(rest, ctx))
	})
}

func (t *auT) hasReturn(list []ast.Stmt) bool {
	r := false
	for _, s := range list {
		ast.Inspect(s, func(n ast.Node) bool {
			switch n.(type) {
			case *ast.FuncLit:
				return false
			case *ast.ReturnStmt:
				r = true
			}
			return !r
		})
	}
	return r
}

func (t *auT) forStmt(x *ast.ForStmt, rest []ast.Stmt, ctx auCtx) string {
	if x.Cond == nil || x.Init == nil || x.Post == nil {
		t.fail(x, "for loop must have init, condition and post statement")
	}
	init, ok := x.Init.(*ast.AssignStmt)
	post, ok2 := x.Post.(*ast.IncDecStmt)
	if !ok || !ok2 || init.Tok != token.DEFINE || len(init.Lhs) != 1 || post.Tok != token.INC {
		t.fail(x, "for loop must be `for i := e; cond; i++`")
	}
	iid := init.Lhs[0].(*ast.Ident)
	pid, ok := post.X.(*ast.Ident)
	if !ok || t.p.info.ObjectOf(pid) != t.p.info.Defs[iid] || auBasic(t.typeOf(iid)) != types.Int {
		t.fail(x, "for loop must be `for i := e; cond; i++` on an int")
	}
	if t.hasReturn(x.Body.List) {
		t.fail(x, "return inside a loop")
	}
	if len(t.mutCalls(x.Cond)) != 0 {
		t.fail(x.Cond, "loop condition calls a closure")
	}
	sc := t.save()
	out := t.ev(init.Rhs[0], func(i0 string) string {
		iv := &auVar{obj: t.p.info.Defs[iid], name: lid(iid.Name), typ: "Nat", kind: auPlain, loc: true}
		for _, v := range t.plainVisible() {
			if v.name == iv.name {
				// the Lean binding of the loop variable would outlive the loop and hide the outer variable
				t.fail(x, "the loop variable %s hides a variable of the same name", iv.name)
			}
		}
		t.declare(x, iv)
		state := t.assignedIn(append(append([]ast.Stmt{}, x.Body.List...), x.Post), x)
		cond := t.pureTerm(x.Cond)
		app := t.loopDef(x, state, "", func(bc auCtx) string { return t.block(x.Body.List, bc) }, func() string {
			t.need(post, []*auVar{iv})
			return fmt.Sprintf("let %s : Nat := %s + 1\n", iv.name, iv.name) // ASSUMES no overflow
		})
		var pat []string
		for _, v := range state {
			if v.loc {
				pat = append(pat, "_")
			} else {
				pat = append(pat, v.name)
			}
		}
		p := strings.Join(pat, ", ")
		if len(pat) != 1 {
			p = "(" + p + ")"
		}
		t.restore(sc)
		return fmt.Sprintf("let %s : Nat := %s\n", iv.name, i0) +
			auMatch(fmt.Sprintf("whileFuel (fun _st => match _st with | %s => %s) (%s) E.fuel %s", auTuple(state), cond, app, auTuple(state)), p, t.stmts(rest, ctx))
	})
	t.restore(sc)
	return out
}

// declareClosure: x := func(params) T { … } becomes a definition with explicit state
func (t *auT) declareClosure(id *ast.Ident, fl *ast.FuncLit) {
	sig := t.typeOf(fl).(*types.Signature)
	if sig.Results().Len() > 1 || sig.Variadic() {
		t.fail(fl, "closure with several results")
	}
	// the closure variable is only ever called
	obj := t.p.info.Defs[id]
	ast.Inspect(t.fd.Body, func(n ast.Node) bool {
		switch y := n.(type) {
		case *ast.CallExpr:
			if fid, ok := y.Fun.(*ast.Ident); ok && t.p.info.ObjectOf(fid) == obj {
				for _, a := range y.Args {
					ast.Inspect(a, func(m ast.Node) bool {
						if i2, ok := m.(*ast.Ident); ok && t.p.info.Uses[i2] == obj {
							t.fail(i2, "closure %s is used as a value", id.Name)
						}
						return true
					})
				}
				return false
			}
		case *ast.Ident:
			if t.p.info.Uses[y] == obj {
				t.fail(y, "closure %s is used other than by calling it", id.Name)
			}
		}
		return true
	})
	// captured variables: what the body (or a closure it calls) mentions of the current scope
	set := map[*auVar]bool{}
	ast.Inspect(fl.Body, func(n ast.Node) bool {
		switch y := n.(type) {
		case *ast.Ident:
			if o := t.p.info.Uses[y]; o != nil {
				if v := t.lookup(o); v != nil {
					switch v.kind {
					case auPlain, auNonNil, auNilable, auFnParam:
						set[v] = true
					case auClosure:
						for _, c := range v.clo.caps {
							set[c] = true
						}
					default:
						t.fail(y, "closure captures %s (a float followed symbolically or the visitor)", y.Name)
					}
				}
			}
		}
		return true
	})
	clo := &auClo{nparam: sig.Params().Len()}
	for _, v := range t.assignedIn(fl.Body.List, fl) {
		set[v] = true
		clo.mut = append(clo.mut, v)
	}
	for _, v := range t.scope {
		if set[v] {
			if !t.visibleAs(v) {
				t.fail(fl, "closure captures the shadowed variable %s", v.name)
			}
			clo.caps = append(clo.caps, v)
		}
	}
	t.tmp++
	clo.def = fmt.Sprintf("%s_%s", t.fn, id.Name)
	sc := t.save()
	var params []*auVar
	for _, f := range fl.Type.Params.List {
		if len(f.Names) == 0 {
			t.fail(fl, "unnamed closure parameter")
		}
		for _, pn := range f.Names {
			pt := t.typeOf(f.Type)
			pv := &auVar{obj: t.p.info.ObjectOf(pn), name: lid(pn.Name), typ: t.leanType(fl, pt), kind: auPlain}
			if _, isSig := pt.Underlying().(*types.Signature); isSig {
				pv.kind = auFnParam
			} else if auIsPtr(pt) {
				t.fail(fl, "closure with a pointer parameter")
			}
			t.declare(fl, pv)
			params = append(params, pv)
		}
	}
	rt := auTupleType(clo.mut)
	if sig.Results().Len() == 1 {
		r := sig.Results().At(0).Type()
		clo.res = t.leanType(fl, r)
		if auIsPtr(r) {
			clo.resPtr = true
			clo.res = "Option " + atom(clo.res)
		}
		if len(clo.mut) == 0 {
			rt = clo.res
		} else {
			rt = "(" + atom(rt) + " × " + atom(clo.res) + ")"
		}
	}
	ctx := auCtx{typ: rt, resPtr: clo.resPtr}
	ctx.ret = func(n ast.Node, v string) string {
		t.need(n, clo.mut)
		switch {
		case clo.res == "" && v != "":
			t.fail(n, "value returned from a closure without result")
		case clo.res != "" && v == "":
			t.fail(n, "return without a value")
		case clo.res == "":
			return "some " + auTuple(clo.mut)
		case len(clo.mut) == 0:
			return "some " + atom(v)
		}
		return "some (" + auTuple(clo.mut) + ", " + v + ")"
	}
	ctx.end = func(n ast.Node) string {
		if clo.res != "" {
			t.fail(n, "closure can fall off its end")
		}
		return ctx.ret(n, "")
	}
	body := t.stmts(fl.Body.List, ctx)
	t.restore(sc)
	pos := t.p.fset.Position(fl.Pos())
	all := append(append([]*auVar{}, clo.caps...), params...)
	t.defs = append(t.defs, fmt.Sprintf("/-- the closure `%s` of %s (line %d); captured: %s; assigned: %s -/\ndef %s (E : Env) %s : Option %s :=\n%s\n",
		id.Name, t.fn, pos.Line, auArgs(clo.caps), auArgs(clo.mut), clo.def, auParams(all), atom(rt), smIndent(body)))
	t.declare(fl, &auVar{obj: obj, name: lid(id.Name), kind: auClosure, clo: clo})
}

func (p *pkgInfo) translateAug() string {
	ns := "PP.TrAu"
	var sb strings.Builder
	fmt.Fprintf(&sb, "/- GENERATED by /verif/extract (translate_aug.go) from stack/source.go, stack/stack.go — do not edit. -/\nimport PP.Go.PreludeAug\nset_option linter.unusedVariables false\nnamespace %s\nopen PP PP.Go PP.Bytes\n\n", ns)
	var failed, bodies []string
	for _, f := range trFuncsAug {
		func() {
			defer func() {
				if r := recover(); r != nil {
					if tf, ok := r.(trFail); ok {
						failed = append(failed, fmt.Sprintf("%s.%s: %s", f[0], f[1], tf.msg))
						return
					}
					panic(r)
				}
			}()
			fd := p.funcDecl(f[0], f[1])
			t := &auT{p: p, fn: f[1], fd: fd}
			var params []*auVar
			add := func(fl *ast.FieldList) {
				if fl == nil {
					return
				}
				for _, fld := range fl.List {
					if len(fld.Names) == 0 {
						t.fail(fd, "unnamed parameter")
					}
					for _, n := range fld.Names {
						ty := t.typeOf(fld.Type)
						v := &auVar{obj: p.info.ObjectOf(n), name: lid(n.Name)}
						switch {
						case auIsPtr(ty):
							v.kind, v.typ = auNonNil, t.leanType(fd, ty) // ASSUMES the callers pass non-nil pointers
							if auNamed(ty) == "stack.Call" {
								t.callP = v.obj
							}
							params = append(params, v)
						case f[1] == "walk":
							if _, isSig := ty.Underlying().(*types.Signature); !isSig {
								t.fail(fd, "parameter type %s", ty)
							}
							v.kind = auVisitor
						default:
							t.fail(fd, "parameter type %s", ty)
						}
						t.declare(fd, v)
					}
				}
			}
			add(fd.Recv)
			add(fd.Type.Params)
			if fd.Type.Results != nil {
				t.fail(fd, "function with results")
			}
			var ctx auCtx
			pre := ""
			switch f[1] {
			case "walk":
				t.acc = &auVar{obj: types.NewVar(token.NoPos, p.pkg, "_acc", nil), name: "_acc", typ: "List Arg", kind: auPlain}
				t.scope = append(t.scope, t.acc)
				pre = "let _acc : List Arg := []\n"
				ctx.typ = "List Arg"
				ctx.end = func(n ast.Node) string { t.need(n, []*auVar{t.acc}); return "some _acc" }
			default:
				if t.callP == nil {
					t.fail(fd, "no *Call parameter")
				}
				cv := t.lookup(t.callP)
				ctx.typ = "Call"
				ctx.end = func(n ast.Node) string { t.need(n, []*auVar{cv}); return "some " + cv.name }
			}
			ctx.ret = func(n ast.Node, v string) string {
				if v != "" {
					t.fail(n, "return with a value")
				}
				return ctx.end(n)
			}
			body := t.stmts(fd.Body.List, ctx)
			pos := p.fset.Position(fd.Pos())
			var out strings.Builder
			for _, d := range t.defs {
				out.WriteString(d + "\n")
			}
			fmt.Fprintf(&out, "/-- %s.%s (%s:%d) -/\ndef %s (E : Env) %s : Option %s :=\n%s\n", f[0], f[1], pos.Filename[strings.LastIndex(pos.Filename, "/")+1:], pos.Line, f[1], auParams(params), atom(ctx.typ), smIndent(pre+body))
			bodies = append(bodies, out.String())
		}()
	}
	if len(failed) != 0 {
		sort.Strings(failed)
		fmt.Fprintf(&sb, "/-- The translator could not handle the current source. -/\ntheorem translation_failed : %s = \"\" := rfl\n", leanStr(strings.Join(failed, "; ")))
		fmt.Fprintf(&sb, "\nend %s\n", ns)
		return sb.String()
	}
	sb.WriteString(`/-- the translated functions as callees, and the oracles of the environment:
` + "`extractArgumentsType`" + ` (stack/source.go, modelled in PP/Model/TypeNames.lean),
` + "`formatFloat32 b`" + ` = strconv.FormatFloat(float64(math.Float32frombits(b)), 'g', -1, 32),
` + "`formatFloat64 b`" + ` = strconv.FormatFloat(math.Float64frombits(b), 'g', -1, 64),
` + "`fuel`" + `: the bound on the iterations of a ` + "`for init; cond; post`" + ` loop -/
structure Env where
  walk : Args → Option (List Arg)
  augmentCall : Call → TN.GoFuncDecl → Option Call
  extractArgumentsType : TN.GoFuncDecl → List Bytes × Bool
  formatFloat32 : Nat → Bytes
  formatFloat64 : Nat → Bytes
  fuel : Nat

`)
	for _, b := range bodies {
		sb.WriteString(b + "\n")
	}
	fmt.Fprintf(&sb, "end %s\n", ns)
	return sb.String()
}
