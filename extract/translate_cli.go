// translate_cli.go — the translated group Cli: the filter loop of the command, internal/main.go
// (showBanner, processInner, process).
//
// Generated file: lean/PP/TranslatedCli.lean (namespace PP.TrC, its own Env); run-time support:
// lean/PP/Go/PreludeCli.lean; agreement with the hand-written model PP/Model/Cli.lean:
// lean/PP/Tie/TranslatedCli.lean.
//
// A self-contained WHITELIST translator (no hook in translate.go): every statement and expression form it
// accepts is listed here; anything else makes the translation of the whole group fail by name
// (`translation_failed`).  It reuses only small helpers of the other files (lid, leanBytes, unparen, atom,
// trFail, loadUi).  Conventions are those of group Web: a function f becomes
// `def f (E : Env) (wld : CWorld) args : Option (CWorld × τ)` (`none` = a Go run-time panic); calls of functions
// of the group go through `Env`.
//
// What is translated, and what each construct assumes (sound or refuse):
//
//   - TYPES: bool, string and []byte (Bytes), int (Int; only constants, len, == and !=), error (GoErr),
//     io.Reader (InStream, a VALUE: see cliStreamGuard), io.Writer (CWriter, a handle), *Palette (PaletteRef),
//     pathFormat (Console.PathFormat), stack.Similarity (Lvl), *regexp.Regexp (CRe), *stack.Snapshot (SnapRef),
//     *stack.Aggregated (Aggregated: ASSUMES (*Snapshot).Aggregate never returns nil — it returns &Aggregated{…}),
//     *stack.Opts (Cli.Opts, the value pointed to: see cliOptsGuard).  Anything else is refused.
//     ASSUMES the interface values `in` and `out` are not nil.
//   - THE WORLD `wld`: threaded through every function; a call with an effect rebinds it.  Such a call is
//     accepted only as a whole statement, as the whole right-hand side of `:=` / `=`, as the whole operand of
//     `return`, as the init statement of an `if`, or as the right operand of `&&` that is itself such a
//     right-hand side (`x := a && f()`: f is called only when a is true).  Its arguments must be free of effects
//     and of panics (plain variables, constants, comparisons), so the events are in statement order.
//   - IDENTIFIERS: every use is checked to resolve to the Lean binding of the Go object it denotes (lookup);
//     a declaration of a name that is already in scope (shadowing) is refused, so are the names the translation
//     uses itself (E, wld, st, t1 t2 …).  Names that are Lean keywords are quoted («in», «match»).
//   - STATEMENTS: `x := e`, `x, y, z := call`, `x = e`, `opts.F = constant` (cliOptsGuard), expression statements
//     that are calls with an effect, `return e`, `continue`, `if [init;] cond { … }` WITHOUT else, and one
//     `for init; ; post { … }` WITHOUT condition and without `break` as the last statement of a function.
//     An `if` must be of one of two kinds: its body always leaves (ends in return / continue on every path):
//     `if c then body else rest`; or its body has no return / continue at all: the variables of the enclosing
//     scopes it assigns (and the world) are joined: `(if c then body; some vars else some vars).bind fun st => rest`.
//     Any other `if`, `else`, `switch`, `range`, `break`, `goto`, labels, `defer`, `go`, function literals,
//     nested loops, named results: refused.
//   - THE LOOP is `forFuel` (PreludeWeb.lean) with the oracle `E.fuel`: `none` when the fuel runs out, monotone
//     in the fuel (`forFuel_mono`), so a `some` IS the result of the Go loop.  The loop-carried state is the
//     world and the variables of the enclosing scope assigned in the body or the post statement; `continue` and
//     the end of the body run the post statement, then `.cont`.  Since the loop has no `break` and no condition
//     nothing can follow it (the type checker makes it a terminating statement): the continuation is `none`,
//     never reached (forFuel yields `.cont` only after a break).
//   - EXPRESSIONS (evaluated left to right, in continuation-passing style so that a panic of an operand comes
//     before anything later): constants (bool, string, int), variables, `!a`, `a == b` / `a != b` on strings,
//     bools, ints, and of an error with nil or io.EOF (identity of the sentinels; two arbitrary errors: refused),
//     `p == nil` / `p != nil` on a pointer that is an Option here, `a && b` / `a || b` with a right operand that
//     cannot panic, `len(x)`, `c.F` for the fields Goroutines / RemoteGOROOT / RemoteGOPATHs of a *stack.Snapshot
//     (a nil c is a panic: `c.bind`), `os.Getenv(k)` (the oracle E.getenv; ASSUMES the environment does not
//     change while process runs), `c.IsRace()` (snapIsRace), `c.Aggregate(s)` (the oracle E.aggregate,
//     `none` = a panic; no event: it touches nothing outside the snapshot), io.EOF.
//   - CALLS WITH AN EFFECT: log.Printf (CWorld.logPrintf: the arguments are evaluated, the text is dropped),
//     stack.ScanSnapshot(in, out, opts) (rebinds `in`), io.MultiReader(bytes.NewReader(b), in) (only as
//     `in = …`: E.multiReader), out.Write(b) (the count must be dropped: `_, err := …`), writeBucketsToConsole,
//     writeGoroutinesToConsole, toHTML (by the static type of its first argument), stack.DefaultOpts() (only as
//     `opts := stack.DefaultOpts()`; no event: it reads runtime.GOROOT() and $GOPATH, the oracles E.goroot /
//     E.gopaths), and the functions of the group.  The renderers of package internal are ORACLES here (the bytes
//     they send to `out` and the error they return); the translator checks that the callee is that package-level
//     function of package internal.
package main

import (
	"fmt"
	"go/ast"
	"go/constant"
	"go/token"
	"go/types"
	"regexp"
	"strings"
)

// the functions of group Cli, in emission order (all of package internal, internal/main.go)
var trFuncsCli = []string{"showBanner", "processInner", "process"}

// the oracles of the environment of group Cli
var trOraclesCli = []string{
	"fuel : Nat",
	"getenv : Bytes → Bytes",
	"goroot : Bytes",
	"gopaths : List Bytes",
	"scanSnapshot : CWorld → InStream → Cli.Opts → ScanRet",
	"multiReader : Bytes → InStream → InStream",
	"aggregate : SnapRef → Lvl → Option Aggregated",
	"writeBuckets : CWorld → PaletteRef → Aggregated → Console.PathFormat → Bool → CRe → CRe → Bytes × GoErr",
	"writeGoroutines : CWorld → PaletteRef → SnapRef → Console.PathFormat → Bool → CRe → CRe → Bytes × GoErr",
	"htmlAgg : CWorld → Aggregated → Bytes → Bool → GoErr",
	"htmlSnap : CWorld → SnapRef → Bytes → Bool → GoErr",
	"writeErr : CWorld → CWriter → Bytes → GoErr",
}

const (
	cliStackPath    = "github.com/maruel/panicparse/v2/stack"
	cliInternalPath = "github.com/maruel/panicparse/v2/internal"
	cliWorld        = "wld"
)

type cliVar struct {
	name, typ string
	obj       types.Object
}

type cliT struct {
	p      *pkgInfo
	fn     string
	retTy  string // the Lean type of the Go result
	scope  []cliVar
	ntmp   int
	nloop  int
	depth  int
	defs   []string
	wObj   types.Object // the pseudo-object of the world
	inLoop bool
	inJoin int
	loopSt []cliVar // the loop-carried state
	post   ast.Stmt // the post statement of the loop
	group  map[string]bool
	optsOK map[*ast.AssignStmt]bool // `opts.F = v` statements cliOptsGuard has accepted
}

type cliImpure struct{}

func (t *cliT) fail(n ast.Node, f string, a ...interface{}) {
	pos := t.p.fset.Position(n.Pos())
	panic(trFail{fmt.Sprintf("%s:%d: %s", pos.Filename[strings.LastIndex(pos.Filename, "/")+1:], pos.Line, fmt.Sprintf(f, a...))})
}

func (t *cliT) fresh() string { t.ntmp++; return fmt.Sprintf("t%d", t.ntmp) }
func (t *cliT) ind() string   { return strings.Repeat("  ", t.depth+1) }

func (t *cliT) typeOf(e ast.Expr) types.Type {
	tv, ok := t.p.info.Types[e]
	if !ok || tv.Type == nil {
		t.fail(e, "no type for %s", types.ExprString(e))
	}
	return tv.Type
}

// leanType: the whitelist of types
func (t *cliT) leanType(n ast.Node, ty types.Type) string {
	switch types.TypeString(ty, nil) {
	case "bool", "untyped bool":
		return "Bool"
	case "string", "[]byte", "untyped string":
		return "Bytes"
	case "int":
		return "Int"
	case "error":
		return "GoErr"
	case "io.Reader":
		return "InStream"
	case "io.Writer":
		return "CWriter"
	case "*" + cliInternalPath + ".Palette":
		return "PaletteRef"
	case cliInternalPath + ".pathFormat":
		return "Console.PathFormat"
	case cliStackPath + ".Similarity":
		return "Lvl"
	case "*regexp.Regexp":
		return "CRe"
	case "*" + cliStackPath + ".Snapshot":
		return "SnapRef"
	case "*" + cliStackPath + ".Aggregated":
		return "Aggregated"
	case "*" + cliStackPath + ".Opts":
		return "Cli.Opts"
	}
	t.fail(n, "type %s is not one group Cli knows", ty)
	return ""
}

var cliTmpName = regexp.MustCompile(`^t[0-9]+$`)

// names of the Lean side the generated text uses unqualified: a Go variable of that name would capture them
var cliReserved = map[string]bool{"some": true, "none": true, "after": true, "forFuel": true, "lenI": true, "snapIsRace": true,
	"true": true, "false": true, "not": true, "decide": true, "bind": true, "id": true}

// declare: a new Lean binding for a Go object.  Shadowing is refused.
func (t *cliT) declare(n ast.Node, name, typ string, obj types.Object) {
	if name == cliWorld || name == "E" || name == "st" || cliTmpName.MatchString(name) || cliReserved[name] {
		t.fail(n, "the identifier %s is a name the translation uses itself", name)
	}
	for _, v := range t.scope {
		if v.name == name {
			t.fail(n, "declaration of %s shadows another %s", name, name)
		}
	}
	t.scope = append(t.scope, cliVar{name, typ, obj})
}

// lookup: the Lean name of a use of a Go variable; the innermost binding of that name must be the object
func (t *cliT) lookup(id *ast.Ident) cliVar {
	obj := t.p.info.Uses[id]
	if obj == nil {
		obj = t.p.info.Defs[id]
	}
	for i := len(t.scope) - 1; i >= 0; i-- {
		if t.scope[i].name == id.Name {
			if obj == nil || t.scope[i].obj != obj {
				t.fail(id, "%s does not resolve to the binding the translation has for it", id.Name)
			}
			return t.scope[i]
		}
	}
	t.fail(id, "%s is not a local variable or parameter", id.Name)
	return cliVar{}
}

func (t *cliT) isPkgSel(e ast.Expr, pkgPath, name string) bool {
	sel, ok := unparen(e).(*ast.SelectorExpr)
	if !ok || sel.Sel.Name != name {
		return false
	}
	id, ok := sel.X.(*ast.Ident)
	if !ok {
		return false
	}
	pn, ok := t.p.info.Uses[id].(*types.PkgName)
	return ok && pn.Imported().Path() == pkgPath
}

// isInternalFunc: a call of the package-level function `name` of package internal
func (t *cliT) isInternalFunc(c *ast.CallExpr, name string) bool {
	id, ok := unparen(c.Fun).(*ast.Ident)
	if !ok || id.Name != name {
		return false
	}
	fn, ok := t.p.info.Uses[id].(*types.Func)
	return ok && fn.Pkg() == t.p.pkg && fn.Parent() == t.p.pkg.Scope()
}

// methodOf: the full name of the method a call selects ("" if it is not a method call)
func (t *cliT) methodOf(c *ast.CallExpr) (string, ast.Expr) {
	sel, ok := unparen(c.Fun).(*ast.SelectorExpr)
	if !ok {
		return "", nil
	}
	if s := t.p.info.Selections[sel]; s == nil || s.Kind() != types.MethodVal {
		return "", nil
	}
	fn, ok := t.p.info.Uses[sel.Sel].(*types.Func)
	if !ok {
		return "", nil
	}
	return fn.FullName(), sel.X
}

// effectName: is the call one that is only accepted in statement position?  (a call that changes the world or
// rebinds a variable)
func (t *cliT) effectName(c *ast.CallExpr) string {
	switch {
	case t.isPkgSel(c.Fun, "log", "Printf"):
		return "log.Printf"
	case t.isPkgSel(c.Fun, cliStackPath, "ScanSnapshot"):
		return "stack.ScanSnapshot"
	case t.isPkgSel(c.Fun, cliStackPath, "DefaultOpts"):
		return "stack.DefaultOpts"
	case t.isPkgSel(c.Fun, "io", "MultiReader"):
		return "io.MultiReader"
	case t.isInternalFunc(c, "writeBucketsToConsole"):
		return "writeBucketsToConsole"
	case t.isInternalFunc(c, "writeGoroutinesToConsole"):
		return "writeGoroutinesToConsole"
	case t.isInternalFunc(c, "toHTML"):
		return "toHTML"
	}
	if id, ok := unparen(c.Fun).(*ast.Ident); ok && t.group[id.Name] && t.isInternalFunc(c, id.Name) {
		return "group:" + id.Name
	}
	if m, _ := t.methodOf(c); m == "(io.Writer).Write" {
		return "Writer.Write"
	}
	return ""
}

// ---------------------------------------------------------------- expressions

var cliSnapFields = map[string]string{"Goroutines": "goroutines", "RemoteGOROOT": "remoteGOROOT", "RemoteGOPATHs": "remoteGOPATHs"}

func (t *cliT) isNilIdent(e ast.Expr) bool {
	id, ok := unparen(e).(*ast.Ident)
	if !ok || id.Name != "nil" {
		return false
	}
	_, isNil := t.p.info.Uses[id].(*types.Nil)
	return isNil
}

func (t *cliT) isError(ty types.Type) bool { return types.TypeString(ty, nil) == "error" }

// isOptionPtr: a pointer type that is an Option here (nil = none)
func (t *cliT) isOptionPtr(ty types.Type) bool {
	switch types.TypeString(ty, nil) {
	case "*" + cliStackPath + ".Snapshot", "*regexp.Regexp", "*" + cliInternalPath + ".Palette":
		return true
	}
	return false
}

// pure: the expression without any bind (no panic possible); ok=false when it needs one
func (t *cliT) pure(e ast.Expr) (s string, ok bool) {
	defer func() {
		if r := recover(); r != nil {
			if _, is := r.(cliImpure); is {
				s, ok = "", false
				return
			}
			panic(r)
		}
	}()
	save := t.ntmp
	res := ""
	t.exprK(e, true, func(v string) string { res = v; return "" })
	t.ntmp = save
	return res, true
}

func (t *cliT) pureArg(a ast.Expr, what string) string {
	s, ok := t.pure(a)
	if !ok {
		t.fail(a, "%s: an argument that can panic or has an effect", what)
	}
	return atom(s)
}

// expr: e in continuation-passing style; binds (panics) are emitted in evaluation order
func (t *cliT) expr(e ast.Expr, k func(string) string) string { return t.exprK(e, false, k) }

func (t *cliT) exprK(e ast.Expr, noBind bool, k func(string) string) string {
	bind := func(opt string, kk func(v string) string) string {
		if noBind {
			panic(cliImpure{})
		}
		v := t.fresh()
		return fmt.Sprintf("%s.bind fun %s =>\n%s%s", atom(opt), v, t.ind(), kk(v))
	}
	e = unparen(e)
	if tv, ok := t.p.info.Types[e]; ok && tv.Value != nil {
		b, isBasic := tv.Type.Underlying().(*types.Basic)
		if !isBasic {
			t.fail(e, "constant of type %s", tv.Type)
		}
		if _, named := tv.Type.(*types.Named); named {
			t.fail(e, "constant of the named type %s", tv.Type)
		}
		switch {
		case tv.Value.Kind() == constant.Bool && b.Info()&types.IsBoolean != 0:
			return k(fmt.Sprintf("%v", constant.BoolVal(tv.Value)))
		case tv.Value.Kind() == constant.String && b.Info()&types.IsString != 0:
			return k(leanBytes(constant.StringVal(tv.Value)))
		case tv.Value.Kind() == constant.Int && (b.Kind() == types.Int || b.Kind() == types.UntypedInt):
			return k("(" + tv.Value.ExactString() + " : Int)")
		}
		t.fail(e, "constant %s of type %s", tv.Value, tv.Type)
	}
	switch x := e.(type) {
	case *ast.Ident:
		if t.isNilIdent(x) {
			t.fail(x, "nil outside a comparison with a pointer or an error, `return nil` or `err = nil`")
		}
		if _, isVar := t.p.info.Uses[x].(*types.Var); !isVar {
			t.fail(x, "%s is not a variable", x.Name)
		}
		v := t.lookup(x)
		if v.typ == "InStream" {
			t.fail(x, "the reader %s used as a value (cliStreamGuard)", x.Name)
		}
		return k(lid(v.name))
	case *ast.SelectorExpr:
		if t.isPkgSel(x, "io", "EOF") {
			return k("GoErr.eof")
		}
		sel := t.p.info.Selections[x]
		if sel == nil || sel.Kind() != types.FieldVal {
			t.fail(x, "selector %s", types.ExprString(x))
		}
		if types.TypeString(sel.Recv(), nil) != "*"+cliStackPath+".Snapshot" || len(sel.Index()) != 1 {
			t.fail(x, "field %s of a %s", x.Sel.Name, sel.Recv())
		}
		f, ok := cliSnapFields[x.Sel.Name]
		if !ok {
			t.fail(x, "field %s of a *stack.Snapshot", x.Sel.Name)
		}
		// c.F: a nil c is a run-time panic
		return t.exprK(x.X, noBind, func(c string) string {
			return bind(c, func(v string) string { return k(v + "." + f) })
		})
	case *ast.UnaryExpr:
		if x.Op != token.NOT {
			t.fail(x, "unary %s", x.Op)
		}
		return t.exprK(x.X, noBind, func(a string) string { return k("(!" + atom(a) + ")") })
	case *ast.BinaryExpr:
		switch x.Op {
		case token.EQL, token.NEQ:
			op := "=="
			if x.Op == token.NEQ {
				op = "!="
			}
			// p == nil on a pointer that is an Option
			for _, pr := range [][2]ast.Expr{{x.X, x.Y}, {x.Y, x.X}} {
				if t.isNilIdent(pr[1]) && !t.isNilIdent(pr[0]) {
					ty := t.typeOf(pr[0])
					if t.isError(ty) {
						return t.exprK(pr[0], noBind, func(a string) string { return k(fmt.Sprintf("(%s %s GoErr.nil)", atom(a), op)) })
					}
					if !t.isOptionPtr(ty) {
						t.fail(x, "comparison of a %s with nil", ty)
					}
					m := "isNone"
					if x.Op == token.NEQ {
						m = "isSome"
					}
					return t.exprK(pr[0], noBind, func(a string) string { return k(fmt.Sprintf("(%s).%s", a, m)) })
				}
			}
			tx, ty := t.typeOf(x.X), t.typeOf(x.Y)
			okTy := func(ty types.Type) bool {
				if t.isError(ty) {
					return true
				}
				if _, named := ty.(*types.Named); named {
					return false
				}
				b, ok := ty.Underlying().(*types.Basic)
				return ok && (b.Info()&(types.IsString|types.IsBoolean) != 0 || b.Kind() == types.Int || b.Kind() == types.UntypedInt)
			}
			if !okTy(tx) || !okTy(ty) || t.isError(tx) != t.isError(ty) {
				t.fail(x, "%s on a %s and a %s", x.Op, tx, ty)
			}
			if t.isError(tx) && !t.isPkgSel(x.X, "io", "EOF") && !t.isPkgSel(x.Y, "io", "EOF") {
				// Go compares the dynamic values (pointers, mostly); GoErr only knows the two sentinels
				t.fail(x, "comparison of two errors neither of which is nil or io.EOF")
			}
			return t.exprK(x.X, noBind, func(a string) string {
				return t.exprK(x.Y, noBind, func(b string) string { return k(fmt.Sprintf("(%s %s %s)", atom(a), op, atom(b))) })
			})
		case token.LAND, token.LOR:
			op := "&&"
			if x.Op == token.LOR {
				op = "||"
			}
			return t.exprK(x.X, noBind, func(a string) string {
				b, ok := t.pure(x.Y)
				if !ok {
					t.fail(x.Y, "the right operand of %s can panic or has an effect", x.Op)
				}
				return k(fmt.Sprintf("(%s %s %s)", atom(a), op, atom(b)))
			})
		}
		t.fail(x, "binary %s", x.Op)
	case *ast.CallExpr:
		if n := t.effectName(x); n != "" {
			t.fail(x, "%s: a call with an effect inside a larger expression", n)
		}
		if id, ok := x.Fun.(*ast.Ident); ok && id.Name == "len" && len(x.Args) == 1 {
			if _, isB := t.p.info.Uses[id].(*types.Builtin); isB {
				switch ty := t.typeOf(x.Args[0]).Underlying().(type) {
				case *types.Slice:
				case *types.Basic:
					if ty.Info()&types.IsString == 0 {
						t.fail(x, "len of a %s", ty)
					}
				default:
					t.fail(x, "len of a %s", ty)
				}
				return t.exprK(x.Args[0], noBind, func(a string) string { return k("(lenI " + atom(a) + ")") })
			}
		}
		if t.isPkgSel(x.Fun, "os", "Getenv") && len(x.Args) == 1 {
			return k("(E.getenv " + t.pureArg(x.Args[0], "os.Getenv") + ")")
		}
		switch m, recv := t.methodOf(x); m {
		case "(*" + cliStackPath + ".Snapshot).IsRace":
			if len(x.Args) != 0 {
				t.fail(x, "IsRace: arguments")
			}
			return t.exprK(recv, noBind, func(c string) string {
				return bind("snapIsRace "+atom(c), k)
			})
		case "(*" + cliStackPath + ".Snapshot).Aggregate":
			if len(x.Args) != 1 {
				t.fail(x, "Aggregate: arguments")
			}
			return t.exprK(recv, noBind, func(c string) string {
				return t.exprK(x.Args[0], noBind, func(s string) string {
					return bind(fmt.Sprintf("E.aggregate %s %s", atom(c), atom(s)), k)
				})
			})
		}
		t.fail(x, "call of %s: neither a function of the group nor one the translator knows", types.ExprString(x.Fun))
	}
	t.fail(e, "expression %T", e)
	return ""
}

// setWorld: `let wld := from`
func (t *cliT) setWorld(from string) string {
	return fmt.Sprintf("let %s := %s\n%s", cliWorld, from, t.ind())
}

// effect: a call with an effect, in statement position; k gets the Lean terms of its results
func (t *cliT) effect(c *ast.CallExpr, k func([]string) string) string {
	name := t.effectName(c)
	nargs := func(n int) {
		if len(c.Args) != n || c.Ellipsis != token.NoPos {
			t.fail(c, "%s: arguments", name)
		}
	}
	args := func() string {
		var as []string
		for _, a := range c.Args {
			as = append(as, t.pureArg(a, name))
		}
		return strings.Join(as, " ")
	}
	switch name {
	case "log.Printf":
		// the arguments are evaluated (a nil dereference panics), the text is dropped
		if len(c.Args) == 0 || c.Ellipsis != token.NoPos {
			t.fail(c, "log.Printf: arguments")
		}
		tv := t.p.info.Types[c.Args[0]]
		if tv.Value == nil || tv.Value.Kind() != constant.String {
			t.fail(c, "log.Printf with a format that is not a constant")
		}
		var evalArgs func(i int) string
		evalArgs = func(i int) string {
			if i == len(c.Args) {
				return t.setWorld(fmt.Sprintf("CWorld.logPrintf %s %s", cliWorld, leanBytes(constant.StringVal(tv.Value)))) + k(nil)
			}
			return t.expr(c.Args[i], func(string) string { return evalArgs(i + 1) })
		}
		return evalArgs(1)
	case "stack.ScanSnapshot":
		nargs(3)
		id, ok := unparen(c.Args[0]).(*ast.Ident)
		if !ok {
			t.fail(c, "stack.ScanSnapshot reading from something other than a variable")
		}
		in := t.lookup(id)
		if in.typ != "InStream" {
			t.fail(c, "stack.ScanSnapshot reading from a %s", in.typ)
		}
		v := t.fresh()
		return fmt.Sprintf("let %s := CWorld.scanSnapshot E.scanSnapshot %s %s %s %s\n%s%slet %s := %s.2.1\n%s%s", v, cliWorld, lid(in.name),
			t.pureArg(c.Args[1], name), t.pureArg(c.Args[2], name), t.ind(), t.setWorld(v+".1"), lid(in.name), v, t.ind(),
			k([]string{v + ".2.2.1", v + ".2.2.2.1", v + ".2.2.2.2"}))
	case "stack.DefaultOpts":
		nargs(0)
		return k([]string{"(Cli.defaultOpts E.goroot E.gopaths)"})
	case "writeBucketsToConsole", "writeGoroutinesToConsole":
		nargs(7)
		v := t.fresh()
		f := map[string]string{"writeBucketsToConsole": "writeBuckets", "writeGoroutinesToConsole": "writeGoroutines"}[name]
		return fmt.Sprintf("let %s := CWorld.%s E.%s %s %s\n%s%s%s", v, f, f, cliWorld, args(), t.ind(), t.setWorld(v+".1"), k([]string{v + ".2"}))
	case "toHTML":
		nargs(3)
		f := ""
		switch types.TypeString(t.typeOf(c.Args[0]), nil) {
		case "*" + cliStackPath + ".Aggregated":
			f = "htmlAgg"
		case "*" + cliStackPath + ".Snapshot":
			f = "htmlSnap"
		default:
			t.fail(c, "toHTML of a %s", t.typeOf(c.Args[0]))
		}
		v := t.fresh()
		return fmt.Sprintf("let %s := CWorld.%s E.%s %s %s\n%s%s%s", v, f, f, cliWorld, args(), t.ind(), t.setWorld(v+".1"), k([]string{v + ".2"}))
	case "Writer.Write":
		nargs(1)
		_, recv := t.methodOf(c)
		v := t.fresh()
		return fmt.Sprintf("let %s := CWorld.write E.writeErr %s %s %s\n%s%s%s", v, cliWorld, t.pureArg(recv, name), args(), t.ind(), t.setWorld(v+".1"),
			k([]string{"", v + ".2"})) // the count is not modelled: it must be dropped (assignCall)
	case "io.MultiReader":
		t.fail(c, "io.MultiReader other than `in = io.MultiReader(bytes.NewReader(b), in)`")
	}
	if strings.HasPrefix(name, "group:") {
		fn := strings.TrimPrefix(name, "group:")
		if c.Ellipsis != token.NoPos {
			t.fail(c, "%s: arguments", fn)
		}
		v := t.fresh()
		a := args()
		if a != "" {
			a = " " + a
		}
		return fmt.Sprintf("(E.%s %s%s).bind fun %s =>\n%s%s%s", fn, cliWorld, a, v, t.ind(), t.setWorld(v+".1"), k([]string{v + ".2"}))
	}
	t.fail(c, "not a call with an effect")
	return ""
}

// rhs: the right-hand side of an assignment / the operand of return: a call with an effect, `a && effect()`,
// or an expression; k gets the Lean terms of the values
func (t *cliT) rhs(e ast.Expr, k func([]string) string) string {
	e = unparen(e)
	if c, ok := e.(*ast.CallExpr); ok && t.effectName(c) != "" {
		return t.effect(c, k)
	}
	if b, ok := e.(*ast.BinaryExpr); ok && b.Op == token.LAND {
		if c, ok := unparen(b.Y).(*ast.CallExpr); ok && t.effectName(c) != "" {
			// a && f(): f is called only when a is true
			return t.expr(b.X, func(a string) string {
				v := t.fresh()
				t.depth++
				call := t.effect(c, func(r []string) string {
					if len(r) != 1 {
						t.fail(c, "the right operand of && has %d results", len(r))
					}
					return fmt.Sprintf("some (%s, %s)", cliWorld, r[0])
				})
				t.depth--
				return fmt.Sprintf("(if %s then\n%s  %s\n%selse\n%s  some (%s, false)).bind fun %s =>\n%s%s%s", a, t.ind(), call, t.ind(), t.ind(), cliWorld, v,
					t.ind(), t.setWorld(v+".1"), k([]string{v + ".2"}))
			})
		}
	}
	return t.expr(e, func(v string) string { return k([]string{v}) })
}

// ---------------------------------------------------------------- statements

// assigned: the objects of the enclosing scopes a node assigns (the world for a call with an effect on it)
func (t *cliT) assigned(n ast.Node, set map[types.Object]bool) {
	ast.Inspect(n, func(m ast.Node) bool {
		switch x := m.(type) {
		case *ast.AssignStmt:
			for _, l := range x.Lhs {
				l = unparen(l)
				if sel, ok := l.(*ast.SelectorExpr); ok {
					l = unparen(sel.X)
				}
				if id, ok := l.(*ast.Ident); ok && id.Name != "_" {
					if o := t.p.info.Uses[id]; o != nil {
						set[o] = true
					}
				}
			}
		case *ast.IncDecStmt:
			t.fail(x, "++ / --")
		case *ast.CallExpr:
			switch t.effectName(x) {
			case "", "stack.DefaultOpts", "io.MultiReader":
			case "stack.ScanSnapshot":
				set[t.wObj] = true
				if len(x.Args) > 0 {
					if id, ok := unparen(x.Args[0]).(*ast.Ident); ok {
						if o := t.p.info.Uses[id]; o != nil {
							set[o] = true
						}
					}
				}
			default:
				set[t.wObj] = true
			}
		}
		return true
	})
}

// assignedVars: the variables of the current scope (and the world, first) that n assigns
func (t *cliT) assignedVars(ns ...ast.Node) []cliVar {
	set := map[types.Object]bool{}
	for _, n := range ns {
		if n != nil {
			t.assigned(n, set)
		}
	}
	var vs []cliVar
	if set[t.wObj] {
		vs = append(vs, cliVar{cliWorld, "CWorld", t.wObj})
	}
	for _, v := range t.scope {
		if set[v.obj] {
			vs = append(vs, v)
		}
	}
	return vs
}

func cliTuple(vs []cliVar) string {
	var ns []string
	for _, v := range vs {
		ns = append(ns, lid(v.name))
	}
	if len(ns) == 1 {
		return ns[0]
	}
	return "(" + strings.Join(ns, ", ") + ")"
}

func cliTupleType(vs []cliVar) string {
	var ns []string
	for _, v := range vs {
		ns = append(ns, v.typ)
	}
	if len(ns) == 1 {
		return ns[0]
	}
	return "(" + strings.Join(ns, " × ") + ")"
}

// unpack: `let v := st.i` for every variable of the tuple
func (t *cliT) unpack(vs []cliVar, from, ind string) string {
	var sb strings.Builder
	for i, v := range vs {
		proj := from
		if len(vs) > 1 {
			proj += strings.Repeat(".2", i)
			if i < len(vs)-1 {
				proj += ".1"
			}
		}
		fmt.Fprintf(&sb, "let %s := %s\n%s", lid(v.name), proj, ind)
	}
	return sb.String()
}

// hasJump: does the node contain a return / continue / break / goto / loop?
func cliHasJump(n ast.Node) bool {
	found := false
	ast.Inspect(n, func(m ast.Node) bool {
		switch m.(type) {
		case *ast.ReturnStmt, *ast.BranchStmt, *ast.ForStmt, *ast.RangeStmt, *ast.LabeledStmt:
			found = true
		}
		return !found
	})
	return found
}

// leaves: does the statement list leave on every path (return / continue)?
func cliLeaves(list []ast.Stmt) bool {
	if len(list) == 0 {
		return false
	}
	switch x := list[len(list)-1].(type) {
	case *ast.ReturnStmt:
		return true
	case *ast.BranchStmt:
		return x.Tok == token.CONTINUE && x.Label == nil
	}
	return false
}

// ret: `return v`
func (t *cliT) ret(n ast.Node, v string) string {
	if t.inJoin > 0 {
		t.fail(n, "return inside an if whose body does not always leave")
	}
	if t.inLoop {
		return fmt.Sprintf("some (.ret (%s, %s))", cliWorld, v)
	}
	return fmt.Sprintf("some (%s, %s)", cliWorld, v)
}

func (t *cliT) stmts(list []ast.Stmt, end func() string) string {
	if len(list) == 0 {
		return end()
	}
	s, rest := list[0], list[1:]
	cont := func() string { return t.stmts(rest, end) }
	switch x := s.(type) {
	case *ast.ExprStmt:
		c, ok := unparen(x.X).(*ast.CallExpr)
		if !ok || t.effectName(c) == "" {
			t.fail(x, "expression statement that is not a call with an effect")
		}
		if n := t.effectName(c); n == "stack.ScanSnapshot" || n == "stack.DefaultOpts" || n == "io.MultiReader" {
			t.fail(x, "%s with its results dropped", n)
		}
		return t.effect(c, func([]string) string { return cont() })
	case *ast.AssignStmt:
		return t.assign(x, cont)
	case *ast.ReturnStmt:
		if len(rest) != 0 {
			t.fail(rest[0], "statement after return")
		}
		if len(x.Results) != 1 {
			t.fail(x, "return with %d results", len(x.Results))
		}
		if t.isNilIdent(x.Results[0]) {
			if t.retTy != "GoErr" {
				t.fail(x, "return nil from a function whose result is a %s", t.retTy)
			}
			return t.ret(x, "GoErr.nil")
		}
		if t.leanType(x, t.typeOf(x.Results[0])) != t.retTy {
			t.fail(x, "return of a %s from a function whose result is a %s", t.typeOf(x.Results[0]), t.retTy)
		}
		return t.rhs(x.Results[0], func(r []string) string {
			if len(r) != 1 {
				t.fail(x, "return of a call with %d results", len(r))
			}
			return t.ret(x, r[0])
		})
	case *ast.BranchStmt:
		if x.Tok != token.CONTINUE || x.Label != nil {
			t.fail(x, "%s", x.Tok)
		}
		if len(rest) != 0 {
			t.fail(rest[0], "statement after continue")
		}
		if !t.inLoop || t.inJoin > 0 {
			t.fail(x, "continue outside the body of the loop or inside an if whose body does not always leave")
		}
		return t.loopNext()
	case *ast.IfStmt:
		return t.ifStmt(x, cont)
	case *ast.ForStmt:
		if len(rest) != 0 {
			t.fail(rest[0], "statement after a for without condition and without break (unreachable)")
		}
		return t.forStmt(x)
	}
	t.fail(s, "statement %T", s)
	return ""
}

// loopNext: the end of an iteration: the post statement, then `.cont`
func (t *cliT) loopNext() string {
	fin := func() string { return fmt.Sprintf("some (.cont %s)", cliTuple(t.loopSt)) }
	if t.post == nil {
		return fin()
	}
	as, ok := t.post.(*ast.AssignStmt)
	if !ok {
		t.fail(t.post, "post statement %T", t.post)
	}
	save := t.post
	t.post = nil // no recursion through cont
	defer func() { t.post = save }()
	return t.assign(as, fin)
}

// assign: `x := e`, `x, y := call`, `x = e`, `opts.F = constant`, `in = io.MultiReader(bytes.NewReader(b), in)`
func (t *cliT) assign(x *ast.AssignStmt, cont func() string) string {
	if x.Tok != token.DEFINE && x.Tok != token.ASSIGN {
		t.fail(x, "assignment operator %s", x.Tok)
	}
	if len(x.Rhs) != 1 {
		t.fail(x, "assignment with %d right-hand sides", len(x.Rhs))
	}
	// opts.F = constant
	if sel, ok := unparen(x.Lhs[0]).(*ast.SelectorExpr); ok {
		if !t.optsOK[x] || len(x.Lhs) != 1 {
			t.fail(x, "assignment through %s (only opts.F = v on a fresh *stack.Opts: cliOptsGuard)", types.ExprString(sel.X))
		}
		v := t.lookup(unparen(sel.X).(*ast.Ident))
		val := t.pureArg(x.Rhs[0], "opts.F = v")
		if t.leanType(x, t.typeOf(x.Rhs[0])) != "Bool" {
			t.fail(x, "a field of *stack.Opts of type %s", t.typeOf(x.Rhs[0]))
		}
		f, ok := map[string]string{"GuessPaths": "guessPaths", "AnalyzeSources": "analyzeSources", "NameArguments": "nameArguments"}[sel.Sel.Name]
		if !ok {
			t.fail(x, "field %s of *stack.Opts", sel.Sel.Name)
		}
		return fmt.Sprintf("let %s := { %s with %s := %s }\n%s%s", lid(v.name), lid(v.name), f, val, t.ind(), cont())
	}
	// in = io.MultiReader(bytes.NewReader(b), in)
	if c, ok := unparen(x.Rhs[0]).(*ast.CallExpr); ok && t.effectName(c) == "io.MultiReader" {
		l, lok := unparen(x.Lhs[0]).(*ast.Ident)
		if !lok || len(x.Lhs) != 1 || x.Tok != token.ASSIGN || len(c.Args) != 2 || c.Ellipsis != token.NoPos {
			t.fail(x, "io.MultiReader other than `in = io.MultiReader(bytes.NewReader(b), in)`")
		}
		r, rok := unparen(c.Args[0]).(*ast.CallExpr)
		a2, aok := unparen(c.Args[1]).(*ast.Ident)
		if !rok || !aok || !t.isPkgSel(r.Fun, "bytes", "NewReader") || len(r.Args) != 1 || t.p.info.Uses[a2] != t.p.info.Uses[l] {
			t.fail(x, "io.MultiReader other than `in = io.MultiReader(bytes.NewReader(b), in)`")
		}
		in := t.lookup(l)
		if in.typ != "InStream" {
			t.fail(x, "io.MultiReader assigned to a %s", in.typ)
		}
		return fmt.Sprintf("let %s := E.multiReader %s %s\n%s%s", lid(in.name), t.pureArg(r.Args[0], "bytes.NewReader"), lid(in.name), t.ind(), cont())
	}
	if c, ok := unparen(x.Rhs[0]).(*ast.CallExpr); ok && t.effectName(c) == "stack.DefaultOpts" && !(x.Tok == token.DEFINE && len(x.Lhs) == 1) {
		t.fail(x, "stack.DefaultOpts() other than `opts := stack.DefaultOpts()`")
	}
	// err = nil (nil has no type of its own: the variable says which nil)
	if t.isNilIdent(x.Rhs[0]) {
		id, ok := unparen(x.Lhs[0]).(*ast.Ident)
		if !ok || len(x.Lhs) != 1 || x.Tok != token.ASSIGN || id.Name == "_" {
			t.fail(x, "nil assigned to something other than a variable of type error")
		}
		v := t.lookup(id)
		if v.typ != "GoErr" {
			t.fail(x, "nil assigned to a %s", v.typ)
		}
		return fmt.Sprintf("let %s := GoErr.nil\n%s%s", lid(v.name), t.ind(), cont())
	}
	return t.rhs(x.Rhs[0], func(r []string) string {
		if len(r) != len(x.Lhs) {
			t.fail(x, "%d values for %d variables", len(r), len(x.Lhs))
		}
		var sb strings.Builder
		for i, l := range x.Lhs {
			id, ok := unparen(l).(*ast.Ident)
			if !ok {
				t.fail(x, "assignment to %s", types.ExprString(l))
			}
			if id.Name == "_" {
				continue
			}
			if r[i] == "" {
				t.fail(x, "a result that is not modelled is used (the count of Write)")
			}
			if def := t.p.info.Defs[id]; def != nil && x.Tok == token.DEFINE {
				ty := t.leanType(id, def.Type())
				t.declare(id, id.Name, ty, def)
				fmt.Fprintf(&sb, "let %s : %s := %s\n%s", lid(id.Name), ty, r[i], t.ind())
				continue
			}
			v := t.lookup(id)
			if v.typ == "InStream" || v.typ == "Cli.Opts" {
				t.fail(x, "assignment to the %s %s", v.typ, id.Name)
			}
			fmt.Fprintf(&sb, "let %s := %s\n%s", lid(v.name), r[i], t.ind())
		}
		return sb.String() + cont()
	})
}

// ifStmt: `if [init;] cond { body }` without else, of one of the two kinds of the header comment
func (t *cliT) ifStmt(x *ast.IfStmt, cont func() string) string {
	if x.Else != nil {
		t.fail(x, "if with an else branch")
	}
	mark := len(t.scope)
	body := func(c string) string {
		switch {
		case cliLeaves(x.Body.List):
			// the body always leaves: if c then body else rest
			inner := len(t.scope)
			t.depth++
			b := t.stmts(x.Body.List, func() string { t.fail(x, "internal: a leaving body fell through"); return "" })
			t.depth--
			t.scope = t.scope[:inner]
			thenInd := t.ind()
			t.scope = t.scope[:mark] // the variables of the init statement end here
			return fmt.Sprintf("if %s then\n%s  %s\n%selse\n%s%s", c, thenInd, b, thenInd, thenInd, cont())
		case !cliHasJump(x.Body):
			// the body never leaves: join the variables it assigns
			vs := t.assignedVars(x.Body)
			if len(vs) == 0 {
				t.fail(x, "an if whose body assigns nothing and has no effect")
			}
			inner := len(t.scope)
			t.depth++
			t.inJoin++
			b := t.stmts(x.Body.List, func() string { return "some " + cliTuple(vs) })
			t.inJoin--
			t.depth--
			t.scope = t.scope[:inner]
			ind := t.ind()
			t.scope = t.scope[:mark]
			return fmt.Sprintf("(if %s then\n%s  %s\n%selse\n%s  some %s).bind fun st =>\n%s%s%s", c, ind, b, ind, ind, cliTuple(vs), ind, t.unpack(vs, "st", ind), cont())
		}
		t.fail(x, "an if whose body leaves on some paths only")
		return ""
	}
	cond := func() string {
		if t.leanType(x.Cond, t.typeOf(x.Cond)) != "Bool" {
			t.fail(x.Cond, "condition of type %s", t.typeOf(x.Cond))
		}
		return t.expr(x.Cond, body)
	}
	if x.Init == nil {
		return cond()
	}
	as, ok := x.Init.(*ast.AssignStmt)
	if !ok || as.Tok != token.DEFINE {
		t.fail(x.Init, "init statement of an if that is not a `:=`")
	}
	return t.assign(as, cond)
}

// forStmt: `for init; ; post { body }`, the last statement of the function
func (t *cliT) forStmt(x *ast.ForStmt) string {
	if x.Cond != nil {
		t.fail(x, "for with a condition")
	}
	if t.inLoop || t.inJoin > 0 {
		t.fail(x, "a loop inside a loop or an if")
	}
	ast.Inspect(x.Body, func(n ast.Node) bool {
		switch y := n.(type) {
		case *ast.BranchStmt:
			if y.Tok != token.CONTINUE || y.Label != nil {
				t.fail(y, "%s in the loop", y.Tok)
			}
		case *ast.ForStmt, *ast.RangeStmt:
			t.fail(y, "nested loop")
		}
		return true
	})
	loop := func() string {
		vs := t.assignedVars(x.Body, x.Post)
		if len(vs) == 0 {
			t.fail(x, "a loop without state")
		}
		isState := map[string]bool{}
		for _, v := range vs {
			isState[v.name] = true
		}
		var binds, args []string
		for _, v := range t.scope {
			if !isState[v.name] {
				binds = append(binds, fmt.Sprintf("(%s : %s)", lid(v.name), v.typ))
				args = append(args, lid(v.name))
			}
		}
		t.nloop++
		name := fmt.Sprintf("%s_loop%d", t.fn, t.nloop)
		saveDepth, saveScope := t.depth, append([]cliVar{}, t.scope...)
		t.inLoop, t.loopSt, t.post, t.depth = true, vs, x.Post, 0
		b := t.unpack(vs, "st", "  ") + t.stmts(x.Body.List, func() string { return t.loopNext() })
		t.inLoop, t.loopSt, t.post, t.depth, t.scope = false, nil, nil, saveDepth, saveScope
		resTy := "(CWorld × " + t.retTy + ")"
		t.defs = append(t.defs, fmt.Sprintf("def %s (E : Env) %s (st : %s) : Option (StepB %s %s) :=\n  %s\n", name, strings.Join(binds, " "),
			cliTupleType(vs), cliTupleType(vs), resTy, b))
		// no break, no condition: the loop is left by return only (or runs out of fuel); nothing follows it
		return fmt.Sprintf("after (forFuel (%s E %s) E.fuel %s) fun _ =>\n%snone", name, strings.Join(args, " "), cliTuple(vs), t.ind())
	}
	if x.Init == nil {
		return loop()
	}
	as, ok := x.Init.(*ast.AssignStmt)
	if !ok || as.Tok != token.DEFINE {
		t.fail(x.Init, "init statement of a for that is not a `:=`")
	}
	return t.assign(as, loop)
}

// ---------------------------------------------------------------- guards

// cliStreamGuard: an io.Reader is translated as the VALUE of what it will deliver.  That is exact as long as the
// value is used linearly: every occurrence of a variable of type io.Reader must be the first argument of
// `… := stack.ScanSnapshot(in, …)` (which consumes it; the translation rebinds the variable to what is left) or
// one of the two occurrences in `in = io.MultiReader(bytes.NewReader(b), in)`.
func (t *cliT) cliStreamGuard(fd *ast.FuncDecl) {
	allowed := map[*ast.Ident]bool{}
	isReader := func(id *ast.Ident) bool {
		o := t.p.info.ObjectOf(id)
		if o == nil {
			return false
		}
		_, isVar := o.(*types.Var)
		return isVar && types.TypeString(o.Type(), nil) == "io.Reader"
	}
	for _, f := range fd.Type.Params.List {
		for _, n := range f.Names {
			allowed[n] = true
		}
	}
	ast.Inspect(fd.Body, func(n ast.Node) bool {
		switch x := n.(type) {
		case *ast.CallExpr:
			if t.isPkgSel(x.Fun, cliStackPath, "ScanSnapshot") && len(x.Args) == 3 {
				if id, ok := unparen(x.Args[0]).(*ast.Ident); ok {
					allowed[id] = true
				}
			}
		case *ast.AssignStmt:
			if len(x.Lhs) == 1 && len(x.Rhs) == 1 && x.Tok == token.ASSIGN {
				if c, ok := unparen(x.Rhs[0]).(*ast.CallExpr); ok && t.isPkgSel(c.Fun, "io", "MultiReader") && len(c.Args) == 2 {
					l, lok := unparen(x.Lhs[0]).(*ast.Ident)
					a, aok := unparen(c.Args[1]).(*ast.Ident)
					if lok && aok {
						allowed[l], allowed[a] = true, true
					}
				}
			}
		}
		return true
	})
	ast.Inspect(fd.Body, func(n ast.Node) bool {
		if id, ok := n.(*ast.Ident); ok && isReader(id) && !allowed[id] {
			t.fail(id, "the reader %s is used in a way that may share it (cliStreamGuard)", id.Name)
		}
		return true
	})
}

// cliOptsGuard: a *stack.Opts is translated as the value it points to.  That is exact as long as nobody else
// holds the pointer while the function writes through it.  A write `p.F = v` is accepted only if p is a local
// declared by `p := stack.DefaultOpts()` (a pointer to a struct allocated by that call: package stack, trusted),
// never assigned again, the write is not inside a loop, and it precedes, in source order, every occurrence of p
// that is not a write through it (a field read is refused anyway).
func (t *cliT) cliOptsGuard(fd *ast.FuncDecl) {
	t.optsOK = map[*ast.AssignStmt]bool{}
	fresh := map[types.Object]bool{}
	ast.Inspect(fd.Body, func(n ast.Node) bool {
		if as, ok := n.(*ast.AssignStmt); ok && as.Tok == token.DEFINE && len(as.Lhs) == 1 && len(as.Rhs) == 1 {
			if c, ok := unparen(as.Rhs[0]).(*ast.CallExpr); ok && t.isPkgSel(c.Fun, cliStackPath, "DefaultOpts") {
				if id, ok := as.Lhs[0].(*ast.Ident); ok && t.p.info.Defs[id] != nil {
					fresh[t.p.info.Defs[id]] = true
				}
			}
		}
		return true
	})
	lastWrite := map[types.Object]token.Pos{}
	var walk func(n ast.Node, inLoop bool)
	walk = func(n ast.Node, inLoop bool) {
		ast.Inspect(n, func(m ast.Node) bool {
			switch x := m.(type) {
			case *ast.ForStmt:
				if m != n {
					walk(x, true)
					return false
				}
			case *ast.AssignStmt:
				for _, l := range x.Lhs {
					sel, ok := unparen(l).(*ast.SelectorExpr)
					if !ok {
						if id, ok := unparen(l).(*ast.Ident); ok && x.Tok == token.ASSIGN && fresh[t.p.info.Uses[id]] {
							t.fail(x, "the pointer %s is assigned again", id.Name)
						}
						continue
					}
					id, ok := unparen(sel.X).(*ast.Ident)
					if !ok || !fresh[t.p.info.Uses[id]] || inLoop || len(x.Lhs) != 1 || x.Tok != token.ASSIGN {
						t.fail(x, "a write through something other than a fresh *stack.Opts outside a loop (cliOptsGuard)")
					}
					t.optsOK[x] = true
					if x.End() > lastWrite[t.p.info.Uses[id]] {
						lastWrite[t.p.info.Uses[id]] = x.End()
					}
				}
			}
			return true
		})
	}
	walk(fd.Body, false)
	// uses that hand the pointer on must come after the last write
	written := map[*ast.Ident]bool{}
	for as := range t.optsOK {
		written[unparen(unparen(as.Lhs[0]).(*ast.SelectorExpr).X).(*ast.Ident)] = true
	}
	ast.Inspect(fd.Body, func(n ast.Node) bool {
		if id, ok := n.(*ast.Ident); ok && !written[id] {
			if o := t.p.info.Uses[id]; o != nil && fresh[o] && id.Pos() < lastWrite[o] {
				t.fail(id, "the pointer %s is handed on here and written through afterwards", id.Name)
			}
		}
		return true
	})
}

// ---------------------------------------------------------------- the group

func (t *cliT) function(fd *ast.FuncDecl) (sig, text string) {
	if fd.Recv != nil || fd.Type.TypeParams != nil {
		t.fail(fd, "a method or a generic function")
	}
	ast.Inspect(fd.Body, func(n ast.Node) bool {
		switch x := n.(type) {
		case *ast.FuncLit, *ast.GoStmt, *ast.DeferStmt, *ast.SelectStmt, *ast.SendStmt, *ast.LabeledStmt, *ast.TypeSwitchStmt, *ast.SwitchStmt,
			*ast.RangeStmt, *ast.IncDecStmt, *ast.DeclStmt, *ast.StarExpr, *ast.IndexExpr, *ast.SliceExpr, *ast.CompositeLit, *ast.TypeAssertExpr:
			t.fail(x, "unsupported %T", x)
		case *ast.UnaryExpr:
			if x.Op != token.NOT {
				t.fail(x, "unary %s", x.Op)
			}
		}
		return true
	})
	binds := []string{fmt.Sprintf("(%s : CWorld)", cliWorld)}
	ptypes := []string{"CWorld"}
	for _, f := range fd.Type.Params.List {
		ty := t.leanType(f, t.typeOf(f.Type))
		if len(f.Names) == 0 {
			t.fail(f, "unnamed parameter")
		}
		for _, n := range f.Names {
			if n.Name == "_" {
				t.fail(f, "unnamed parameter")
			}
			t.declare(n, n.Name, ty, t.p.info.Defs[n])
			binds = append(binds, fmt.Sprintf("(%s : %s)", lid(n.Name), ty))
			ptypes = append(ptypes, ty)
		}
	}
	if fd.Type.Results == nil || len(fd.Type.Results.List) != 1 || len(fd.Type.Results.List[0].Names) != 0 {
		t.fail(fd, "a function without exactly one unnamed result")
	}
	t.retTy = t.leanType(fd, t.typeOf(fd.Type.Results.List[0].Type))
	t.cliStreamGuard(fd)
	t.cliOptsGuard(fd)
	body := t.stmts(fd.Body.List, func() string { t.fail(fd, "the function can end without a return"); return "" })
	pos := t.p.fset.Position(fd.Pos())
	ret := fmt.Sprintf("Option (CWorld × %s)", t.retTy)
	text = strings.Join(t.defs, "\n")
	if text != "" {
		text += "\n"
	}
	text += fmt.Sprintf("/-- .%s (%s:%d) -/\ndef %s (E : Env) %s : %s :=\n  %s\n", fd.Name.Name, pos.Filename[strings.LastIndex(pos.Filename, "/")+1:], pos.Line,
		fd.Name.Name, strings.Join(binds, " "), ret, body)
	return fmt.Sprintf("  %s : %s → %s", fd.Name.Name, strings.Join(ptypes, " → "), ret), text
}

// translateCli: the group; `in` is package internal type-checked against package stack (loadUi)
func translateCli(st, in *pkgInfo) string {
	ns := "PP.TrC"
	var sb strings.Builder
	fmt.Fprintf(&sb, "/- GENERATED by /verif/extract (translate_cli.go) from internal/main.go — do not edit. -/\nimport PP.Go.PreludeCli\nset_option linter.unusedVariables false\nnamespace %s\nopen PP PP.Go\n\n", ns)
	var failed, sigs, bodies []string
	group := map[string]bool{}
	for _, f := range trFuncsCli {
		group[f] = true
	}
	for _, f := range trFuncsCli {
		fd := in.funcDecl("", f)
		t := &cliT{p: in, fn: f, group: group, wObj: types.NewVar(token.NoPos, nil, cliWorld, nil)}
		func() {
			defer func() {
				if r := recover(); r != nil {
					if tf, ok := r.(trFail); ok {
						failed = append(failed, fmt.Sprintf("%s: %s", f, tf.msg))
						return
					}
					panic(r)
				}
			}()
			if fd.Body == nil {
				t.fail(fd, "no body")
			}
			sig, text := t.function(fd)
			sigs = append(sigs, sig)
			bodies = append(bodies, text)
		}()
	}
	if len(failed) > 0 {
		fmt.Fprintf(&sb, "/-- The translator could not handle the current source. -/\ntheorem translation_failed : %s = \"\" := rfl\n", leanStr(strings.Join(failed, "; ")))
		fmt.Fprintf(&sb, "\nend %s\n", ns)
		return sb.String()
	}
	sb.WriteString("/-- the translated functions, as callees, and the oracles of the environment -/\nstructure Env where\n")
	for _, o := range trOraclesCli {
		fmt.Fprintf(&sb, "  %s\n", o)
	}
	for _, s := range sigs {
		sb.WriteString(s + "\n")
	}
	sb.WriteString("\n")
	sb.WriteString(strings.Join(bodies, "\n"))
	fmt.Fprintf(&sb, "\nend %s\n", ns)
	return sb.String()
}
