package main

import (
	"fmt"
	"go/ast"
	"go/parser"
	"go/token"
	"html/template"
	"io"
	"path/filepath"
	"sort"
	"strconv"
	"strings"
	"text/template/parse"
)

func webFacts(repo string) {}

// templateFacts parses the HTML template (the constant indexHTML of
// stack/data.go) with html/template itself, lets the contextual escaper rewrite
// the parse trees (one execution on empty data) and emits, per defined
// template, every outputting action with the escaper functions html/template
// appended to it, plus the literal text nodes and the control skeleton.
func templateFacts(repo string) {
	fset := token.NewFileSet()
	f, err := parser.ParseFile(fset, filepath.Join(repo, "stack", "data.go"), nil, 0)
	if err != nil {
		die("parse data.go: %v", err)
	}
	src, found := "", false
	ast.Inspect(f, func(n ast.Node) bool {
		if vs, ok := n.(*ast.ValueSpec); ok && len(vs.Names) == 1 && vs.Names[0].Name == "indexHTML" && len(vs.Values) == 1 {
			if l, ok := vs.Values[0].(*ast.BasicLit); ok && l.Kind == token.STRING {
				if s, err := strconv.Unquote(l.Value); err == nil {
					src, found = s, true
				}
			}
		}
		return true
	})
	if !found {
		die("constant indexHTML not found in stack/data.go")
	}
	// which template package does html.go use, and which functions does it register
	hf, err := parser.ParseFile(fset, filepath.Join(repo, "stack", "html.go"), nil, 0)
	if err != nil {
		die("parse html.go: %v", err)
	}
	var tplImports []string
	for _, im := range hf.Imports {
		p, _ := strconv.Unquote(im.Path.Value)
		if strings.HasSuffix(p, "/template") {
			tplImports = append(tplImports, p)
		}
	}
	var funcNames []string
	ast.Inspect(hf, func(n ast.Node) bool {
		cl, ok := n.(*ast.CompositeLit)
		if !ok {
			return true
		}
		if se, ok := cl.Type.(*ast.SelectorExpr); !ok || se.Sel.Name != "FuncMap" {
			return true
		}
		for _, e := range cl.Elts {
			if kv, ok := e.(*ast.KeyValueExpr); ok {
				if l, ok := kv.Key.(*ast.BasicLit); ok {
					s, _ := strconv.Unquote(l.Value)
					fn := ""
					if id, ok := kv.Value.(*ast.Ident); ok {
						fn = id.Name
					}
					funcNames = append(funcNames, s+"="+fn)
				}
			}
		}
		return true
	})
	sort.Strings(funcNames)
	stub := func(...interface{}) string { return "" }
	fm := template.FuncMap{}
	for _, n := range funcNames {
		fm[strings.SplitN(n, "=", 2)[0]] = stub
	}
	t, err := template.New("t").Funcs(fm).Parse(src)
	if err != nil {
		die("template parse: %v", err)
	}
	_ = t.Execute(io.Discard, map[string]interface{}{}) // the error (if any) is irrelevant: escaping happens first
	var tpls []*template.Template
	for _, tt := range t.Templates() {
		if tt.Tree != nil {
			tpls = append(tpls, tt)
		}
	}
	sort.Slice(tpls, func(i, j int) bool { return tpls[i].Name() < tpls[j].Name() })

	const pfx = "_html_template_"
	var holes, skel, names, texts, longTexts []string
	for _, tt := range tpls {
		names = append(names, tt.Name())
		var walk func(n parse.Node, d int)
		textNo := 0
		line := func(d int, s string) {
			skel = append(skel, fmt.Sprintf("(%s, %d, %s)", leanStr(tt.Name()), d, leanStr(s)))
		}
		walk = func(n parse.Node, d int) {
			switch x := n.(type) {
			case *parse.ListNode:
				if x == nil {
					return
				}
				for _, c := range x.Nodes {
					walk(c, d)
				}
			case *parse.ActionNode:
				if len(x.Pipe.Decl) != 0 {
					line(d, "SET "+x.Pipe.String())
					return
				}
				var plain, esc []string
				for _, c := range x.Pipe.Cmds {
					s := c.String()
					if strings.HasPrefix(s, pfx) {
						esc = append(esc, s)
					} else {
						if len(esc) != 0 {
							die("escaper before a user command in %s", x.Pipe.String())
						}
						plain = append(plain, s)
					}
				}
				p := strings.Join(plain, " | ")
				holes = append(holes, fmt.Sprintf("(%s, %s, [%s])", leanStr(tt.Name()), leanStr(p), quoteAll(esc)))
				line(d, "HOLE "+p)
			case *parse.TextNode:
				line(d, fmt.Sprintf("TEXT %d", textNo))
				if len(x.Text) <= 120 {
					texts = append(texts, fmt.Sprintf("(%s, %d, %s)", leanStr(tt.Name()), textNo, leanBytes(string(x.Text))))
				} else {
					longTexts = append(longTexts, fmt.Sprintf("(%s, %d, %d)", leanStr(tt.Name()), textNo, len(x.Text)))
				}
				textNo++
			case *parse.IfNode:
				line(d, "IF "+x.Pipe.String())
				walk(x.List, d+1)
				if x.ElseList != nil {
					line(d, "ELSE")
					walk(x.ElseList, d+1)
				}
			case *parse.RangeNode:
				line(d, "RANGE "+x.Pipe.String())
				walk(x.List, d+1)
				if x.ElseList != nil {
					line(d, "ELSE")
					walk(x.ElseList, d+1)
				}
			case *parse.WithNode:
				line(d, "WITH "+x.Pipe.String())
				walk(x.List, d+1)
				if x.ElseList != nil {
					line(d, "ELSE")
					walk(x.ElseList, d+1)
				}
			case *parse.TemplateNode:
				p := ""
				if x.Pipe != nil {
					p = x.Pipe.String()
				}
				line(d, "TEMPLATE "+x.Name+" "+p)
			case *parse.CommentNode:
			default:
				line(d, fmt.Sprintf("OTHER %T %s", n, n.String()))
			}
		}
		walk(tt.Tree.Root, 0)
	}
	fmt.Fprintf(&out, "/-- template package(s) imported by stack/html.go -/\ndef htmlTemplateImports : List String := [%s]\n", quoteAll(tplImports))
	fmt.Fprintf(&out, "/-- entries of the template.FuncMap of toHTML, as name=function -/\ndef htmlFuncMap : List String := [%s]\n", quoteAll(funcNames))
	fmt.Fprintf(&out, "/-- templates defined by indexHTML after contextual escaping -/\ndef templateNames : List String := [%s]\n", quoteAll(names))
	fmt.Fprintf(&out, "/-- every outputting action of indexHTML: (template, pipeline as written, escapers appended by html/template) -/\ndef templateHoles : List (String × String × List String) := [\n  %s]\n", strings.Join(holes, ",\n  "))
	fmt.Fprintf(&out, "/-- literal text nodes (after trimming) of at most 120 bytes: (template, ordinal among the template's text nodes, bytes) -/\ndef templateTexts : List (String × Nat × List UInt8) := [\n  %s]\n", strings.Join(texts, ",\n  "))
	fmt.Fprintf(&out, "/-- longer text nodes (style sheet, legend): (template, ordinal, length) -/\ndef templateLongTexts : List (String × Nat × Nat) := [%s]\n", strings.Join(longTexts, ", "))
	fmt.Fprintf(&out, "/-- the escaped parse trees, flattened: (template, depth, node) -/\ndef templateSkeleton : List (String × Nat × String) := [\n  %s]\n\n", strings.Join(skel, ",\n  "))
}
