package main

func webFacts(repo string)      {}
func templateFacts(repo string) {}
