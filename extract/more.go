package main

import (
	"fmt"
	"go/ast"
	"go/constant"
	"go/parser"
	"go/token"
	"html/template"
	"io"
	"path/filepath"
	"sort"
	"strconv"
	"strings"
	"text/template/parse"
)

func webFacts(repo string) {
	ws := load(filepath.Join(repo, "stack", "webstack"), "github.com/maruel/panicparse/v2/stack/webstack")
	h := ws.funcDecl("", "SnapshotHandler")
	constOf := func(e ast.Expr) (string, bool) {
		if tv, ok := ws.info.Types[e]; ok && tv.Value != nil {
			if tv.Value.Kind() == constant.String {
				return constant.StringVal(tv.Value), true
			}
			return tv.Value.ExactString(), true
		}
		return "", false
	}
	selName := func(e ast.Expr) string {
		if s, ok := e.(*ast.SelectorExpr); ok {
			return s.Sel.Name
		}
		if id, ok := e.(*ast.Ident); ok {
			return id.Name
		}
		return ""
	}
	// events of the handler in source order
	var events []string
	method := ""
	defMaxmem := ""
	var simCases []string
	ast.Inspect(h, func(n ast.Node) bool {
		switch v := n.(type) {
		case *ast.BinaryExpr:
			if v.Op == token.NEQ || v.Op == token.EQL || v.Op == token.LSS || v.Op == token.GTR {
				if c, ok := constOf(v.Y); ok {
					x := selName(v.X)
					if x == "Method" {
						method = c
					}
					if x != "" && x != "s" && x != "err" {
						events = append(events, fmt.Sprintf("cmp:%s%s%s", x, v.Op, c))
					}
				}
			}
		case *ast.AssignStmt:
			if len(v.Lhs) == 1 && len(v.Rhs) == 1 {
				if id, ok := v.Lhs[0].(*ast.Ident); ok && id.Name == "maxmem" && v.Tok == token.DEFINE {
					if c, ok := constOf(v.Rhs[0]); ok {
						defMaxmem = c
					}
				}
				if s, ok := v.Lhs[0].(*ast.SelectorExpr); ok {
					if c, ok := constOf(v.Rhs[0]); ok {
						events = append(events, fmt.Sprintf("set:%s=%s", s.Sel.Name, c))
					}
				}
			}
		case *ast.CallExpr:
			switch selName(v.Fun) {
			case "FormValue":
				if c, ok := constOf(v.Args[0]); ok {
					events = append(events, "form:"+c)
				}
			case "Error":
				events = append(events, "error:"+selName(v.Args[2]))
			case "snapshot", "Atoi", "DefaultOpts", "Aggregate", "ToHTML":
				events = append(events, "call:"+selName(v.Fun))
			}
		case *ast.CaseClause:
			var labels []string
			for _, e := range v.List {
				if c, ok := constOf(e); ok {
					labels = append(labels, leanBytes(c))
				}
			}
			target := ""
			for _, st := range v.Body {
				if as, ok := st.(*ast.AssignStmt); ok && len(as.Rhs) == 1 {
					target = selName(as.Rhs[0])
				}
			}
			if len(v.List) > 0 {
				simCases = append(simCases, fmt.Sprintf("([%s], %s)", strings.Join(labels, ", "), leanStr(target)))
			} else {
				events = append(events, "default")
			}
		}
		return true
	})
	if method == "" || defMaxmem == "" {
		die("webstack: method or default maxmem not found")
	}
	// snapshot: the first buffer size and the growth factor
	sn := ws.funcDecl("", "snapshot")
	minBuf, factor := "", ""
	var snEvents []string
	ast.Inspect(sn, func(n ast.Node) bool {
		switch v := n.(type) {
		case *ast.CallExpr:
			if id, ok := v.Fun.(*ast.Ident); ok && id.Name == "make" && len(v.Args) == 2 && minBuf == "" {
				if c, ok := constOf(v.Args[1]); ok {
					minBuf = c
				}
			}
			if selName(v.Fun) == "Stack" || selName(v.Fun) == "ScanSnapshot" {
				snEvents = append(snEvents, "call:"+selName(v.Fun))
			}
		case *ast.BinaryExpr:
			if v.Op == token.MUL {
				if c, ok := constOf(v.Y); ok {
					factor = c
				}
			}
			if v.Op == token.LSS || v.Op == token.GEQ || v.Op == token.GTR {
				var sb strings.Builder
				for _, e := range []ast.Expr{v.X, v.Y} {
					switch x := e.(type) {
					case *ast.Ident:
						sb.WriteString(x.Name)
					case *ast.CallExpr:
						sb.WriteString("len")
					}
					sb.WriteString(" ")
				}
				snEvents = append(snEvents, fmt.Sprintf("cmp:%s:%s", v.Op, strings.TrimSpace(sb.String())))
			}
		case *ast.BranchStmt:
			snEvents = append(snEvents, v.Tok.String())
		}
		return true
	})
	if minBuf == "" || factor == "" {
		die("webstack: snapshot buffer size or growth factor not found")
	}
	fmt.Fprintf(&out, "/-- stack/webstack: SnapshotHandler and snapshot -/\ndef webMethod : List UInt8 := %s\n", leanBytes(method))
	fmt.Fprintf(&out, "def webDefaultMaxmem : Nat := %s\ndef webMinBuf : Nat := %s\ndef webGrowFactor : Nat := %s\n", defMaxmem, minBuf, factor)
	fmt.Fprintf(&out, "/-- the similarity switch: (case labels, constant assigned) in order -/\ndef webSimilarityCases : List (List (List UInt8) × String) := [%s]\n", strings.Join(simCases, ", "))
	fmt.Fprintf(&out, "/-- form values read, constant comparisons, http.Error statuses and calls of SnapshotHandler in source order -/\ndef webHandlerEvents : List String := [%s]\n", quoteAll(events))
	fmt.Fprintf(&out, "/-- comparisons, breaks and calls of snapshot in source order -/\ndef webSnapshotEvents : List String := [%s]\n\n", quoteAll(snEvents))
}

// templateFacts parses the HTML template (the constant indexHTML of
// stack/data.go) with html/template itself, lets the contextual escaper rewrite
// the parse trees (one execution on empty data) and emits, per defined
// template, every outputting action with the escaper functions html/template
// appended to it, plus the literal text nodes and the control skeleton.
func templateFacts(repo string) {
	fset := token.NewFileSet()
	f, err := parser.ParseFile(fset, filepath.Join(repo, "stack", "data.go"), nil, 0)
	if err != nil {
		die("parse data.go: %v", err)
	}
	src, found := "", false
	ast.Inspect(f, func(n ast.Node) bool {
		if vs, ok := n.(*ast.ValueSpec); ok && len(vs.Names) == 1 && vs.Names[0].Name == "indexHTML" && len(vs.Values) == 1 {
			if l, ok := vs.Values[0].(*ast.BasicLit); ok && l.Kind == token.STRING {
				if s, err := strconv.Unquote(l.Value); err == nil {
					src, found = s, true
				}
			}
		}
		return true
	})
	if !found {
		die("constant indexHTML not found in stack/data.go")
	}
	// which template package does html.go use, and which functions does it register
	hf, err := parser.ParseFile(fset, filepath.Join(repo, "stack", "html.go"), nil, 0)
	if err != nil {
		die("parse html.go: %v", err)
	}
	var tplImports []string
	for _, im := range hf.Imports {
		p, _ := strconv.Unquote(im.Path.Value)
		if strings.HasSuffix(p, "/template") {
			tplImports = append(tplImports, p)
		}
	}
	var funcNames []string
	ast.Inspect(hf, func(n ast.Node) bool {
		cl, ok := n.(*ast.CompositeLit)
		if !ok {
			return true
		}
		if se, ok := cl.Type.(*ast.SelectorExpr); !ok || se.Sel.Name != "FuncMap" {
			return true
		}
		for _, e := range cl.Elts {
			if kv, ok := e.(*ast.KeyValueExpr); ok {
				if l, ok := kv.Key.(*ast.BasicLit); ok {
					s, _ := strconv.Unquote(l.Value)
					fn := ""
					if id, ok := kv.Value.(*ast.Ident); ok {
						fn = id.Name
					}
					funcNames = append(funcNames, s+"="+fn)
				}
			}
		}
		return true
	})
	sort.Strings(funcNames)
	stub := func(...interface{}) string { return "" }
	fm := template.FuncMap{}
	for _, n := range funcNames {
		fm[strings.SplitN(n, "=", 2)[0]] = stub
	}
	t, err := template.New("t").Funcs(fm).Parse(src)
	if err != nil {
		die("template parse: %v", err)
	}
	_ = t.Execute(io.Discard, map[string]interface{}{}) // the error (if any) is irrelevant: escaping happens first
	var tpls []*template.Template
	for _, tt := range t.Templates() {
		if tt.Tree != nil {
			tpls = append(tpls, tt)
		}
	}
	sort.Slice(tpls, func(i, j int) bool { return tpls[i].Name() < tpls[j].Name() })

	const pfx = "_html_template_"
	var holes, skel, names, texts, longTexts, longBytes []string
	for _, tt := range tpls {
		names = append(names, tt.Name())
		var walk func(n parse.Node, d int)
		textNo := 0
		line := func(d int, s string) {
			skel = append(skel, fmt.Sprintf("(%s, %d, %s)", leanStr(tt.Name()), d, leanStr(s)))
		}
		walk = func(n parse.Node, d int) {
			switch x := n.(type) {
			case *parse.ListNode:
				if x == nil {
					return
				}
				for _, c := range x.Nodes {
					walk(c, d)
				}
			case *parse.ActionNode:
				if len(x.Pipe.Decl) != 0 {
					line(d, "SET "+x.Pipe.String())
					return
				}
				var plain, esc []string
				for _, c := range x.Pipe.Cmds {
					s := c.String()
					if strings.HasPrefix(s, pfx) {
						esc = append(esc, s)
					} else {
						if len(esc) != 0 {
							die("escaper before a user command in %s", x.Pipe.String())
						}
						plain = append(plain, s)
					}
				}
				p := strings.Join(plain, " | ")
				holes = append(holes, fmt.Sprintf("(%s, %s, [%s])", leanStr(tt.Name()), leanStr(p), quoteAll(esc)))
				line(d, "HOLE "+p)
			case *parse.TextNode:
				line(d, fmt.Sprintf("TEXT %d", textNo))
				if len(x.Text) <= 120 {
					texts = append(texts, fmt.Sprintf("(%s, %d, %s)", leanStr(tt.Name()), textNo, leanBytes(string(x.Text))))
				} else {
					longTexts = append(longTexts, fmt.Sprintf("(%s, %d, %d)", leanStr(tt.Name()), textNo, len(x.Text)))
					var chunks []string
					for i := 0; i < len(x.Text); i += 64 {
						j := i + 64
						if j > len(x.Text) {
							j = len(x.Text)
						}
						chunks = append(chunks, leanBytes(string(x.Text[i:j])))
					}
					longBytes = append(longBytes, fmt.Sprintf("(%s, %d, %s)", leanStr(tt.Name()), textNo, strings.Join(chunks, " ++\n    ")))
				}
				textNo++
			case *parse.IfNode:
				line(d, "IF "+x.Pipe.String())
				walk(x.List, d+1)
				if x.ElseList != nil {
					line(d, "ELSE")
					walk(x.ElseList, d+1)
				}
			case *parse.RangeNode:
				line(d, "RANGE "+x.Pipe.String())
				walk(x.List, d+1)
				if x.ElseList != nil {
					line(d, "ELSE")
					walk(x.ElseList, d+1)
				}
			case *parse.WithNode:
				line(d, "WITH "+x.Pipe.String())
				walk(x.List, d+1)
				if x.ElseList != nil {
					line(d, "ELSE")
					walk(x.ElseList, d+1)
				}
			case *parse.TemplateNode:
				p := ""
				if x.Pipe != nil {
					p = x.Pipe.String()
				}
				line(d, "TEMPLATE "+x.Name+" "+p)
			case *parse.CommentNode:
			default:
				line(d, fmt.Sprintf("OTHER %T %s", n, n.String()))
			}
		}
		walk(tt.Tree.Root, 0)
	}
	fmt.Fprintf(&out, "/-- template package(s) imported by stack/html.go -/\ndef htmlTemplateImports : List String := [%s]\n", quoteAll(tplImports))
	fmt.Fprintf(&out, "/-- entries of the template.FuncMap of toHTML, as name=function -/\ndef htmlFuncMap : List String := [%s]\n", quoteAll(funcNames))
	fmt.Fprintf(&out, "/-- templates defined by indexHTML after contextual escaping -/\ndef templateNames : List String := [%s]\n", quoteAll(names))
	fmt.Fprintf(&out, "/-- every outputting action of indexHTML: (template, pipeline as written, escapers appended by html/template) -/\ndef templateHoles : List (String × String × List String) := [\n  %s]\n", strings.Join(holes, ",\n  "))
	fmt.Fprintf(&out, "/-- literal text nodes (after trimming) of at most 120 bytes: (template, ordinal among the template's text nodes, bytes) -/\ndef templateTexts : List (String × Nat × List UInt8) := [\n  %s]\n", strings.Join(texts, ",\n  "))
	fmt.Fprintf(&out, "/-- longer text nodes (style sheet, legend): (template, ordinal, length) -/\ndef templateLongTexts : List (String × Nat × Nat) := [%s]\n", strings.Join(longTexts, ", "))
	fmt.Fprintf(&out, "/-- the bytes of the longer text nodes: (template, ordinal, bytes) -/\ndef templateLongTextBytes : List (String × Nat × List UInt8) := [\n  %s]\n", strings.Join(longBytes, ",\n  "))
	fmt.Fprintf(&out, "/-- the escaped parse trees, flattened: (template, depth, node) -/\ndef templateSkeleton : List (String × Nat × String) := [\n  %s]\n\n", strings.Join(skel, ",\n  "))
}
