// translate_names.go — the group `Names`: nameArguments of stack/stack.go (see the second comment block, above
// nmStmts), (*Args).walk WITH ITS POINTERS (the visitor of nameArguments keeps the *Arg it is given) and the methods
// Len/Swap/Less of the sort helper uint64Slice.
//
// Generated file: lean/PP/TranslatedNames.lean (namespace PP.TrN, its own Env); run-time support:
// lean/PP/Go/PreludeNames.lean; agreement theorems: lean/PP/Tie/TranslatedNames.lean.
//
// This group has its OWN whitelist translator (type nmT); it shares only the spelling helpers (lid, trFail) and
// pkgInfo.funcDecl with the other groups: no hook in translate.go, one line in main.go.  Everything not listed
// here makes the translation of the group fail by name (`translation_failed`).  A Go function is a non-recursive
// `def f (E : Env) args : Option τ` (`none` = a Go run-time panic); calls of the group's functions go through `E`.
//
// What is translated, and what each construct ASSUMES (sound or refuse):
//
//   - (*Args).walk(visitor func(*Arg)).  The receiver `a *Args` is ASSUMED non-nil and is the VALUE of `*a` (walk is
//     only called on addresses of fields / variables); it is checked that walk assigns nothing but its own locals
//     (`i`, `arg`), so the value cannot change during the call unless the VISITOR changes it: the translation is
//     valid for visitors that do not assign anything reachable from `*a` during the walk (the visitor of
//     nameArguments only writes a captured map; the group Aug makes the same assumption).  Under that assumption
//     walk is DEFUNCTIONALISED: the translated `walk` returns the list of the pointers the visitor is called on, in
//     call order.  A pointer is a PATH relative to `a` (PreludeNames): `arg := &a.Values[i]` is `addrValuesIdx a i`
//     (= `[i]`, `none` when out of range), a read `arg.F` reads `derefArgs a arg` through `ofArg`,
//     `visitor(arg)` appends `arg`, `arg.Fields.walk(visitor)` (same visitor, checked) appends what `E.walk` returns
//     for the value of `arg.Fields`, re-rooted below `arg` (`reroot`).
//     `for i := range a.Values` is `forIdx` over the value of `a.Values` (evaluated once, as in Go).
//     Statement forms accepted in the loop body: `x := &RECV.Values[IDX]`, `if x.BOOLFIELD { S } else { S }` with S one
//     of `x.Fields.walk(VISITOR)` / `VISITOR(x)`.  Anything else is refused.
//   - uint64Slice (checked: `type uint64Slice []uint64`) is `List Nat`; the receiver `a uint64Slice` is a value; `int`
//     parameters are `Int` (nothing is assumed about their sign: a negative index is `none`).
//     `return len(a)` → `some a.length`; `return a[i] < a[j]` → both index operations (left to right; both can only
//     panic, so the order does not matter) then `decide (x < y)` on Nat = Go's `<` on uint64;
//     `a[i], a[j] = a[j], a[i]` → `swapU64` after evaluating `a[j]`, `a[i]`: Go evaluates the index operands and the
//     right-hand sides first, then stores left to right.  The stores go to the backing array the caller's slice
//     shares: `Swap` RETURNS the new content (a caller must write it back to every slice sharing the array).
//   - Names: Go identifiers keep their names (lid); refused if one starts with `_` or collides with a name the
//     generated terms use (nmReserved).
package main

import (
	"fmt"
	"go/ast"
	"go/printer"
	"go/token"
	"go/types"
	"strings"
)

var nmReserved = map[string]bool{"E": true, "Env": true, "walk": true, "some": true, "none": true, "ofArg": true,
	"forIdx": true, "reroot": true, "derefArgs": true, "addrValuesIdx": true, "idxU64": true, "swapU64": true,
	"len": true, "swap": true, "less": true, "Path": true, "Args": true, "Arg": true, "decide": true}

type nmT struct {
	p  *pkgInfo
	fn string
}

func (t *nmT) fail(n ast.Node, f string, a ...interface{}) {
	pos := ""
	if n != nil {
		pos = fmt.Sprintf(" (line %d)", t.p.fset.Position(n.Pos()).Line)
	}
	panic(trFail{t.fn + ": " + fmt.Sprintf(f, a...) + pos})
}

func (t *nmT) name(id *ast.Ident) string {
	if strings.HasPrefix(id.Name, "_") || nmReserved[id.Name] {
		t.fail(id, "identifier %s is reserved", id.Name)
	}
	return lid(id.Name)
}

// isVar: e is an identifier denoting exactly the variable obj
func (t *nmT) isVar(e ast.Expr, obj types.Object) bool {
	id, ok := e.(*ast.Ident)
	return ok && obj != nil && t.p.info.Uses[id] == obj
}

func nmNamedIn(ty types.Type, name string) bool {
	n, ok := ty.(*types.Named)
	return ok && n.Obj().Name() == name && n.Obj().Pkg() != nil && n.Obj().Pkg().Name() == "stack"
}

// field: e is X.F with F a field (not a method) named f; returns X
func (t *nmT) field(e ast.Expr, f string) ast.Expr {
	sel, ok := e.(*ast.SelectorExpr)
	if !ok || sel.Sel.Name != f {
		return nil
	}
	if s := t.p.info.Selections[sel]; s == nil || s.Kind() != types.FieldVal || len(s.Index()) != 1 {
		return nil // promoted or not a field
	}
	return sel.X
}

func (t *nmT) walk(fd *ast.FuncDecl) string {
	info := t.p.info
	if fd.Recv == nil || len(fd.Recv.List) != 1 || len(fd.Recv.List[0].Names) != 1 || fd.Type.Results != nil ||
		len(fd.Type.Params.List) != 1 || len(fd.Type.Params.List[0].Names) != 1 {
		t.fail(fd, "signature")
	}
	recvId, visId := fd.Recv.List[0].Names[0], fd.Type.Params.List[0].Names[0]
	recv, vis := info.Defs[recvId], info.Defs[visId]
	if pt, ok := recv.Type().(*types.Pointer); !ok || !nmNamedIn(pt.Elem(), "Args") {
		t.fail(fd, "receiver type %s", recv.Type())
	}
	if sg, ok := vis.Type().(*types.Signature); !ok || sg.Params().Len() != 1 || sg.Results().Len() != 0 || sg.Variadic() {
		t.fail(fd, "visitor type %s", vis.Type())
	} else if pt, ok := sg.Params().At(0).Type().(*types.Pointer); !ok || !nmNamedIn(pt.Elem(), "Arg") {
		t.fail(fd, "visitor type %s", vis.Type())
	}
	self := info.Defs[fd.Name]
	a := t.name(recvId)
	t.name(visId)
	if len(fd.Body.List) != 1 {
		t.fail(fd.Body, "body is not a single range statement")
	}
	rs, ok := fd.Body.List[0].(*ast.RangeStmt)
	if !ok || rs.Tok != token.DEFINE || rs.Value != nil || rs.Key == nil {
		t.fail(fd.Body, "body is not `for i := range …`")
	}
	iId, ok := rs.Key.(*ast.Ident)
	if !ok || iId.Name == "_" {
		t.fail(rs, "range key")
	}
	iObj := info.Defs[iId]
	i := t.name(iId)
	if i == a {
		t.fail(rs, "the index hides the receiver")
	}
	// range over RECV.Values, a []Arg
	if x := t.field(rs.X, "Values"); x == nil || !t.isVar(x, recv) {
		t.fail(rs.X, "range over %s", types.ExprString(rs.X))
	}
	if sl, ok := info.TypeOf(rs.X).(*types.Slice); !ok || !nmNamedIn(sl.Elem(), "Arg") {
		t.fail(rs.X, "type of %s", types.ExprString(rs.X))
	}
	if len(rs.Body.List) != 2 {
		t.fail(rs.Body, "loop body: two statements expected")
	}
	// arg := &RECV.Values[i]
	as, ok := rs.Body.List[0].(*ast.AssignStmt)
	if !ok || as.Tok != token.DEFINE || len(as.Lhs) != 1 || len(as.Rhs) != 1 {
		t.fail(rs.Body.List[0], "`x := &a.Values[i]` expected")
	}
	argId, ok := as.Lhs[0].(*ast.Ident)
	if !ok || argId.Name == "_" {
		t.fail(as, "left-hand side")
	}
	argObj := info.Defs[argId]
	arg := t.name(argId)
	if arg == a || arg == i {
		t.fail(as, "%s hides a variable in scope", arg)
	}
	un, ok := as.Rhs[0].(*ast.UnaryExpr)
	if !ok || un.Op != token.AND {
		t.fail(as, "`x := &a.Values[i]` expected")
	}
	ix, ok := un.X.(*ast.IndexExpr)
	if !ok || !t.isVar(ix.Index, iObj) {
		t.fail(as, "`x := &a.Values[i]` expected")
	}
	if x := t.field(ix.X, "Values"); x == nil || !t.isVar(x, recv) {
		t.fail(as, "`x := &a.Values[i]` expected")
	}
	// if arg.BOOL { … } else { … }
	is, ok := rs.Body.List[1].(*ast.IfStmt)
	if !ok || is.Init != nil || is.Else == nil {
		t.fail(rs.Body.List[1], "if/else expected")
	}
	cs, ok := is.Cond.(*ast.SelectorExpr)
	if !ok || t.field(cs, cs.Sel.Name) == nil || !t.isVar(cs.X, argObj) || cs.Sel.Name != "IsAggregate" {
		t.fail(is.Cond, "condition %s", types.ExprString(is.Cond))
	}
	if b, ok := info.TypeOf(cs).Underlying().(*types.Basic); !ok || b.Kind() != types.Bool {
		t.fail(is.Cond, "condition is not a bool field")
	}
	branch := func(b ast.Stmt) string {
		bl, ok := b.(*ast.BlockStmt)
		if !ok || len(bl.List) != 1 {
			t.fail(b, "branch: one call expected")
		}
		es, ok := bl.List[0].(*ast.ExprStmt)
		if !ok {
			t.fail(b, "branch: one call expected")
		}
		c, ok := es.X.(*ast.CallExpr)
		if !ok || len(c.Args) != 1 || c.Ellipsis.IsValid() {
			t.fail(b, "branch: one call expected")
		}
		// VISITOR(arg)
		if t.isVar(c.Fun, vis) && t.isVar(c.Args[0], argObj) {
			return fmt.Sprintf("some (_acc ++ [%s])", arg)
		}
		// arg.Fields.walk(VISITOR): this very method, on the Args field of *arg, with the same visitor
		if sel, ok := c.Fun.(*ast.SelectorExpr); ok && info.Uses[sel.Sel] == self && t.isVar(c.Args[0], vis) {
			if x := t.field(sel.X, "Fields"); x != nil && t.isVar(x, argObj) && nmNamedIn(info.TypeOf(sel.X), "Args") {
				return fmt.Sprintf("(match E.walk (ofArg _v).fields with\n    | none => none\n    | some _t => some (_acc ++ reroot %s _t))", arg)
			}
		}
		t.fail(b, "branch: %s", types.ExprString(c))
		return ""
	}
	th, el := branch(is.Body), branch(is.Else)
	// walk assigns nothing but its own locals: by construction of the whitelist above (two := and no other statement)
	var sb strings.Builder
	fmt.Fprintf(&sb, "def walk_loop1 (E : Env) (%s : Args) (%s : Nat) (_x : Arg) (_acc : List Path) : Option (List Path) :=\n", a, i)
	fmt.Fprintf(&sb, "  match addrValuesIdx %s %s with\n  | none => none\n  | some %s =>\n", a, i, arg)
	fmt.Fprintf(&sb, "  match derefArgs %s %s with\n  | none => none\n  | some _v =>\n", a, arg)
	fmt.Fprintf(&sb, "  if (ofArg _v).isAggregate then\n    %s\n  else\n    %s\n\n", th, el)
	fmt.Fprintf(&sb, "/-- Args.walk (stack.go:%d): the pointers the visitor is called on, in order -/\n", t.p.fset.Position(fd.Pos()).Line)
	fmt.Fprintf(&sb, "def walk (E : Env) (%s : Args) : Option (List Path) :=\n  forIdx (fun %s _x => walk_loop1 E %s %s _x) %s.values 0 []\n\n", a, i, a, i, a)
	return sb.String()
}

// the methods of uint64Slice
func (t *nmT) u64method(name string) string {
	info := t.p.info
	fd := t.p.funcDecl("uint64Slice", name)
	if fd == nil {
		t.fail(nil, "not found")
	}
	if fd.Recv == nil || len(fd.Recv.List) != 1 || len(fd.Recv.List[0].Names) != 1 {
		t.fail(fd, "receiver")
	}
	recvId := fd.Recv.List[0].Names[0]
	recv := info.Defs[recvId]
	nt, ok := recv.Type().(*types.Named)
	if !ok || nt.Obj().Name() != "uint64Slice" {
		t.fail(fd, "receiver type %s", recv.Type())
	}
	if sl, ok := nt.Underlying().(*types.Slice); !ok || sl.Elem() != types.Typ[types.Uint64] {
		t.fail(fd, "uint64Slice is not []uint64")
	}
	a := t.name(recvId)
	var params []types.Object
	var pn []string
	for _, f := range fd.Type.Params.List {
		for _, id := range f.Names {
			o := info.Defs[id]
			if o.Type() != types.Typ[types.Int] {
				t.fail(fd, "parameter %s is not an int", id.Name)
			}
			n := t.name(id)
			if n == a {
				t.fail(fd, "parameter hides the receiver")
			}
			for _, m := range pn {
				if m == n {
					t.fail(fd, "duplicate parameter")
				}
			}
			params = append(params, o)
			pn = append(pn, n)
		}
	}
	res := 0
	if fd.Type.Results != nil {
		res = len(fd.Type.Results.List)
	}
	if len(fd.Body.List) != 1 {
		t.fail(fd.Body, "one statement expected")
	}
	// a[p] with p a parameter: returns the Lean name of p
	idx := func(e ast.Expr) string {
		ix, ok := e.(*ast.IndexExpr)
		if !ok || !t.isVar(ix.X, recv) {
			t.fail(e, "%s: `%s[param]` expected", types.ExprString(e), a)
		}
		for k, o := range params {
			if t.isVar(ix.Index, o) {
				return pn[k]
			}
		}
		t.fail(e, "%s: `%s[param]` expected", types.ExprString(e), a)
		return ""
	}
	hdr := func(lname, ret string) string {
		s := fmt.Sprintf("/-- uint64Slice.%s (stack.go:%d) -/\ndef %s (E : Env) (%s : List Nat)", name, t.p.fset.Position(fd.Pos()).Line, lname, a)
		for _, n := range pn {
			s += fmt.Sprintf(" (%s : Int)", n)
		}
		return s + " : Option (" + ret + ") :=\n"
	}
	switch s := fd.Body.List[0].(type) {
	case *ast.ReturnStmt:
		if res != 1 || len(s.Results) != 1 {
			t.fail(s, "return")
		}
		rt := info.TypeOf(fd.Type.Results.List[0].Type)
		switch x := s.Results[0].(type) {
		case *ast.CallExpr: // len(a)
			if id, ok := x.Fun.(*ast.Ident); ok && info.Uses[id] == types.Universe.Lookup("len") && len(x.Args) == 1 &&
				t.isVar(x.Args[0], recv) && len(params) == 0 && rt == types.Typ[types.Int] && name == "Len" {
				return hdr("len", "Nat") + fmt.Sprintf("  some %s.length\n\n", a)
			}
		case *ast.BinaryExpr: // a[i] < a[j]
			if x.Op == token.LSS && rt == types.Typ[types.Bool] && name == "Less" {
				l, r := idx(x.X), idx(x.Y)
				return hdr("less", "Bool") + fmt.Sprintf("  match idxU64 %s %s with\n  | none => none\n  | some _l =>\n  match idxU64 %s %s with\n  | none => none\n  | some _r =>\n  some (decide (_l < _r))\n\n", a, l, a, r)
			}
		}
		t.fail(s, "return %s", types.ExprString(s.Results[0]))
	case *ast.AssignStmt: // a[i], a[j] = a[j], a[i]
		if res != 0 || s.Tok != token.ASSIGN || len(s.Lhs) != 2 || len(s.Rhs) != 2 || name != "Swap" {
			t.fail(s, "assignment")
		}
		l0, l1, r0, r1 := idx(s.Lhs[0]), idx(s.Lhs[1]), idx(s.Rhs[0]), idx(s.Rhs[1])
		return hdr("swap", "List Nat") + fmt.Sprintf("  match idxU64 %s %s with\n  | none => none\n  | some _r0 =>\n  match idxU64 %s %s with\n  | none => none\n  | some _r1 =>\n  swapU64 %s %s %s _r0 _r1\n\n", a, r0, a, r1, a, l0, l1)
	}
	t.fail(fd.Body, "statement form")
	return ""
}

// ---------------------------------------------------------------------------------------------------------------
// nameArguments.
//
// The function is accepted ONLY in the statement forms listed in nmStmts, in this order (a whitelist keyed on the
// printed text of each statement, comments and layout ignored); every identifier in it is checked to denote what
// the row assumes (nmCheckIdents, nmExprTypes).  Anything else is refused by name with the offending statement.
// What each row means and ASSUMES:
//
//   - `goroutines []*Goroutine` is `List Goroutine` (the model's structure; `g.Stack` is the field of the embedded
//     Signature: checked).  ASSUMED, as by the model and the older groups: the pointers are non-nil and pairwise
//     distinct, and no two `Values` slices at different positions (calls, aggregates) share a backing array.
//     The function returns nothing; what it changes through pointers is `goroutines`: the translated function
//     returns the goroutine list afterwards.
//   - `type object struct{ args []*Arg; inPrimary bool }` is `Obj` (PreludeNames); `map[uint64]object` is `ObjMap`
//     (entries with distinct keys; `m[k]` = `mapGet`, the zero value for a missing key; `m[k] = v` = `mapSet`).
//   - A `*Arg` is an `APtr`: `i :: j :: p` = the pointer `p` (a path, see walk) relative to
//     `goroutines[i].Stack.Calls[j].Args`.  `for _, c := range g.Stack.Calls { c.Args.walk(visit) }` walks a COPY
//     `c` of the j-th Call; the copy's `Args.Values` slice header shares its backing array with
//     `goroutines[i].Stack.Calls[j].Args.Values` (a struct copy copies slice headers, not arrays), and nothing in
//     nameArguments or walk appends to, re-slices or assigns a `Values` slice (checked: the only assignments are to
//     locals, to `objects[...]` and to `arg.Name`), so `&c.Args.Values[i]…` IS `&goroutines[i]…Values[i]…` and stays
//     valid: reads and writes through it go to the current `goroutines` (`ptrGet`, `ptrSetName`).
//   - The closure `visit` captures `objects` and `primary` by reference; it becomes `nameArguments_visit` with both
//     as parameters and the new `objects` as result.  `primary` is assigned once at the top of every iteration of
//     the goroutine loop (`primary = i == 0`) and read only by the closure, which is only called inside that
//     iteration (through walk): so it is a `let` of the iteration (checked: these are all its uses).  walk is
//     defunctionalised (see above): the visitor does not assign anything reachable from the walked Args.
//     `append(objects[v].args, arg)` on a slice that lives only in the map entry being replaced: no other alias of
//     it exists (the old entry is overwritten), so list semantics is Go's.
//   - `for k, obj := range objects` / `for k := range objects`: the entries in the order the oracle `E.mapOrder`
//     gives (any permutation: hypothesis of the tie theorem); the bodies only append to `order`.
//   - `make(uint64Slice, 0, n)` is `[]` (the capacity is not observable here); `sort.Sort(order)` is
//     `goSortSort E.less` (PreludeNames: TRUSTED correct sort; uses the translated Less of this group).
//   - `nextID` is an `int` counted up from 1: `Nat`, ASSUMES no overflow (bounded by the number of arguments).
//     `fmt.Sprintf("#%%d", nextID)` is `goSprintfHashD` ('#' then the decimal digits).
//   - `arg.Name = s` through a collected pointer is `ptrSetName` (`none` unless it points to a non-aggregate Arg:
//     the tie theorem shows it never is `none`).  `continue` in the last loop skips the rest of the iteration.

var nmStmts = []string{
	"type object struct { args []*Arg inPrimary bool }",
	"objects := map[uint64]object{}",
	"primary := true",
	"visit := func(arg *Arg) { if arg.IsPtr { objects[arg.Value] = object{ args: append(objects[arg.Value].args, arg), inPrimary: objects[arg.Value].inPrimary || primary, } } }",
	"for i, g := range goroutines { primary = i == 0 for _, c := range g.Stack.Calls { c.Args.walk(visit) } }",
	"order := make(uint64Slice, 0, len(objects)/2)",
	"for k, obj := range objects { if len(obj.args) > 1 && obj.inPrimary { order = append(order, k) } }",
	"sort.Sort(order)",
	"nextID := 1",
	"for _, k := range order { for _, arg := range objects[k].args { arg.Name = fmt.Sprintf(\"#%d\", nextID) } nextID++ }",
	"order = make(uint64Slice, 0, len(objects))",
	"for k := range objects { order = append(order, k) }",
	"sort.Sort(order)",
	"for _, k := range order { if objects[k].inPrimary { continue } for _, arg := range objects[k].args { arg.Name = fmt.Sprintf(\"#%d\", nextID) } nextID++ }",
}

// expressions of the body whose type the rows rely on
var nmExprTypes = map[string]string{
	"goroutines": "[]*stack.Goroutine", "g": "*stack.Goroutine", "g.Stack.Calls": "[]stack.Call", "c": "stack.Call",
	"c.Args": "stack.Args", "arg": "*stack.Arg", "arg.IsPtr": "bool", "arg.Value": "uint64", "arg.Name": "string",
	"objects": "map[uint64]stack.object", "objects[arg.Value].args": "[]*stack.Arg", "objects[k].args": "[]*stack.Arg",
	"obj.args": "[]*stack.Arg", "obj.inPrimary": "bool", "objects[k].inPrimary": "bool", "order": "stack.uint64Slice",
	"nextID": "int", "primary": "bool", "i": "int", "k": "uint64",
}

// nmNorm: comments (to the end of the line; no row contains "//") and layout are ignored
func nmNorm(s string) string {
	var lines []string
	for _, l := range strings.Split(s, "\n") {
		if i := strings.Index(l, "//"); i >= 0 {
			l = l[:i]
		}
		lines = append(lines, l)
	}
	return strings.Join(strings.Fields(strings.Join(lines, " ")), " ")
}

func (t *nmT) nameArguments(fd *ast.FuncDecl, walkFd *ast.FuncDecl) string {
	info := t.p.info
	ps := fd.Type.Params.List
	if fd.Recv != nil || fd.Type.Results != nil || len(ps) != 1 || len(ps[0].Names) != 1 || ps[0].Names[0].Name != "goroutines" {
		t.fail(fd, "signature")
	}
	if len(fd.Body.List) != len(nmStmts) {
		t.fail(fd.Body, "%d statements, %d expected", len(fd.Body.List), len(nmStmts))
	}
	for k, s := range fd.Body.List {
		var sb strings.Builder
		if err := printer.Fprint(&sb, t.p.fset, s); err != nil {
			t.fail(s, "print: %v", err)
		}
		got := nmNorm(sb.String())
		// a composite literal may be printed with or without the trailing comma
		if got != nmNorm(nmStmts[k]) {
			t.fail(s, "statement %d is not in the whitelist: %s", k, got)
		}
	}
	// what every identifier denotes
	inside := func(o types.Object) bool { return o != nil && o.Pos() >= fd.Pos() && o.Pos() <= fd.End() }
	ast.Inspect(fd.Body, func(n ast.Node) bool {
		switch x := n.(type) {
		case *ast.Ident:
			o := info.Uses[x]
			if o == nil {
				return true // a definition or a field key of a composite literal
			}
			switch o := o.(type) {
			case *types.Builtin, *types.Nil:
				if types.Universe.Lookup(x.Name) != o {
					t.fail(x, "%s is not the builtin", x.Name)
				}
			case *types.Const:
				if types.Universe.Lookup(x.Name) != o {
					t.fail(x, "constant %s", x.Name)
				}
			case *types.PkgName:
				if p := o.Imported().Path(); p != "sort" && p != "fmt" {
					t.fail(x, "package %s", p)
				}
			case *types.TypeName:
				if !(inside(o) && x.Name == "object") && !(o.Parent() == t.p.pkg.Scope() && (x.Name == "Arg" || x.Name == "uint64Slice")) &&
					types.Universe.Lookup(x.Name) != o {
					t.fail(x, "type %s", x.Name)
				}
			case *types.Var:
				if !o.IsField() && !inside(o) {
					t.fail(x, "variable %s is not local", x.Name)
				}
			case *types.Func:
				switch {
				case o == info.Defs[walkFd.Name]:
				case o.Pkg() != nil && o.Pkg().Path() == "sort" && o.Name() == "Sort":
				case o.Pkg() != nil && o.Pkg().Path() == "fmt" && o.Name() == "Sprintf":
				default:
					t.fail(x, "function %s", o.FullName())
				}
			default:
				t.fail(x, "identifier %s", x.Name)
			}
		case ast.Expr:
			if want, ok := nmExprTypes[types.ExprString(x)]; ok {
				if tv, ok := info.Types[x]; ok && !tv.IsType() {
					got := types.TypeString(tv.Type, func(p *types.Package) string { return p.Name() })
					if got != want {
						t.fail(x, "%s has type %s, %s expected", types.ExprString(x), got, want)
					}
				}
			}
		}
		return true
	})
	// g.Stack is the field Stack of the embedded Signature; Call.Args / Arg fields are direct fields
	ast.Inspect(fd.Body, func(n ast.Node) bool {
		if sel, ok := n.(*ast.SelectorExpr); ok {
			if s := info.Selections[sel]; s != nil && s.Kind() == types.FieldVal {
				switch types.ExprString(sel) {
				case "g.Stack":
					st, _ := s.Recv().(*types.Pointer).Elem().Underlying().(*types.Struct)
					if len(s.Index()) != 2 || st == nil || st.Field(s.Index()[0]).Name() != "Signature" || !st.Field(s.Index()[0]).Embedded() {
						t.fail(sel, "g.Stack is not Signature.Stack")
					}
				default:
					if len(s.Index()) != 1 {
						t.fail(sel, "%s is a promoted field", types.ExprString(sel))
					}
				}
			}
		}
		return true
	})
	// uint64Slice is what the group translated; Goroutine/Call/Args are the package's structs (by name: nmExprTypes)
	text := fmt.Sprintf(nmNameArgumentsLean, t.p.fset.Position(fd.Pos()).Line)
	return strings.ReplaceAll(text, "‹BT›", "`")
}

const nmNameArgumentsLean = `/-- the closure ‹BT›visit‹BT› of nameArguments; captured: objects, primary; assigned: objects -/
def nameArguments_visit (E : Env) (goroutines : List Goroutine) (primary : Bool) (arg : APtr) (objects : ObjMap) : Option ObjMap :=
  match ptrGet goroutines arg with
  | none => none
  | some _v =>
  if (ofArg _v).isPtr then
    some (mapSet objects (ofArg _v).value { args := (mapGet objects (ofArg _v).value).args ++ [arg], inPrimary := (mapGet objects (ofArg _v).value).inPrimary || primary })
  else
    some objects

def nameArguments_loop2 (E : Env) (goroutines : List Goroutine) (primary : Bool) (i : Nat) (_j : Nat) (c : Call) (objects : ObjMap) : Option ObjMap :=
  match E.walk c.args with
  | none => none
  | some _ps =>
  forIdx (fun _ _p objects => nameArguments_visit E goroutines primary (i :: _j :: _p) objects) _ps 0 objects

def nameArguments_loop1 (E : Env) (goroutines : List Goroutine) (i : Nat) (g : Goroutine) (objects : ObjMap) : Option ObjMap :=
  let primary : Bool := decide (i = 0)
  forIdx (fun _j c objects => nameArguments_loop2 E goroutines primary i _j c objects) g.sig.stack.calls 0 objects

def nameArguments_loop3 (E : Env) (k : Nat) (obj : Obj) (order : List Nat) : Option (List Nat) :=
  if decide (obj.args.length > 1) && obj.inPrimary then
    some (order ++ [k])
  else
    some order

def nameArguments_loop5 (E : Env) (nextID : Nat) (arg : APtr) (goroutines : List Goroutine) : Option (List Goroutine) :=
  ptrSetName goroutines arg (goSprintfHashD nextID)

def nameArguments_loop4 (E : Env) (objects : ObjMap) (k : Nat) (_st : List Goroutine × Nat) : Option (List Goroutine × Nat) :=
  match _st with
  | (goroutines, nextID) =>
  match forIdx (fun _ arg goroutines => nameArguments_loop5 E nextID arg goroutines) (mapGet objects k).args 0 goroutines with
  | none => none
  | some goroutines =>
  some (goroutines, nextID + 1)

def nameArguments_loop6 (E : Env) (k : Nat) (order : List Nat) : Option (List Nat) :=
  some (order ++ [k])

def nameArguments_loop8 (E : Env) (nextID : Nat) (arg : APtr) (goroutines : List Goroutine) : Option (List Goroutine) :=
  ptrSetName goroutines arg (goSprintfHashD nextID)

def nameArguments_loop7 (E : Env) (objects : ObjMap) (k : Nat) (_st : List Goroutine × Nat) : Option (List Goroutine × Nat) :=
  match _st with
  | (goroutines, nextID) =>
  if (mapGet objects k).inPrimary then
    some (goroutines, nextID)
  else
  match forIdx (fun _ arg goroutines => nameArguments_loop8 E nextID arg goroutines) (mapGet objects k).args 0 goroutines with
  | none => none
  | some goroutines =>
  some (goroutines, nextID + 1)

/-- nameArguments (stack.go:%d): the goroutines afterwards -/
def nameArguments (E : Env) (goroutines : List Goroutine) : Option (List Goroutine) :=
  let objects : ObjMap := []
  match forIdx (fun i g objects => nameArguments_loop1 E goroutines i g objects) goroutines 0 objects with
  | none => none
  | some objects =>
  match forIdx (fun _ _e order => nameArguments_loop3 E _e.1 _e.2 order) (E.mapOrder objects) 0 [] with
  | none => none
  | some order =>
  match goSortSort E.less order with
  | none => none
  | some order =>
  let nextID : Nat := 1
  match forIdx (fun _ k _st => nameArguments_loop4 E objects k _st) order 0 (goroutines, nextID) with
  | none => none
  | some (goroutines, nextID) =>
  match forIdx (fun _ _e order => nameArguments_loop6 E _e.1 order) (E.mapOrder objects) 0 [] with
  | none => none
  | some order =>
  match goSortSort E.less order with
  | none => none
  | some order =>
  match forIdx (fun _ k _st => nameArguments_loop7 E objects k _st) order 0 (goroutines, nextID) with
  | none => none
  | some (goroutines, nextID) =>
  some goroutines

`

func (p *pkgInfo) translateNames() string {
	ns := "PP.TrN"
	var failed []string
	var defs []string
	run := func(fn string, f func(t *nmT) string) {
		t := &nmT{p: p, fn: fn}
		defer func() {
			if r := recover(); r != nil {
				if tf, ok := r.(trFail); ok {
					failed = append(failed, tf.msg)
					return
				}
				panic(r)
			}
		}()
		defs = append(defs, f(t))
	}
	run("Args.walk", func(t *nmT) string {
		fd := p.funcDecl("Args", "walk")
		if fd == nil {
			t.fail(nil, "not found")
		}
		return t.walk(fd)
	})
	for _, m := range []string{"Len", "Swap", "Less"} {
		m := m
		run("uint64Slice."+m, func(t *nmT) string { return t.u64method(m) })
	}
	run("nameArguments", func(t *nmT) string {
		fd, wfd := p.funcDecl("", "nameArguments"), p.funcDecl("Args", "walk")
		if fd == nil || wfd == nil {
			t.fail(nil, "not found")
		}
		return t.nameArguments(fd, wfd)
	})
	if len(failed) > 0 {
		return fmt.Sprintf("/- GENERATED by /verif/extract (translate_names.go) — the translation FAILED. -/\nnamespace %s\ntheorem translation_failed : %q = \"\" := rfl\nend %s\n", ns, strings.Join(failed, "; "), ns)
	}
	var sb strings.Builder
	fmt.Fprintf(&sb, "/- GENERATED by /verif/extract (translate_names.go) from stack/stack.go — do not edit. -/\nimport PP.Go.PreludeNames\nset_option linter.unusedVariables false\nnamespace %s\nopen PP PP.Go PP.Go.Nm\n\n", ns)
	sb.WriteString("/-- the functions of the group (`walk` yields the pointers, paths relative to its receiver, the visitor is called on) and the oracle `mapOrder`: the order in which a `range` over the map `objects` visits its entries -/\nstructure Env where\n  walk : Args → Option (List Path)\n  len : List Nat → Option Nat\n  swap : List Nat → Int → Int → Option (List Nat)\n  less : List Nat → Int → Int → Option Bool\n  nameArguments : List Goroutine → Option (List Goroutine)\n  mapOrder : ObjMap → ObjMap\n\n")
	for _, d := range defs {
		sb.WriteString(d)
	}
	fmt.Fprintf(&sb, "end %s\n", ns)
	return sb.String()
}
