// translate_scansm.go — the group `ScanSM`: the scanner state machine (*scanningState).scan of
// stack/context.go and the two helpers it calls, parseFunc and parseFile.
//
// Generated file: lean/PP/TranslatedScanSM.lean (namespace PP.TrSM, its own Env); run-time support:
// lean/PP/Go/PreludeScanSM.lean; agreement with the hand-written model PP/Model/Scan.lean:
// lean/PP/Tie/TranslatedScanSM.lean.
//
// This group has its OWN statement/expression translator (type smT below): it shares nothing with the
// translator of the other groups but the spelling helpers (lid, lowerFirst, trFieldRename, leanBytes, atom), so the
// other generated files cannot depend on it.  It is a whitelist: every construct that is not listed here makes the
// translation of the group fail by name (`translation_failed`).  Conventions are those of the other groups: a Go
// function is a non-recursive `def f (E : Env) args : Option τ` (`none` = a Go run-time panic), calls of the
// group's functions go through `E`.
//
// What is translated, and what each construct ASSUMES (sound or refuse):
//
//   - Values.  bool = Bool, int / uint64 = Nat, []byte and string = Bytes (byte slices are immutable values here:
//     an element assignment x[i] = v is refused, so copies `trimmed := line` cannot be told from aliases),
//     [][]byte = List Bytes, a struct = the model's structure, `state` = the model's `St` (ASSUMES the field only
//     ever holds one of the 19 declared constants: checked, every assignment to a `state` field in the function is
//     one of them), `*scanningState` = the model's `S` (Snapshot.Goroutines = gs, state = st, prefix = pfx,
//     goroutineIndex = gi; ASSUMES the embedded *Snapshot is not nil; any other field of Snapshot is refused).
//     Slices are lists: nil and empty are identified.  A nil test of a slice (`s.Goroutines != nil`) is translated
//     as `len != 0` only where every assignment to that field in the function appends at least one element
//     (so that, ASSUMING it is nil-or-non-empty on entry, it stays so); the idiom
//     `if P == nil { P = make(T, 0, n) }; P = append(P, x)` is `P = append(P, x)` (the test reads the same path
//     the append reads first, so it panics exactly when the append does).
//   - Integers are natural numbers by construction: a subtraction is only translated as a slice bound or an index
//     (`goSub`, `none` when negative: Go panics there too), or as `len(P) - 1` in the statement right after
//     `P = append(…, x)` (then len(P) ≥ 1).  Negative constants are refused.
//   - A pointer receiver / pointer parameter the body writes through is threaded and returned with the result
//     (`(recv × result)`), as in the other groups.  parseFile(c *Call, …) is value-result in its first parameter;
//     a call `parseFile(&PATH, x)` reads PATH (with its panics), calls, and writes the returned value back to PATH
//     (sound because the callee can reach the caller's state through that pointer only: the functions of the group
//     write no package-level variable — checked).  parseFunc(c *Call, …): every call in the package passes the
//     address of a local declared `c := Call{}` and not touched since (checked), so the translated parseFunc takes
//     no Call and starts from the zero value; the call site binds the local to the value it returns.
//   - POINTER ALIASES into the threaded state.  `var cur *Goroutine; if len(X) != 0 { cur = X[len(X)-1] }` (exactly
//     this idiom) makes `cur` an lvalue alias for `X[i]` with `i = ptrLast X` (an index out of range stands for the
//     nil pointer: every dereference is `X[i]?`, `none` = nil dereference).  `for i, g := range X` with X a slice
//     of pointers makes `g` an alias of `X[i]`.  `c := PATH` of slice type (not bytes) makes `c` an alias of PATH
//     (its index sub-expressions are evaluated once, at the declaration).  ASSUMES the pointers held in a slice of
//     pointers are pairwise distinct and held nowhere else (checked for what this function stores: only fresh
//     `&T{…}` values are appended).  CHECKED: an alias is only used as the root of a field/index path (it never
//     escapes, is never compared or copied); after a statement that assigns X or a prefix of the aliased path
//     (`s.Goroutines = append(…)`) the alias is not used again on any control path through that statement; for a
//     slice alias no statement between its declaration and its last use assigns a prefix of its path.
//   - Errors are values of the model's enumeration `Err` (`error` = `Option Err`).  `fmt.Errorf(f, …)` /
//     `errors.New(f)` with a constant format is `some tag` by the table smErrTag below; the formatted operands are
//     DROPPED (they must be variables or bytes.TrimSpace of one: no effect, no panic).  The table as read from the
//     source is emitted as `errorSites` and pinned in the Tie file.  `"%s on line: %q"` wraps an error: its tag is
//     the tag of the operand (the call must be guarded by `if err != nil` on that same variable).
//     `panic("…")` is `none`.
//   - Regular expressions are the model's hand matchers (PreludeScanSM: `re…Submatch : Bytes → Option (List Bytes)`,
//     index 0 a placeholder): reading index 0, a computed index, or a group the expression does not have is refused.
//     `v != nil` on such a value is `.isSome`, `v[k]` is `subm v k` (`none` on nil: Go panics).
//   - Environment (model functions, trusted here): (*Func).Init on a ZERO receiver = funcInitZ (checked: the
//     receiver is the zero-on-entry parameter of parseFunc, or element 0 of `make([]Call, 1)` assigned by the
//     statement just before), (*Call).init = Call.init (tied in group Scan), parseArgs = goParseArgs, atou = goAtou,
//     trimLeftSpace, isFramesElidedLine (tied in group Scan), bytes.Split (non-empty separator) = splitOn,
//     bytes.Equal / HasPrefix / HasSuffix, strconv.ParseUint(x, 0, 64) = parseUint0 (only in the shape
//     `v, err := strconv.ParseUint(…); if err != nil { leave }`), unsafeString = the identity.
//   - Statements: := / = on locals and on field/index paths rooted in the threaded receiver, a local or an alias;
//     if / else-if chains with init statements; `switch tag` with constant cases, `fallthrough` as the last
//     statement of a clause (the next clause's body follows) and a default; return; counted `for i := a; i < b; i++`
//     and `for i, g := range X` loops without return inside, with `continue` / `break` (forRange / forRangeB).
//     An if whose branches can fall through, followed by more statements: when no branch contains a return the
//     assigned variables are threaded (`(if c then … else …).bind fun vs => rest`); otherwise the rest becomes a
//     definition of its own (`f_joinN`, a join point) that every fall-through path calls with the current values.
//     Every use of an identifier is checked to resolve to the Lean binding of the Go variable it denotes.
package main

import (
	"fmt"
	"go/ast"
	"go/constant"
	"go/token"
	"go/types"
	"sort"
	"strings"
)

var trFuncsSM = [][2]string{{"", "parseFunc"}, {"", "parseFile"}, {"scanningState", "scan"}}

// format string -> constructor of the model's Err ("=" : the tag of the error operand)
var smErrTag = map[string]string{
	"inconsistent indentation: %q, expected %q":                          "indent",
	"expected a function after a goroutine header, got: %q":              "funcAfterHeader",
	"expected a file after a function, got: %q":                          "fileAfterFunc",
	"expected a file after a created line, got: %q":                      "fileAfterCreated",
	"expected empty line after unavailable stack, got: %q":               "emptyAfterUnavail",
	"failed to parse address on line: %q":                                "raceAddr",
	"failed to parse goroutine id on line: %q":                           "raceId",
	"expected race condition, got: %q":                                   "raceExpected",
	"expected a function after a race operation, got: %q":                "raceFunc",
	"expected a file after a race function, got: %q":                     "raceFile",
	"expected an empty line after a race file, got: %q":                  "raceEmptyAfterFile",
	"unexpected goroutine ID on line: %q":                                "raceUnknownGoroutine",
	"expected an operator or goroutine, got: %q":                         "raceOpOrGoroutine",
	"expected a function after a race operation or a race file, got: %q": "raceFuncOrFile",
	"internal error":                  "internal",
	"failed to parse int on line: %q": "fileInt",
	"%s on line: %q":                  "=",
}

// regular expression -> (Prelude function, number of groups)
var smRegexps = map[string]int{
	"reRoutineHeader": 3, "reMinutes": 1, "reFile": 2, "reCreated": 1, "reFunc": 2,
	"reRaceOperationHeader": 3, "reRacePreviousOperationHeader": 3, "reRaceGoroutine": 2,
}

var smStates = map[string]bool{"looking": true, "done": true, "betweenRoutine": true, "gotRoutineHeader": true, "gotFunc": true,
	"gotCreated": true, "gotFileFunc": true, "gotFileCreated": true, "gotUnavail": true, "gotRaceHeader1": true, "gotRaceHeader2": true,
	"gotRaceOperationHeader": true, "gotRaceOperationFunc": true, "gotRaceOperationFile": true, "betweenRaceOperations": true,
	"gotRaceGoroutineHeader": true, "gotRaceGoroutineFunc": true, "gotRaceGoroutineFile": true, "betweenRaceGoroutines": true}

var smByteVars = map[string]bool{"commaSpace": true, "crlf": true, "lf": true, "lockedToThread": true, "raceHeader": true,
	"raceHeaderFooter": true, "writeCap": true, "writeLow": true}

type smVar struct {
	name  string
	typ   string
	obj   types.Object // nil for names the translation introduces
	alias ast.Expr     // != nil: an lvalue alias for this path (the variable itself has no Lean binding)
	zero  bool         // a Call known to hold the zero value (declared `c := Call{}` / zero-on-entry parameter, untouched)
	fresh bool         // a pointer to a fresh composite literal (may only be appended once)
	subm  int          // > 0: the result of re.FindSubmatch with subm-1 groups
}

type smLoopCtx struct {
	vs  []smVar
	brk bool
}

type smT struct {
	p        *pkgInfo
	fn       string
	ret      string // Lean type of the function's result (with the threaded receiver)
	recv     string // Lean name of the threaded pointer receiver / parameter ("" if none)
	scope    []smVar
	synth    map[*ast.Ident]string // identifiers the translation introduces (alias indices) -> Lean name
	defs     []string
	njoin    int
	nloop    int
	tmp      int
	nbind    int
	loop     *smLoopCtx
	sites    *[][2]string   // error sites (format, tag) in source order
	guards   []types.Object // error variables known to be non-nil here (inside `if v != nil`)
	nilType  types.Type     // the type an untyped nil is converted to (set by bindAs)
	last     ast.Stmt       // the plain assignment translated just before the current statement (nil otherwise)
	body     *ast.BlockStmt
	resTypes []types.Type
	joinVs   []smVar  // the parameters of the join point created last
	prev     ast.Stmt // the statement translated just before the current one, if it was a plain assignment
}

func (t *smT) fail(n ast.Node, f string, a ...interface{}) {
	pos := t.p.fset.Position(n.Pos())
	panic(trFail{fmt.Sprintf("%s:%d: %s", pos.Filename[strings.LastIndex(pos.Filename, "/")+1:], pos.Line, fmt.Sprintf(f, a...))})
}

func (t *smT) fresh() string { t.tmp++; return fmt.Sprintf("t%d", t.tmp) }

func (t *smT) typeOf(e ast.Expr) types.Type {
	if tv, ok := t.p.info.Types[e]; ok {
		return tv.Type
	}
	if id, ok := e.(*ast.Ident); ok {
		if o := t.p.info.ObjectOf(id); o != nil {
			return o.Type()
		}
	}
	t.fail(e, "no type information")
	return nil
}

func smIsError(ty types.Type) bool { return ty.String() == "error" }

func smIsBytes(ty types.Type) bool {
	switch x := ty.Underlying().(type) {
	case *types.Slice:
		b, ok := x.Elem().(*types.Basic)
		return ok && b.Kind() == types.Uint8
	case *types.Basic:
		return x.Info()&types.IsString != 0
	}
	return false
}

func (t *smT) leanType(n ast.Node, ty types.Type) string {
	if smIsError(ty) {
		return "(Option Err)"
	}
	switch x := ty.(type) {
	case *types.Pointer:
		return t.leanType(n, x.Elem())
	case *types.Named:
		switch x.Obj().Name() {
		case "Call", "Goroutine", "Args", "Func", "Stack", "Signature":
			return x.Obj().Name()
		case "scanningState":
			return "S"
		case "state":
			return "St"
		}
	case *types.Basic:
		switch {
		case x.Info()&types.IsBoolean != 0:
			return "Bool"
		case x.Info()&types.IsInteger != 0 && x.Kind() != types.Uint8:
			return "Nat"
		case x.Info()&types.IsString != 0:
			return "Bytes"
		}
	case *types.Slice:
		if smIsBytes(x) {
			return "Bytes"
		}
		return "(List " + t.leanType(n, x.Elem()) + ")"
	case *types.Tuple:
		var ps []string
		for i := 0; i < x.Len(); i++ {
			ps = append(ps, t.leanType(n, x.At(i).Type()))
		}
		return "(" + strings.Join(ps, " × ") + ")"
	}
	t.fail(n, "unsupported type %s", ty)
	return ""
}

// ---------------------------------------------------------------- scope

func (t *smT) lookup(obj types.Object) *smVar {
	for i := len(t.scope) - 1; i >= 0; i-- {
		if t.scope[i].obj == obj && obj != nil {
			return &t.scope[i]
		}
	}
	return nil
}

// use: the Lean name of a Go variable, checked to resolve to its own binding
func (t *smT) use(id *ast.Ident) *smVar {
	obj := t.p.info.ObjectOf(id)
	v := t.lookup(obj)
	if v == nil {
		t.fail(id, "%s is not a variable of the function", id.Name)
	}
	for i := len(t.scope) - 1; i >= 0; i-- {
		if t.scope[i].name == v.name {
			if t.scope[i].obj != obj {
				t.fail(id, "%s refers to a variable that another declaration of the same name hides in the flattened translation", id.Name)
			}
			break
		}
	}
	return v
}

func (t *smT) declare(v smVar) { t.scope = append(t.scope, v) }

func (t *smT) saveScope() []smVar { return append([]smVar{}, t.scope...) }

// visible: the Lean bindings in scope, innermost per name, in declaration order (aliases have none)
func (t *smT) visible() []smVar {
	seen := map[string]bool{}
	var rev []smVar
	for i := len(t.scope) - 1; i >= 0; i-- {
		v := t.scope[i]
		if v.alias != nil || seen[v.name] {
			continue
		}
		seen[v.name] = true
		rev = append(rev, v)
	}
	var res []smVar
	for i := len(rev) - 1; i >= 0; i-- {
		res = append(res, rev[i])
	}
	return res
}

// ---------------------------------------------------------------- paths

type smStep struct {
	sn, field string   // a field of struct sn …
	index     ast.Expr // … or an index
}

func smNamed(ty types.Type) string {
	if p, ok := ty.(*types.Pointer); ok {
		ty = p.Elem()
	}
	if n, ok := ty.(*types.Named); ok {
		return n.Obj().Name()
	}
	return ""
}

// pathOf decomposes an addressable expression into its root variable and steps; aliases are expanded
func (t *smT) pathOf(e ast.Expr) (*ast.Ident, []smStep, bool) {
	var steps []smStep
	for {
		switch x := e.(type) {
		case *ast.ParenExpr:
			e = x.X
			continue
		case *ast.StarExpr:
			e = x.X
			continue
		case *ast.SelectorExpr:
			sel := t.p.info.Selections[x]
			if sel == nil || sel.Kind() != types.FieldVal {
				return nil, nil, false
			}
			var own []smStep
			ty := sel.Recv()
			for _, i := range sel.Index() {
				if p, ok := ty.Underlying().(*types.Pointer); ok {
					ty = p.Elem()
				}
				st, ok := ty.Underlying().(*types.Struct)
				if !ok {
					return nil, nil, false
				}
				own = append(own, smStep{sn: smNamed(ty), field: st.Field(i).Name()})
				ty = st.Field(i).Type()
			}
			steps = append(own, steps...)
			e = x.X
			continue
		case *ast.IndexExpr:
			steps = append([]smStep{{index: x.Index}}, steps...)
			e = x.X
			continue
		case *ast.Ident:
			if _, ok := t.synth[x]; ok {
				return x, steps, true
			}
			obj, ok := t.p.info.ObjectOf(x).(*types.Var)
			if !ok || obj.Parent() == t.p.pkg.Scope() {
				return nil, nil, false
			}
			if v := t.lookup(obj); v != nil && v.alias != nil {
				r, as, ok := t.pathOf(v.alias)
				if !ok {
					t.fail(x, "internal: alias of a non-path")
				}
				return r, append(append([]smStep{}, as...), steps...), true
			}
			return x, steps, true
		}
		return nil, nil, false
	}
}

// field name in the model's structures ("" = the step is the identity: the embedded *Snapshot)
func (t *smT) fieldName(n ast.Node, st smStep) string {
	switch st.sn + "." + st.field {
	case "scanningState.Snapshot":
		return ""
	case "scanningState.state":
		return "st"
	case "scanningState.prefix":
		return "pfx"
	case "scanningState.goroutineIndex":
		return "gi"
	case "Snapshot.Goroutines":
		return "gs"
	}
	switch st.sn {
	case "Goroutine", "Signature", "Stack", "Call", "Func", "Args":
		if r, ok := trFieldRename[st.sn+"."+st.field]; ok {
			return r
		}
		return lowerFirst(st.field)
	}
	t.fail(n, "field %s.%s is not modelled", st.sn, st.field)
	return ""
}

// bindIndex: an index or slice bound; a difference is goSub (negative = the panic Go raises there)
func (t *smT) bindIndex(e ast.Expr, k func(string) string) string {
	if b, ok := unparen(e).(*ast.BinaryExpr); ok && b.Op == token.SUB {
		if tv, ok := t.p.info.Types[e]; !ok || tv.Value == nil {
			return t.bind(b.X, func(x string) string {
				return t.bind(b.Y, func(y string) string {
					v := t.fresh()
					t.nbind++
					return fmt.Sprintf("(goSub %s %s).bind fun %s =>\n%s", atom(x), atom(y), v, k(v))
				})
			})
		}
	}
	return t.bind(e, k)
}

func (t *smT) rootTerm(root *ast.Ident) string {
	if n, ok := t.synth[root]; ok {
		return n
	}
	v := t.use(root)
	v.zero = false
	return v.name
}

// readSteps: the value at cur.steps
func (t *smT) readSteps(n ast.Node, cur string, steps []smStep, k func(string) string) string {
	if len(steps) == 0 {
		return k(cur)
	}
	st := steps[0]
	if st.index == nil {
		f := t.fieldName(n, st)
		if f == "" {
			return t.readSteps(n, cur, steps[1:], k)
		}
		return t.readSteps(n, cur+"."+f, steps[1:], k)
	}
	return t.bindIndex(st.index, func(i string) string {
		v := t.fresh()
		t.nbind++
		return fmt.Sprintf("(%s[%s]?).bind fun %s =>\n%s", cur, atom(i), v, t.readSteps(n, v, steps[1:], k))
	})
}

// writeSteps: cur with the value at steps replaced by val (k receives the new cur)
func (t *smT) writeSteps(n ast.Node, cur string, steps []smStep, val string, k func(string) string) string {
	if len(steps) == 0 {
		return k(val)
	}
	st := steps[0]
	if st.index == nil {
		f := t.fieldName(n, st)
		if f == "" {
			return t.writeSteps(n, cur, steps[1:], val, k)
		}
		return t.writeSteps(n, cur+"."+f, steps[1:], val, func(nv string) string {
			return k(fmt.Sprintf("{ %s with %s := %s }", cur, f, nv))
		})
	}
	if len(steps) == 1 {
		// a whole element (a Call held by value in a []Call: assignPath checks): bounds check, then set
		return t.bindIndex(st.index, func(i string) string {
			old := t.fresh()
			t.nbind++
			return fmt.Sprintf("(%s[%s]?).bind fun %s =>\n%s", cur, atom(i), old, k(fmt.Sprintf("(%s.set %s %s)", cur, atom(i), atom(val))))
		})
	}
	return t.bindIndex(st.index, func(i string) string {
		old := t.fresh()
		t.nbind++
		return fmt.Sprintf("(%s[%s]?).bind fun %s =>\n%s", cur, atom(i), old, t.writeSteps(n, old, steps[1:], val, func(nv string) string {
			return k(fmt.Sprintf("(%s.set %s %s)", cur, atom(i), atom(nv)))
		}))
	})
}

// assignPath: lhs = val (a Lean term), then cont
func (t *smT) assignPath(n ast.Node, lhs ast.Expr, val string, cont func() string) string {
	root, steps, ok := t.pathOf(lhs)
	if !ok {
		t.fail(n, "assignment to an unsupported left-hand side")
	}
	if _, isSynth := t.synth[root]; isSynth {
		t.fail(n, "assignment to a name of the translation")
	}
	v := t.use(root)
	v.zero = false
	if len(steps) > 0 && steps[len(steps)-1].index != nil {
		// only an element of a []Call (a struct held by value; no other slice shares it: see the header)
		if _, isPtr := t.typeOf(lhs).(*types.Pointer); isPtr || smNamed(t.typeOf(lhs)) != "Call" {
			t.fail(n, "assignment of a slice element")
		}
	}
	if len(steps) == 0 && v.subm > 0 {
		t.fail(n, "assignment to a variable holding submatches")
	}
	name := v.name
	return t.writeSteps(n, name, steps, val, func(nv string) string {
		return fmt.Sprintf("let %s := %s\n%s", name, nv, cont())
	})
}

// ---------------------------------------------------------------- expressions

func (t *smT) isNil(e ast.Expr) bool {
	id, ok := unparen(e).(*ast.Ident)
	if !ok || id.Name != "nil" {
		return false
	}
	_, isNil := t.p.info.Uses[id].(*types.Nil)
	return isNil
}

func (t *smT) pkgFunc(x *ast.CallExpr) string {
	switch f := x.Fun.(type) {
	case *ast.SelectorExpr:
		if pk, ok := f.X.(*ast.Ident); ok {
			if pn, isPkg := t.p.info.Uses[pk].(*types.PkgName); isPkg {
				return pn.Imported().Path() + "." + f.Sel.Name
			}
			if v, isVar := t.p.info.Uses[pk].(*types.Var); isVar && v.Parent() == t.p.pkg.Scope() && v.Type().String() == "*regexp.Regexp" {
				return "regexp:" + pk.Name + "." + f.Sel.Name
			}
		}
	case *ast.Ident:
		if fn, ok := t.p.info.Uses[f].(*types.Func); ok && fn.Parent() == t.p.pkg.Scope() {
			return "pkg." + f.Name
		}
		if _, ok := t.p.info.Uses[f].(*types.Builtin); ok {
			return "builtin." + f.Name
		}
	}
	return ""
}

// errOperand: an operand of fmt.Errorf that is dropped: a variable, or bytes.TrimSpace of one
func (t *smT) errOperand(e ast.Expr) {
	if c, ok := e.(*ast.CallExpr); ok && t.pkgFunc(c) == "bytes.TrimSpace" && len(c.Args) == 1 {
		e = c.Args[0]
	}
	id, ok := e.(*ast.Ident)
	if !ok {
		t.fail(e, "an operand of fmt.Errorf that is not a variable or bytes.TrimSpace of one")
	}
	if v := t.use(id); v.alias != nil {
		t.fail(e, "a pointer alias as an operand of fmt.Errorf")
	}
}

// bindAs: e converted to type ty (matters for nil only)
func (t *smT) bindAs(e ast.Expr, ty types.Type, k func(string) string) string {
	if t.isNil(e) {
		t.nilType = ty
		defer func() { t.nilType = nil }()
		r := ""
		t.bind(e, func(s string) string { r = s; return "" })
		t.nilType = nil
		return k(r)
	}
	return t.bind(e, k)
}

// bindAll binds a list of expressions in order
func (t *smT) bindAll(es []ast.Expr, k func([]string) string) string {
	var vals []string
	var rec func(i int) string
	rec = func(i int) string {
		if i == len(es) {
			return k(vals)
		}
		return t.bind(es[i], func(s string) string { vals = append(vals, s); return rec(i + 1) })
	}
	return rec(0)
}

// isPure: e translates without a bind (no panic, no effect)
func (t *smT) isPure(e ast.Expr) bool {
	save, saveT, saveScope, nsites := t.nbind, t.tmp, t.saveScope(), len(*t.sites)
	t.bind(e, func(s string) string { return s })
	pure := t.nbind == save
	t.nbind, t.tmp, t.scope = save, saveT, saveScope
	*t.sites = (*t.sites)[:nsites]
	return pure
}

func (t *smT) bind(e ast.Expr, k func(string) string) string {
	if tv, ok := t.p.info.Types[e]; ok && tv.Value != nil {
		switch tv.Value.Kind() {
		case constant.Bool:
			return k(fmt.Sprint(constant.BoolVal(tv.Value)))
		case constant.String:
			return k(leanBytes(constant.StringVal(tv.Value)))
		case constant.Int:
			if n, ok := tv.Type.(*types.Named); ok {
				id, isId := unparen(e).(*ast.Ident)
				if n.Obj().Name() == "state" && isId && smStates[id.Name] {
					return k("St." + id.Name)
				}
				t.fail(e, "constant of type %s", n)
			}
			if constant.Sign(tv.Value) < 0 {
				t.fail(e, "negative integer constant")
			}
			return k(tv.Value.ExactString())
		}
		t.fail(e, "unsupported constant")
	}
	switch x := e.(type) {
	case *ast.ParenExpr:
		return t.bind(x.X, k)
	case *ast.Ident:
		if n, ok := t.synth[x]; ok {
			return k(n)
		}
		switch x.Name {
		case "true", "false":
			return k(x.Name)
		}
		if t.isNil(x) {
			ty := t.typeOf(x)
			if t.nilType != nil {
				ty = t.nilType
			}
			if smIsError(ty) {
				return k("(none : Option Err)")
			}
			if _, ok := ty.Underlying().(*types.Slice); ok {
				return k("([] : " + t.leanType(x, ty) + ")")
			}
			t.fail(x, "nil of type %s", ty)
		}
		if v, ok := t.p.info.Uses[x].(*types.Var); ok && v.Parent() == t.p.pkg.Scope() {
			if smByteVars[x.Name] && smIsBytes(v.Type()) {
				// a package-level []byte that is never assigned (checked in translateScanSM): PP/Extracted.lean has its value
				return k("Extracted." + x.Name)
			}
			t.fail(x, "package-level variable %s", x.Name)
		}
		v := t.use(x)
		if v.alias != nil {
			if _, isPtr := t.typeOf(x).(*types.Pointer); isPtr {
				t.fail(x, "pointer alias %s used as a value (it may only be the root of a field path)", x.Name)
			}
			// a slice alias read as a whole: the value at its path
			root, steps, _ := t.pathOf(x)
			return t.readSteps(x, t.rootTerm(root), steps, k)
		}
		if v.subm > 0 {
			t.fail(x, "the submatches %s used as a value (only `!= nil`, `== nil` and a constant index are modelled)", x.Name)
		}
		if v.name == t.recv && v.obj != nil && !v.fresh {
			v.zero = false
			return k(v.name) // the threaded receiver / pointer parameter: its current value
		}
		if _, isPtr := t.typeOf(x).(*types.Pointer); isPtr || v.fresh {
			t.fail(x, "%s holds a pointer: it may only be appended to a slice, once", x.Name)
		}
		v.zero = false
		return k(v.name)
	case *ast.StarExpr:
		return t.bind(x.X, k)
	case *ast.UnaryExpr:
		switch x.Op {
		case token.NOT:
			return t.bind(x.X, func(v string) string { return k("(!" + v + ")") })
		case token.AND:
			if cl, ok := x.X.(*ast.CompositeLit); ok {
				return t.bind(cl, k) // a fresh object: its value (see the aliasing assumptions in the header)
			}
		}
	case *ast.SelectorExpr, *ast.IndexExpr:
		if ix, ok := x.(*ast.IndexExpr); ok {
			if id, ok := ix.X.(*ast.Ident); ok {
				if v := t.lookup(t.p.info.ObjectOf(id)); v != nil && v.subm > 0 {
					tv, ok := t.p.info.Types[ix.Index]
					if !ok || tv.Value == nil {
						t.fail(x, "computed index into the submatches of a regular expression")
					}
					n, _ := constant.Int64Val(tv.Value)
					if n < 1 || int(n) > v.subm-1 {
						t.fail(x, "submatch %d of a regular expression whose model has groups 1..%d (the whole match is not modelled)", n, v.subm-1)
					}
					name := t.use(id).name
					r := t.fresh()
					t.nbind++
					return fmt.Sprintf("(subm %s %d).bind fun %s =>\n%s", name, n, r, k(r))
				}
			}
		}
		root, steps, ok := t.pathOf(x)
		if !ok {
			t.fail(e, "unsupported selector or index expression")
		}
		return t.readSteps(x, t.rootTerm(root), steps, k)
	case *ast.SliceExpr:
		if x.Slice3 || !smIsBytes(t.typeOf(x.X)) {
			t.fail(x, "slice expression on something other than bytes")
		}
		return t.bind(x.X, func(base string) string {
			lo := func(k func(string) string) string {
				if x.Low == nil {
					return k("0")
				}
				return t.bindIndex(x.Low, k)
			}
			hi := func(k func(string) string) string {
				if x.High == nil {
					return k("(len " + base + ")")
				}
				return t.bindIndex(x.High, k)
			}
			return lo(func(l string) string {
				return hi(func(h string) string {
					v := t.fresh()
					t.nbind++
					return fmt.Sprintf("(goSlice %s %s %s).bind fun %s =>\n%s", atom(base), atom(l), atom(h), v, k(v))
				})
			})
		})
	case *ast.BinaryExpr:
		return t.binary(x, k)
	case *ast.CompositeLit:
		return t.composite(x, k)
	case *ast.CallExpr:
		return t.call(x, k)
	}
	t.fail(e, "unsupported expression %T", e)
	return ""
}

func (t *smT) binary(x *ast.BinaryExpr, k func(string) string) string {
	if (x.Op == token.EQL || x.Op == token.NEQ) && (t.isNil(x.X) || t.isNil(x.Y)) {
		o := x.X
		if t.isNil(x.X) {
			o = x.Y
		}
		ty := t.typeOf(o)
		if id, ok := unparen(o).(*ast.Ident); ok {
			if v := t.lookup(t.p.info.ObjectOf(id)); v != nil && (v.subm > 0 || smIsError(ty)) {
				name := t.use(id).name
				if x.Op == token.EQL {
					return k(name + ".isNone")
				}
				return k(name + ".isSome")
			}
		}
		if _, isSl := ty.Underlying().(*types.Slice); isSl && !smIsBytes(ty) {
			_, steps, ok := t.pathOf(o)
			if !ok || len(steps) == 0 || steps[len(steps)-1].index != nil {
				t.fail(x, "nil test of a slice that is not a field")
			}
			t.nilTestGuard(x, steps[len(steps)-1])
			return t.bind(o, func(v string) string {
				if x.Op == token.EQL {
					return k("(len " + atom(v) + " == 0)")
				}
				return k("(len " + atom(v) + " != 0)")
			})
		}
		t.fail(x, "nil test of a value of type %s", ty)
	}
	switch x.Op {
	case token.LAND, token.LOR:
		if !t.isPure(x.Y) {
			t.fail(x, "short-circuit operator whose right operand can panic or has an effect")
		}
		op := "&&"
		if x.Op == token.LOR {
			op = "||"
		}
		return t.bind(x.X, func(a string) string {
			return t.bind(x.Y, func(b string) string { return k(fmt.Sprintf("(%s %s %s)", a, op, b)) })
		})
	case token.EQL, token.NEQ:
		ty := t.typeOf(x.X).Underlying()
		if b, ok := ty.(*types.Basic); !ok || b.Info()&(types.IsInteger|types.IsBoolean) == 0 {
			t.fail(x, "comparison of values of type %s", t.typeOf(x.X))
		}
		op := "=="
		if x.Op == token.NEQ {
			op = "!="
		}
		return t.bind(x.X, func(a string) string {
			return t.bind(x.Y, func(b string) string { return k(fmt.Sprintf("(%s %s %s)", a, op, b)) })
		})
	}
	t.fail(x, "unsupported operator %s (integer arithmetic is only translated as an index or a slice bound)", x.Op)
	return ""
}

// nilTestGuard: a slice field whose nil-ness is tested must only ever be assigned non-empty values in this function
func (t *smT) nilTestGuard(n ast.Node, last smStep) {
	ast.Inspect(t.body, func(m ast.Node) bool {
		as, ok := m.(*ast.AssignStmt)
		if !ok || as.Tok != token.ASSIGN || len(as.Lhs) != 1 || len(as.Rhs) != 1 {
			return true
		}
		_, steps, ok := t.pathOf(as.Lhs[0])
		if !ok || len(steps) == 0 {
			return true
		}
		l := steps[len(steps)-1]
		if l.index != nil || l.sn != last.sn || l.field != last.field {
			return true
		}
		if c, ok := as.Rhs[0].(*ast.CallExpr); ok && t.pkgFunc(c) == "builtin.append" && len(c.Args) >= 2 && !c.Ellipsis.IsValid() {
			return true
		}
		if c, ok := as.Rhs[0].(*ast.CallExpr); ok && t.pkgFunc(c) == "builtin.make" && t.isMakeIdiom(as) {
			return true
		}
		t.fail(n, "nil test of %s.%s, which the function also assigns something other than a non-empty append (nil and empty are not distinguished)", last.sn, last.field)
		return true
	})
}

// isMakeIdiom: as is the assignment inside `if P == nil { P = make(T, 0, n) }` directly followed by `P = append(P, …)`
func (t *smT) isMakeIdiom(as *ast.AssignStmt) bool {
	found := false
	ast.Inspect(t.body, func(m ast.Node) bool {
		var list []ast.Stmt
		switch b := m.(type) {
		case *ast.BlockStmt:
			list = b.List
		case *ast.CaseClause:
			list = b.Body
		}
		for i, s := range list {
			if ifs, ok := s.(*ast.IfStmt); ok && i+1 < len(list) && t.makeIdiom(ifs, list[i+1]) && ifs.Body.List[0] == ast.Stmt(as) {
				found = true
			}
		}
		return true
	})
	return found
}

func (t *smT) makeIdiom(x *ast.IfStmt, next ast.Stmt) bool {
	if x.Init != nil || x.Else != nil || len(x.Body.List) != 1 {
		return false
	}
	cond, ok := x.Cond.(*ast.BinaryExpr)
	if !ok || cond.Op != token.EQL || !t.isNil(cond.Y) {
		return false
	}
	p := types.ExprString(cond.X)
	as, ok := x.Body.List[0].(*ast.AssignStmt)
	if !ok || as.Tok != token.ASSIGN || len(as.Lhs) != 1 || len(as.Rhs) != 1 || types.ExprString(as.Lhs[0]) != p {
		return false
	}
	mk, ok := as.Rhs[0].(*ast.CallExpr)
	if !ok || t.pkgFunc(mk) != "builtin.make" || len(mk.Args) != 3 {
		return false
	}
	if tv, ok := t.p.info.Types[mk.Args[1]]; !ok || tv.Value == nil || tv.Value.ExactString() != "0" {
		return false
	}
	nx, ok := next.(*ast.AssignStmt)
	if !ok || nx.Tok != token.ASSIGN || len(nx.Lhs) != 1 || len(nx.Rhs) != 1 || types.ExprString(nx.Lhs[0]) != p {
		return false
	}
	ap, ok := nx.Rhs[0].(*ast.CallExpr)
	return ok && t.pkgFunc(ap) == "builtin.append" && len(ap.Args) >= 2 && !ap.Ellipsis.IsValid() && types.ExprString(ap.Args[0]) == p
}

func (t *smT) composite(x *ast.CompositeLit, k func(string) string) string {
	ty := t.typeOf(x)
	if sl, ok := ty.Underlying().(*types.Slice); ok {
		if smIsBytes(ty) {
			if len(x.Elts) != 0 {
				t.fail(x, "non-empty byte slice literal")
			}
			return k("([] : Bytes)")
		}
		_ = sl
		return t.bindAll(x.Elts, func(vs []string) string {
			return k("([" + strings.Join(vs, ", ") + "] : " + t.leanType(x, ty) + ")")
		})
	}
	sn := smNamed(ty)
	if _, ok := ty.Underlying().(*types.Struct); !ok || sn == "" {
		t.fail(x, "unsupported composite literal %s", ty)
	}
	var names []string
	var vals []ast.Expr
	for _, el := range x.Elts {
		kv, ok := el.(*ast.KeyValueExpr)
		if !ok {
			t.fail(x, "positional composite literal")
		}
		names = append(names, t.fieldName(x, smStep{sn: sn, field: kv.Key.(*ast.Ident).Name}))
		vals = append(vals, kv.Value)
	}
	return t.bindAll(vals, func(vs []string) string {
		var fs []string
		for i := range vs {
			fs = append(fs, names[i]+" := "+vs[i])
		}
		return k(fmt.Sprintf("({ %s } : %s)", strings.Join(fs, ", "), t.leanType(x, ty)))
	})
}

func (t *smT) constStr(e ast.Expr) (string, bool) {
	tv, ok := t.p.info.Types[e]
	if !ok || tv.Value == nil || tv.Value.Kind() != constant.String {
		return "", false
	}
	return constant.StringVal(tv.Value), true
}

func (t *smT) call(x *ast.CallExpr, k func(string) string) string {
	// conversions []byte(x), string(x)
	if tv, ok := t.p.info.Types[x.Fun]; ok && tv.IsType() && len(x.Args) == 1 {
		if smIsBytes(tv.Type) && smIsBytes(t.typeOf(x.Args[0])) {
			return t.bind(x.Args[0], k)
		}
		t.fail(x, "conversion to %s", tv.Type)
	}
	name := t.pkgFunc(x)
	arg := func(i int) ast.Expr { return x.Args[i] }
	un := func(f string) string {
		return t.bind(arg(0), func(a string) string { return k(fmt.Sprintf("(%s %s)", f, atom(a))) })
	}
	bin := func(f string) string {
		return t.bindAll(x.Args, func(a []string) string { return k(fmt.Sprintf("(%s %s %s)", f, atom(a[0]), atom(a[1]))) })
	}
	switch name {
	case "builtin.len":
		return un("len")
	case "builtin.panic":
		return "none"
	case "builtin.make":
		// make([]Call, n): n zero values
		if len(x.Args) == 2 && smNamed(t.typeOf(x).(*types.Slice).Elem()) == "Call" {
			return t.bind(arg(1), func(n string) string { return k(fmt.Sprintf("(List.replicate %s ({} : Call))", atom(n))) })
		}
		t.fail(x, "make other than make([]Call, n) (make(T, 0, n) is only translated as the first operand of an append that adds an element)")
	case "builtin.append":
		return t.appendCall(x, k)
	case "bytes.Equal":
		return t.bindAll(x.Args, func(a []string) string { return k(fmt.Sprintf("(%s == %s)", a[0], a[1])) })
	case "bytes.HasPrefix":
		return bin("Bytes.hasPrefix")
	case "bytes.HasSuffix":
		return bin("Bytes.hasSuffix")
	case "bytes.Split":
		// bytes.Split for a non-empty separator: the model's splitOn
		id, ok := arg(1).(*ast.Ident)
		if !ok || id.Name != "commaSpace" {
			t.fail(x, "bytes.Split with a separator other than the package's commaSpace")
		}
		return bin("Bytes.splitOn")
	case "pkg.trimLeftSpace":
		return un("PP.trimLeftSpace")
	case "pkg.isFramesElidedLine":
		return un("PP.isFramesElidedLine")
	case "pkg.unsafeString":
		return t.bind(arg(0), k)
	case "pkg.atou":
		return un("goAtou")
	case "pkg.parseArgs":
		return un("goParseArgs")
	case "regexp:reUnavail.Match":
		return un("PP.matchUnavail")
	case "errors.New", "fmt.Errorf":
		f, ok := t.constStr(arg(0))
		if !ok {
			t.fail(x, "error with a format that is not constant")
		}
		tag, ok := smErrTag[f]
		if !ok {
			t.fail(x, "error format %q has no tag in the model's Err (smErrTag)", f)
		}
		*t.sites = append(*t.sites, [2]string{f, tag})
		if tag == "=" {
			// "%s on line: %q": the tag of the wrapped error, which must be known to be non-nil
			id, isId := arg(1).(*ast.Ident)
			if len(x.Args) != 3 || !isId || !smIsError(t.typeOf(id)) {
				t.fail(x, "%q: the first operand must be an error variable", f)
			}
			obj := t.p.info.ObjectOf(id)
			guarded := false
			for _, g := range t.guards {
				if g == obj {
					guarded = true
				}
			}
			if !guarded {
				t.fail(x, "%q: the wrapped error is not known to be non-nil here (no enclosing `if %s != nil`)", f, id.Name)
			}
			t.errOperand(arg(2))
			return k(t.use(id).name)
		}
		for _, a := range x.Args[1:] {
			t.errOperand(a)
		}
		return k("(some Err." + tag + ")")
	}
	if strings.HasPrefix(name, "regexp:") && strings.HasSuffix(name, ".FindSubmatch") {
		re := strings.TrimSuffix(strings.TrimPrefix(name, "regexp:"), ".FindSubmatch")
		if _, ok := smRegexps[re]; !ok {
			t.fail(x, "regular expression %s has no matcher in the model", re)
		}
		return un(re + "Submatch")
	}
	t.fail(x, "call of %s, which is not translated in this group", types.ExprString(x.Fun))
	return ""
}

// appendCall: append(P, v…) = P ++ [v…]; append(make(T, 0, n), v…) = [v…]; append([]byte{}, x...) = x (a copy)
func (t *smT) appendCall(x *ast.CallExpr, k func(string) string) string {
	if x.Ellipsis.IsValid() {
		cl, ok := x.Args[0].(*ast.CompositeLit)
		if len(x.Args) != 2 || !ok || len(cl.Elts) != 0 || !smIsBytes(t.typeOf(x)) {
			t.fail(x, "append(a, b...) other than append([]byte{}, b...)")
		}
		return t.bind(x.Args[1], k)
	}
	if len(x.Args) < 2 {
		t.fail(x, "append without an element")
	}
	elemPtr := false
	if sl, ok := t.typeOf(x).Underlying().(*types.Slice); ok {
		_, elemPtr = sl.Elem().(*types.Pointer)
		if smIsBytes(sl) {
			t.fail(x, "append of bytes")
		}
	}
	vals := func(k func([]string) string) string {
		var vs []string
		var rec func(i int) string
		rec = func(i int) string {
			if i == len(x.Args) {
				return k(vs)
			}
			a := x.Args[i]
			if elemPtr {
				// only fresh pointers are stored: &T{…}, or a local that holds one and is used nowhere else
				if id, ok := a.(*ast.Ident); ok {
					v := t.use(id)
					if !v.fresh {
						t.fail(a, "a pointer that is not fresh is appended to a slice of pointers")
					}
					v.fresh = false // stored once: a second append of it would make two elements share the pointee
					vs = append(vs, v.name)
					return rec(i + 1)
				}
				if u, ok := a.(*ast.UnaryExpr); !ok || u.Op != token.AND {
					t.fail(a, "a pointer that is not fresh is appended to a slice of pointers")
				} else if _, ok := u.X.(*ast.CompositeLit); !ok {
					t.fail(a, "a pointer that is not fresh is appended to a slice of pointers")
				}
			}
			return t.bind(a, func(s string) string { vs = append(vs, s); return rec(i + 1) })
		}
		return rec(1)
	}
	if mk, ok := x.Args[0].(*ast.CallExpr); ok && t.pkgFunc(mk) == "builtin.make" {
		if tv, ok := t.p.info.Types[mk.Args[1]]; len(mk.Args) != 3 || !ok || tv.Value == nil || tv.Value.ExactString() != "0" {
			t.fail(x, "append to a make that is not make(T, 0, n)")
		}
		return vals(func(vs []string) string { return k("[" + strings.Join(vs, ", ") + "]") })
	}
	return t.bind(x.Args[0], func(base string) string {
		return vals(func(vs []string) string { return k("(" + base + " ++ [" + strings.Join(vs, ", ") + "])") })
	})
}

// ---------------------------------------------------------------- statements

type smEnd func() string

func (t *smT) isPanic(s ast.Stmt) bool {
	es, ok := s.(*ast.ExprStmt)
	if !ok {
		return false
	}
	c, ok := es.X.(*ast.CallExpr)
	return ok && t.pkgFunc(c) == "builtin.panic"
}

// terminates: control never falls off the end of the list
func (t *smT) terminates(list []ast.Stmt) bool {
	if len(list) == 0 {
		return false
	}
	switch s := list[len(list)-1].(type) {
	case *ast.ReturnStmt:
		return true
	case *ast.BranchStmt:
		return s.Label == nil && (s.Tok == token.CONTINUE || s.Tok == token.BREAK)
	case *ast.ExprStmt:
		return t.isPanic(s)
	case *ast.BlockStmt:
		return t.terminates(s.List)
	case *ast.IfStmt:
		if s.Else == nil {
			return false
		}
		return t.terminates(s.Body.List) && t.terminates(smElse(s))
	case *ast.SwitchStmt:
		hasDefault := false
		cl := s.Body.List
		for i, c := range cl {
			cc := c.(*ast.CaseClause)
			if cc.List == nil {
				hasDefault = true
			}
			if smFallsThrough(cc) && i+1 < len(cl) {
				continue
			}
			if !t.terminates(cc.Body) {
				return false
			}
		}
		return hasDefault
	}
	return false
}

func smElse(s *ast.IfStmt) []ast.Stmt {
	switch e := s.Else.(type) {
	case *ast.BlockStmt:
		return e.List
	case *ast.IfStmt:
		return []ast.Stmt{e}
	}
	return nil
}

func smFallsThrough(cc *ast.CaseClause) bool {
	if len(cc.Body) == 0 {
		return false
	}
	b, ok := cc.Body[len(cc.Body)-1].(*ast.BranchStmt)
	return ok && b.Tok == token.FALLTHROUGH
}

// hasJumpSM: does n contain a return, continue, break, fallthrough or panic?
func (t *smT) hasJump(list []ast.Stmt) bool {
	found := false
	for _, s := range list {
		ast.Inspect(s, func(m ast.Node) bool {
			switch y := m.(type) {
			case *ast.ReturnStmt, *ast.BranchStmt:
				found = true
			case *ast.ExprStmt:
				if t.isPanic(y) {
					found = true
				}
			case *ast.ForStmt, *ast.RangeStmt, *ast.SwitchStmt:
				found = true // conservatively: translated only in statement position with a join
			}
			return !found
		})
	}
	return found
}

// assignedIn: the visible bindings that the statements assign (to or through), by identity of the root variable
func (t *smT) assignedIn(list []ast.Stmt) []smVar {
	set := map[types.Object]bool{}
	add := func(e ast.Expr) {
		if root, _, ok := t.pathOf(e); ok {
			if o := t.p.info.ObjectOf(root); o != nil {
				set[o] = true
			}
		}
	}
	for _, s := range list {
		ast.Inspect(s, func(m ast.Node) bool {
			switch y := m.(type) {
			case *ast.AssignStmt:
				for _, l := range y.Lhs {
					if id, ok := l.(*ast.Ident); ok && (id.Name == "_" || (y.Tok == token.DEFINE && t.p.info.Defs[id] != nil)) {
						continue
					}
					add(l)
				}
			case *ast.IncDecStmt:
				add(y.X)
			case *ast.CallExpr:
				// value-result operands and method receivers
				for _, a := range y.Args {
					if u, ok := a.(*ast.UnaryExpr); ok && u.Op == token.AND {
						if _, isLit := u.X.(*ast.CompositeLit); !isLit {
							add(u.X)
						}
					}
				}
				if sel, ok := y.Fun.(*ast.SelectorExpr); ok {
					if s := t.p.info.Selections[sel]; s != nil && s.Kind() == types.MethodVal {
						add(sel.X)
					}
				}
			}
			return true
		})
	}
	var res []smVar
	for _, v := range t.visible() {
		if v.obj != nil && set[v.obj] {
			res = append(res, v)
		}
	}
	return res
}

func smTuple(vs []smVar) string {
	var l []trLocal
	for _, v := range vs {
		l = append(l, trLocal{name: v.name, typ: v.typ})
	}
	return tuple(l)
}

func smTupleType(vs []smVar) string {
	var l []trLocal
	for _, v := range vs {
		l = append(l, trLocal{name: v.name, typ: v.typ})
	}
	return tupleType(l)
}

func smUnpack(vs []smVar, st string) string {
	var l []trLocal
	for _, v := range vs {
		l = append(l, trLocal{name: v.name, typ: v.typ})
	}
	return unpack(l, st, "")
}

func (t *smT) wrapRet(v string) string {
	if t.loop != nil {
		t.fail(t.body, "internal: return inside a loop")
	}
	if t.recv != "" {
		v = "(" + t.recv + ", " + v + ")"
	}
	return "some " + atom(v)
}

// checkVs: where a tuple of variables is handed on (to a join point, to what follows an if, to the next iteration
// of a loop) every name must still denote the variable it denoted where the tuple was formed: a declaration of the
// same name in between would be captured in the flattened translation
func (t *smT) checkVs(vs []smVar) {
	for _, v := range vs {
		cur := t.lookupName(v.name)
		for i := len(t.scope) - 1; i >= 0; i-- {
			if t.scope[i].name == v.name && t.scope[i].alias == nil {
				cur = &t.scope[i]
				break
			}
		}
		if cur == nil || cur.obj != v.obj {
			t.fail(t.body, "%s is hidden by another declaration of the same name where control leaves a branch or a loop body", v.name)
		}
	}
}

// join: the statements `rest` (followed by end) as a definition of their own; returns the call
func (t *smT) join(rest []ast.Stmt, end smEnd) string {
	t.njoin++
	name := fmt.Sprintf("%s_join%d", t.fn, t.njoin)
	vs := t.visible()
	saveScope := t.saveScope()
	body := t.stmts(rest, end)
	t.scope = saveScope
	var binds, args []string
	for _, v := range vs {
		binds = append(binds, fmt.Sprintf("(%s : %s)", v.name, v.typ))
		args = append(args, v.name)
	}
	res := t.ret
	if t.loop != nil {
		res = t.loopRes()
	}
	t.defs = append(t.defs, fmt.Sprintf("def %s (E : Env) %s : Option %s :=\n%s\n", name, strings.Join(binds, " "), res, smIndent(body)))
	t.joinVs = vs
	return fmt.Sprintf("%s E %s", name, strings.Join(args, " "))
}

func (t *smT) loopRes() string {
	s := "Step"
	if t.loop.brk {
		s = "StepB"
	}
	return fmt.Sprintf("(%s %s %s)", s, smTupleType(t.loop.vs), t.ret)
}

func (t *smT) stmts(list []ast.Stmt, end smEnd) string {
	if len(list) == 0 {
		return end()
	}
	s, rest := list[0], list[1:]
	cont := func() string { return t.stmts(rest, end) }
	// t.prev: the plain assignment translated just before s (consulted by assignStmt only); any other statement resets it
	t.prev, t.last = t.last, nil
	if ifs, ok := s.(*ast.IfStmt); ok && ifs.Init != nil {
		t.last = t.prev // the init statement of an if comes next
	}
	switch x := s.(type) {
	case *ast.BlockStmt:
		return t.stmts(append(append([]ast.Stmt{}, x.List...), rest...), end)
	case *ast.EmptyStmt:
		return cont()
	case *ast.ExprStmt:
		if t.isPanic(x) {
			return "none"
		}
		if c, ok := x.X.(*ast.CallExpr); ok {
			if sel, ok := c.Fun.(*ast.SelectorExpr); ok {
				if ms := t.p.info.Selections[sel]; ms != nil && ms.Kind() == types.MethodVal && smNamed(ms.Recv()) == "Call" && sel.Sel.Name == "init" {
					// PATH.init(a, b): (*Call).init = the model's Call.init, written back to PATH
					return t.bind(sel.X, func(c0 string) string {
						return t.bindAll(c.Args, func(a []string) string {
							return t.assignPath(x, sel.X, fmt.Sprintf("(Call.init %s %s %s)", atom(c0), atom(a[0]), atom(a[1])), cont)
						})
					})
				}
			}
		}
		t.fail(x, "expression statement")
	case *ast.ReturnStmt:
		if len(x.Results) != len(t.resTypes) {
			t.fail(x, "return with a different number of values than the function has results")
		}
		var vals []string
		var rec func(i int) string
		rec = func(i int) string {
			if i == len(x.Results) {
				if len(vals) == 1 {
					return t.wrapRet(vals[0])
				}
				return t.wrapRet("(" + strings.Join(vals, ", ") + ")")
			}
			return t.bindAs(x.Results[i], t.resTypes[i], func(v string) string { vals = append(vals, v); return rec(i + 1) })
		}
		return rec(0)
	case *ast.BranchStmt:
		if x.Label != nil || t.loop == nil {
			t.fail(x, "unsupported %s", x.Tok)
		}
		switch x.Tok {
		case token.CONTINUE:
			t.checkVs(t.loop.vs)
			return "some (.cont " + atom(smTuple(t.loop.vs)) + ")"
		case token.BREAK:
			if !t.loop.brk {
				t.fail(x, "internal: break")
			}
			t.checkVs(t.loop.vs)
			return "some (.brk " + atom(smTuple(t.loop.vs)) + ")"
		}
		t.fail(x, "unsupported %s", x.Tok)
	case *ast.DeclStmt:
		return t.declStmt(x, rest, end)
	case *ast.AssignStmt:
		return t.assignStmt(x, rest, end)
	case *ast.IfStmt:
		return t.ifStmt(x, rest, end)
	case *ast.SwitchStmt:
		return t.switchStmt(x, rest, end)
	case *ast.ForStmt, *ast.RangeStmt:
		return t.loopStmt(x, cont)
	}
	t.fail(s, "unsupported statement %T", s)
	return ""
}

// declStmt: `var cur *T` directly followed by `if len(X) != 0 { cur = X[len(X)-1] }`
func (t *smT) declStmt(x *ast.DeclStmt, rest []ast.Stmt, end smEnd) string {
	bad := func() { t.fail(x, "declaration other than `var p *T; if len(X) != 0 { p = X[len(X)-1] }`") }
	gd, ok := x.Decl.(*ast.GenDecl)
	if !ok || gd.Tok != token.VAR || len(gd.Specs) != 1 || len(rest) == 0 {
		bad()
	}
	vs := gd.Specs[0].(*ast.ValueSpec)
	if len(vs.Names) != 1 || len(vs.Values) != 0 {
		bad()
	}
	obj := t.p.info.Defs[vs.Names[0]]
	if _, isPtr := obj.Type().(*types.Pointer); !isPtr {
		bad()
	}
	ifs, ok := rest[0].(*ast.IfStmt)
	if !ok || ifs.Init != nil || ifs.Else != nil || len(ifs.Body.List) != 1 {
		bad()
	}
	cond, ok := ifs.Cond.(*ast.BinaryExpr)
	if !ok || cond.Op != token.NEQ {
		bad()
	}
	lc, ok := cond.X.(*ast.CallExpr)
	if tv, ok2 := t.p.info.Types[cond.Y]; !ok || !ok2 || tv.Value == nil || tv.Value.ExactString() != "0" || t.pkgFunc(lc) != "builtin.len" {
		bad()
	}
	X := lc.Args[0]
	as, ok := ifs.Body.List[0].(*ast.AssignStmt)
	if !ok || as.Tok != token.ASSIGN || len(as.Lhs) != 1 || len(as.Rhs) != 1 {
		bad()
	}
	if id, ok := as.Lhs[0].(*ast.Ident); !ok || t.p.info.Uses[id] != obj {
		bad()
	}
	ix, ok := as.Rhs[0].(*ast.IndexExpr)
	if !ok || types.ExprString(ix.X) != types.ExprString(X) || types.ExprString(ix.Index) != "len("+types.ExprString(X)+") - 1" {
		bad()
	}
	xroot, xsteps, ok := t.rawPath(X)
	if !ok {
		bad()
	}
	for _, st := range xsteps {
		if st.index != nil {
			bad()
		}
	}
	t.aliasUseGuard(obj, rest[1:])
	t.aliasKillGuard(obj, t.p.info.ObjectOf(xroot), xsteps, t.body.List)
	return t.bind(X, func(xs string) string {
		iname := lid(vs.Names[0].Name) + "_i"
		sid := &ast.Ident{Name: iname, NamePos: x.Pos()}
		t.synth[sid] = iname
		t.declare(smVar{name: iname, typ: "Nat"})
		al := &ast.IndexExpr{X: ix.X, Index: sid, Lbrack: x.Pos()}
		t.p.info.Types[al] = types.TypeAndValue{Type: obj.Type()}
		t.p.info.Types[sid] = types.TypeAndValue{Type: types.Typ[types.Int]}
		t.declare(smVar{name: lid(vs.Names[0].Name), obj: obj, alias: al})
		return fmt.Sprintf("let %s : Nat := ptrLast %s\n%s", iname, atom(xs), t.stmts(rest[1:], end))
	})
}

// aliasUseGuard: every use of the alias variable is the operand of a field selection (or, for a slice alias,
// of an index expression or len): it is never copied, compared, passed or assigned
func (t *smT) aliasUseGuard(obj types.Object, list []ast.Stmt) {
	ok := map[*ast.Ident]bool{}
	_, isPtr := obj.Type().(*types.Pointer)
	for _, s := range list {
		ast.Inspect(s, func(m ast.Node) bool {
			switch y := m.(type) {
			case *ast.SelectorExpr:
				if id, is := y.X.(*ast.Ident); is && isPtr {
					ok[id] = true
				}
			case *ast.IndexExpr:
				if id, is := y.X.(*ast.Ident); is && !isPtr {
					ok[id] = true
				}
			case *ast.CallExpr:
				if t.pkgFunc(y) == "builtin.len" && !isPtr {
					if id, is := y.Args[0].(*ast.Ident); is {
						ok[id] = true
					}
				}
			}
			return true
		})
	}
	for _, s := range list {
		ast.Inspect(s, func(m ast.Node) bool {
			if id, is := m.(*ast.Ident); is && t.p.info.Uses[id] == obj && !ok[id] {
				t.fail(id, "the alias %s is used other than as the root of a path (it would escape or be copied)", id.Name)
			}
			return true
		})
	}
	// an assignment whose left-hand side is the alias itself
	for _, s := range list {
		ast.Inspect(s, func(m ast.Node) bool {
			if as, is := m.(*ast.AssignStmt); is {
				for _, l := range as.Lhs {
					if id, is := l.(*ast.Ident); is && t.p.info.ObjectOf(id) == obj {
						t.fail(id, "the alias %s is assigned", id.Name)
					}
				}
			}
			return true
		})
	}
}

// stepsPrefix: is w (a written path) a prefix of a (an aliased path)?  Index steps match any index.
func smStepsPrefix(w, a []smStep) bool {
	if len(w) > len(a) {
		return false
	}
	for i := range w {
		if (w[i].index == nil) != (a[i].index == nil) {
			return false
		}
		if w[i].index == nil && (w[i].sn != a[i].sn || w[i].field != a[i].field) {
			return false
		}
	}
	return true
}

// writesPrefix: does statement s (not looking into nested statements lists it owns) assign a prefix of the path?
func (t *smT) writesPrefix(s ast.Node, rootObj types.Object, a []smStep) bool {
	found := false
	ast.Inspect(s, func(m ast.Node) bool {
		if as, ok := m.(*ast.AssignStmt); ok {
			for _, l := range as.Lhs {
				if id, isId := l.(*ast.Ident); isId && (id.Name == "_" || t.p.info.Defs[id] != nil) {
					continue
				}
				// the alias table is not consulted here: paths are compared as written, rooted in the same variable
				root, steps, ok := t.rawPath(l)
				if ok && t.p.info.ObjectOf(root) == rootObj && smStepsPrefix(steps, a) {
					found = true
				}
			}
		}
		return !found
	})
	return found
}

// rawPath: pathOf without alias expansion
func (t *smT) rawPath(e ast.Expr) (*ast.Ident, []smStep, bool) {
	save := t.scope
	t.scope = nil
	defer func() { t.scope = save }()
	return t.pathOf(e)
}

func (t *smT) usesObj(n ast.Node, obj types.Object) bool {
	found := false
	ast.Inspect(n, func(m ast.Node) bool {
		if id, ok := m.(*ast.Ident); ok && t.p.info.Uses[id] == obj {
			found = true
		}
		return !found
	})
	return found
}

// aliasKillGuard: after a statement that assigns a prefix of the aliased path X, the alias is not used again on
// any control path through that statement: not in the statements that follow it in its list, nor in those that
// follow the enclosing statements (for a switch clause that falls through: the following clause too).
func (t *smT) aliasKillGuard(alias, rootObj types.Object, xsteps []smStep, top []ast.Stmt) {
	var walk func(list []ast.Stmt, after [][]ast.Stmt)
	check := func(s ast.Stmt, following [][]ast.Stmt) {
		for _, l := range following {
			for _, f := range l {
				if t.usesObj(f, alias) {
					t.fail(s, "the state the alias %s points into is assigned here and the alias is used afterwards (line %d)", alias.Name(), t.p.fset.Position(f.Pos()).Line)
				}
			}
		}
	}
	walk = func(list []ast.Stmt, after [][]ast.Stmt) {
		for i, s := range list {
			following := append([][]ast.Stmt{list[i+1:]}, after...)
			switch y := s.(type) {
			case *ast.BlockStmt:
				walk(y.List, following)
			case *ast.IfStmt:
				if y.Init != nil && t.writesPrefix(y.Init, rootObj, xsteps) {
					check(s, append([][]ast.Stmt{{&ast.ExprStmt{X: y.Cond}}, y.Body.List, smElse(y)}, following...))
				}
				walk(y.Body.List, following)
				walk(smElse(y), following)
			case *ast.SwitchStmt:
				cl := y.Body.List
				for j, c := range cl {
					cc := c.(*ast.CaseClause)
					f := following
					for k := j; k+1 < len(cl) && smFallsThrough(cl[k].(*ast.CaseClause)); k++ {
						f = append([][]ast.Stmt{cl[k+1].(*ast.CaseClause).Body}, f...)
					}
					walk(cc.Body, f)
				}
			case *ast.ForStmt:
				// a loop body may run again: everything in the loop follows
				walk(y.Body.List, append([][]ast.Stmt{y.Body.List}, following...))
			case *ast.RangeStmt:
				walk(y.Body.List, append([][]ast.Stmt{y.Body.List}, following...))
			default:
				if t.writesPrefix(s, rootObj, xsteps) {
					check(s, following)
				}
			}
		}
	}
	walk(top, nil)
}

// ---------------------------------------------------------------- driver

func (p *pkgInfo) translateScanSM() string {
	ns := "PP.TrSM"
	var sb strings.Builder
	fmt.Fprintf(&sb, "/- GENERATED by /verif/extract (translate_scansm.go) from stack/context.go — do not edit. -/\nimport PP.Go.PreludeScanSM\nset_option linter.unusedVariables false\nnamespace %s\nopen PP PP.Go\n\n", ns)
	var failed []string
	var sites [][2]string
	type sig struct{ name, typ string }
	var sigs []sig
	var bodies []string
	inGroup := map[*ast.FuncDecl]bool{}
	for _, f := range trFuncsSM {
		if fd := p.funcDecl(f[0], f[1]); fd != nil {
			inGroup[fd] = true
		}
	}
	// package-wide checks: the byte literals are never assigned nor have their address taken; parseFunc / parseFile are
	// only called from the functions of the group (where the operands are checked)
	for _, file := range p.files {
		for _, d := range file.Decls {
			fd, isFn := d.(*ast.FuncDecl)
			ast.Inspect(d, func(n ast.Node) bool {
				isByteVar := func(e ast.Expr) bool {
					for {
						switch y := e.(type) {
						case *ast.IndexExpr:
							e = y.X
							continue
						case *ast.SliceExpr:
							e = y.X
							continue
						case *ast.ParenExpr:
							e = y.X
							continue
						}
						break
					}
					id, ok := e.(*ast.Ident)
					if !ok || !smByteVars[id.Name] {
						return false
					}
					v, ok := p.info.Uses[id].(*types.Var)
					return ok && v.Parent() == p.pkg.Scope()
				}
				switch x := n.(type) {
				case *ast.AssignStmt:
					for _, l := range x.Lhs {
						if isByteVar(l) {
							failed = append(failed, fmt.Sprintf("a byte literal of the package is assigned (%s)", types.ExprString(l)))
						}
					}
				case *ast.UnaryExpr:
					if x.Op == token.AND && isByteVar(x.X) {
						failed = append(failed, "the address of a byte literal of the package is taken")
					}
				case *ast.CallExpr:
					if id, ok := x.Fun.(*ast.Ident); ok && (id.Name == "parseFunc" || id.Name == "parseFile") {
						if fn, ok := p.info.Uses[id].(*types.Func); ok && fn.Parent() == p.pkg.Scope() && !(isFn && inGroup[fd]) {
							failed = append(failed, id.Name+" is called outside the group")
						}
					}
				}
				return true
			})
		}
	}
	for _, f := range trFuncsSM {
		fd := p.funcDecl(f[0], f[1])
		name := trName(f[0], f[1])
		if f[0] == "scanningState" {
			name = f[1]
		}
		if fd == nil {
			failed = append(failed, fmt.Sprintf("%s.%s: function not found", f[0], f[1]))
			continue
		}
		t := &smT{p: p, fn: name, synth: map[*ast.Ident]string{}, sites: &sites, body: fd.Body}
		func() {
			defer func() {
				if r := recover(); r != nil {
					if tf, ok := r.(trFail); ok {
						failed = append(failed, fmt.Sprintf("%s.%s: %s", f[0], f[1], tf.msg))
						return
					}
					panic(r)
				}
			}()
			var binds, ptypes []string
			pre := ""
			add := func(fl *ast.FieldList, isRecv bool) {
				if fl == nil {
					return
				}
				for _, fld := range fl.List {
					gty := t.typeOf(fld.Type)
					ty := t.leanType(fld, gty)
					for _, n := range fld.Names {
						_, isPtr := gty.(*types.Pointer)
						v := smVar{name: lid(n.Name), typ: ty, obj: p.info.Defs[n]}
						if isPtr {
							// a pointer parameter the function writes through: threaded, returned with the result
							if t.recv != "" {
								t.fail(fld, "two pointer parameters")
							}
							t.recv = v.name
						}
						if name == "parseFunc" && isPtr {
							// zero at every call (checked at the call sites, and that there is no other call in the package)
							v.zero = true
							pre = fmt.Sprintf("let %s : %s := {}\n", v.name, ty)
							t.declare(v)
							continue
						}
						t.declare(v)
						binds = append(binds, fmt.Sprintf("(%s : %s)", v.name, ty))
						ptypes = append(ptypes, ty)
					}
				}
			}
			add(fd.Recv, true)
			add(fd.Type.Params, false)
			var rts []string
			for _, rf := range fd.Type.Results.List {
				n := len(rf.Names)
				if n == 0 {
					n = 1
				}
				for ; n > 0; n-- {
					rts = append(rts, t.leanType(fd, t.typeOf(rf.Type)))
					t.resTypes = append(t.resTypes, t.typeOf(rf.Type))
				}
			}
			t.ret = rts[0]
			if len(rts) > 1 {
				t.ret = "(" + strings.Join(rts, " × ") + ")"
			}
			if t.recv == "" {
				t.fail(fd, "a function of this group must have a pointer receiver or parameter")
			}
			t.ret = "(" + t.lookupName(t.recv).typ + " × " + t.ret + ")"
			body := t.stmts(fd.Body.List, func() string { t.fail(fd, "function can fall off its end"); return "" })
			pos := p.fset.Position(fd.Pos())
			var out strings.Builder
			for _, d := range t.defs {
				out.WriteString(d + "\n")
			}
			fmt.Fprintf(&out, "/-- %s.%s (%s:%d) -/\ndef %s (E : Env) %s : Option %s :=\n%s%s\n", f[0], f[1], pos.Filename[strings.LastIndex(pos.Filename, "/")+1:], pos.Line, name, strings.Join(binds, " "), t.ret, "", smIndent(pre+body))
			sigs = append(sigs, sig{name, strings.Join(append(ptypes, "Option "+t.ret), " → ")})
			bodies = append(bodies, out.String())
		}()
	}
	if len(failed) != 0 {
		sort.Strings(failed)
		fmt.Fprintf(&sb, "/-- The translator could not handle the current source. -/\ntheorem translation_failed : %s = \"\" := rfl\n", leanStr(strings.Join(failed, "; ")))
		fmt.Fprintf(&sb, "\nend %s\n", ns)
		return sb.String()
	}
	sort.Slice(sites, func(i, j int) bool { return sites[i][0] < sites[j][0] })
	{
		var u [][2]string
		for i, s := range sites {
			if i == 0 || s != sites[i-1] {
				u = append(u, s)
			}
		}
		sites = u
	}
	sb.WriteString("/-- every error the translated functions create: (constant format string in the Go source, constructor of the\nmodel's `Err` it is translated to; \"=\" = the tag of the error it wraps), sorted by format, without repetitions -/\ndef errorSites : List (String × String) := [\n")
	for i, s := range sites {
		c := ","
		if i == len(sites)-1 {
			c = ""
		}
		fmt.Fprintf(&sb, "  (%s, %s)%s\n", leanStr(s[0]), leanStr(s[1]), c)
	}
	sb.WriteString("]\n\n/-- the translated functions, as callees -/\nstructure Env where\n")
	for _, s := range sigs {
		fmt.Fprintf(&sb, "  %s : %s\n", s.name, s.typ)
	}
	sb.WriteString("\n")
	for _, b := range bodies {
		sb.WriteString(b + "\n")
	}
	fmt.Fprintf(&sb, "end %s\n", ns)
	return sb.String()
}

// smIndent: every line of a definition's body is indented (Lean's position checks for arguments and alternatives)
func smIndent(body string) string {
	lines := strings.Split(strings.TrimRight(body, "\n"), "\n")
	for i := range lines {
		lines[i] = "  " + lines[i]
	}
	return strings.Join(lines, "\n")
}

func (t *smT) lookupName(n string) *smVar {
	for i := len(t.scope) - 1; i >= 0; i-- {
		if t.scope[i].name == n {
			return &t.scope[i]
		}
	}
	return nil
}

// ---------------------------------------------------------------- assignments, if, switch, loops

func (t *smT) define(id *ast.Ident, typ, val string, extra func(*smVar)) string {
	if id.Name == "_" {
		return ""
	}
	obj := t.p.info.Defs[id]
	if obj == nil {
		// a, b := … where a already exists: an assignment
		v := t.use(id)
		if v.alias != nil {
			t.fail(id, "assignment to an alias")
		}
		v.zero, v.fresh = false, false
		return fmt.Sprintf("let %s : %s := %s\n", v.name, v.typ, val)
	}
	v := smVar{name: lid(id.Name), typ: typ, obj: obj}
	if extra != nil {
		extra(&v)
	}
	t.declare(v)
	return fmt.Sprintf("let %s : %s := %s\n", v.name, typ, val)
}

func (t *smT) assignStmt(x *ast.AssignStmt, rest []ast.Stmt, end smEnd) string {
	last := t.prev
	cont := func() string { return t.stmts(rest, end) }
	if x.Tok != token.DEFINE && x.Tok != token.ASSIGN {
		t.fail(x, "assignment operator %s", x.Tok)
	}
	if len(x.Rhs) != 1 {
		t.fail(x, "parallel assignment")
	}
	call, isCall := x.Rhs[0].(*ast.CallExpr)
	fname := ""
	if isCall {
		fname = t.pkgFunc(call)
	}
	if len(x.Lhs) == 2 {
		if !isCall {
			t.fail(x, "multiple assignment from something other than a call")
		}
		var ids [2]*ast.Ident
		for i, l := range x.Lhs {
			id, ok := l.(*ast.Ident)
			if !ok {
				t.fail(x, "multiple assignment to something other than variables")
			}
			ids[i] = id
		}
		tup := t.typeOf(call).(*types.Tuple)
		ty := func(i int) string { return t.leanType(x, tup.At(i).Type()) }
		switch fname {
		case "strconv.ParseUint":
			// v, err := strconv.ParseUint(x, 0, 64); if err != nil { leave }: a match on the model's parseUint0
			bad := func() {
				t.fail(x, "strconv.ParseUint must be used as: v, err := strconv.ParseUint(x, 0, 64); if err != nil { return … }")
			}
			if x.Tok != token.DEFINE || t.p.info.Defs[ids[0]] == nil || t.p.info.Defs[ids[1]] == nil || len(rest) == 0 {
				bad()
			}
			for i, want := range []string{"0", "64"} {
				if tv, ok := t.p.info.Types[call.Args[i+1]]; !ok || tv.Value == nil || tv.Value.ExactString() != want {
					bad()
				}
			}
			vObj, errObj := t.p.info.Defs[ids[0]], t.p.info.Defs[ids[1]]
			g, ok := rest[0].(*ast.IfStmt)
			if !ok || g.Init != nil || g.Else != nil || !t.terminates(g.Body.List) {
				bad()
			}
			c, ok := g.Cond.(*ast.BinaryExpr)
			if !ok || c.Op != token.NEQ || !t.isNil(c.Y) {
				bad()
			}
			if ci, ok := c.X.(*ast.Ident); !ok || t.p.info.Uses[ci] != errObj {
				bad()
			}
			for _, s := range g.Body.List {
				if t.usesObj(s, vObj) || t.usesObj(s, errObj) {
					t.fail(x, "the error of strconv.ParseUint is read (only its being nil is modelled), or the value is read where it failed")
				}
			}
			for _, s := range rest[1:] {
				if t.usesObj(s, errObj) {
					t.fail(x, "the error of strconv.ParseUint is read after the test")
				}
			}
			return t.bind(call.Args[0], func(a string) string {
				save := t.saveScope()
				failB := t.stmts(g.Body.List, func() string { t.fail(x, "unreachable"); return "" })
				t.scope = save
				t.declare(smVar{name: lid(ids[0].Name), typ: "Nat", obj: vObj})
				okB := t.stmts(rest[1:], end)
				t.scope = save
				return fmt.Sprintf("(match parseUint0 %s with\n| none => (\n%s)\n| some %s => (\n%s))", atom(a), failB, lid(ids[0].Name), okB)
			})
		case "pkg.parseFunc":
			// the callee starts from the zero Call (see the header): the operand must be the address of a zero local
			u, ok := call.Args[0].(*ast.UnaryExpr)
			var cid *ast.Ident
			if ok && u.Op == token.AND {
				cid, _ = u.X.(*ast.Ident)
			}
			if cid == nil {
				t.fail(x, "parseFunc must be called with the address of a local variable")
			}
			cv := t.use(cid)
			if !cv.zero {
				t.fail(x, "parseFunc is called with the address of %s, which is not known to hold the zero Call here", cid.Name)
			}
			cv.zero = false
			cname, ctyp := cv.name, cv.typ
			return t.bind(call.Args[1], func(a string) string {
				r := t.fresh()
				t.nbind++
				s := fmt.Sprintf("(E.parseFunc %s).bind fun %s =>\nlet %s : %s := %s.1\n", atom(a), r, cname, ctyp, r)
				s += t.define(ids[0], ty(0), r+".2.1", nil)
				s += t.define(ids[1], ty(1), r+".2.2", nil)
				return s + cont()
			})
		case "pkg.parseFile":
			u, ok := call.Args[0].(*ast.UnaryExpr)
			if !ok || u.Op != token.AND {
				t.fail(x, "parseFile must be called with the address of a path")
			}
			return t.bind(u.X, func(c0 string) string {
				return t.bind(call.Args[1], func(a string) string {
					r := t.fresh()
					t.nbind++
					return fmt.Sprintf("(E.parseFile %s %s).bind fun %s =>\n", atom(c0), atom(a), r) +
						t.assignPath(x, u.X, r+".1", func() string {
							s := t.define(ids[0], ty(0), r+".2.1", nil)
							s += t.define(ids[1], ty(1), r+".2.2", nil)
							return s + cont()
						})
				})
			})
		case "pkg.atou", "pkg.parseArgs":
			return t.bind(call, func(v string) string {
				r := t.fresh()
				s := fmt.Sprintf("let %s := %s\n", r, v)
				s += t.define(ids[0], ty(0), r+".1", nil)
				s += t.define(ids[1], ty(1), r+".2", nil)
				return s + cont()
			})
		}
		t.fail(x, "multiple assignment from %s", types.ExprString(call.Fun))
	}
	if len(x.Lhs) != 1 {
		t.fail(x, "multiple assignment")
	}
	// err := PATH.Func.Init(arg)
	if isCall {
		if sel, ok := call.Fun.(*ast.SelectorExpr); ok {
			if ms := t.p.info.Selections[sel]; ms != nil && ms.Kind() == types.MethodVal && smNamed(ms.Recv()) == "Func" && sel.Sel.Name == "Init" {
				id, isId := x.Lhs[0].(*ast.Ident)
				if !isId || x.Tok != token.DEFINE {
					t.fail(x, "the result of Func.Init must be declared: err := ….Func.Init(…)")
				}
				// (*Func).Init is the model's funcInit on a ZERO receiver only
				zero := false
				root, steps, okp := t.pathOf(sel.X)
				if okp && len(steps) == 1 && steps[0].sn == "Call" && steps[0].field == "Func" {
					if v := t.lookup(t.p.info.ObjectOf(root)); v != nil && v.zero {
						zero = true
					}
				}
				if la, ok := last.(*ast.AssignStmt); ok && len(la.Lhs) == 1 && len(la.Rhs) == 1 && la.Tok == token.ASSIGN {
					if mk, ok := la.Rhs[0].(*ast.CallExpr); ok && t.pkgFunc(mk) == "builtin.make" && len(mk.Args) == 2 &&
						types.ExprString(la.Lhs[0])+"[0].Func" == types.ExprString(sel.X) {
						zero = true
					}
				}
				if !zero {
					t.fail(x, "Func.Init on a receiver that is not known to be the zero Func (the model's funcInit is Func.Init on a zero receiver)")
				}
				return t.bind(call.Args[0], func(a string) string {
					r := t.fresh()
					return fmt.Sprintf("let %s := funcInitZ %s\n", r, atom(a)) + t.assignPath(x, sel.X, r+".1", func() string {
						return t.define(id, "(Option Err)", r+".2", nil) + cont()
					})
				})
			}
		}
	}
	if x.Tok == token.DEFINE {
		id, ok := x.Lhs[0].(*ast.Ident)
		if !ok {
			t.fail(x, "define of non-identifier")
		}
		rhs := x.Rhs[0]
		ty := t.typeOf(rhs)
		if cl, ok := rhs.(*ast.CompositeLit); ok && len(cl.Elts) == 0 && smNamed(ty) == "Call" {
			return t.define(id, "Call", "{}", func(v *smVar) { v.zero = true }) + cont()
		}
		if u, ok := rhs.(*ast.UnaryExpr); ok && u.Op == token.AND {
			if _, ok := u.X.(*ast.CompositeLit); !ok {
				t.fail(x, "address of something other than a composite literal")
			}
			return t.bind(rhs, func(v string) string {
				return t.define(id, t.leanType(x, ty), v, func(sv *smVar) { sv.fresh = true }) + cont()
			})
		}
		if strings.HasPrefix(fname, "regexp:") && strings.HasSuffix(fname, ".FindSubmatch") {
			re := strings.TrimSuffix(strings.TrimPrefix(fname, "regexp:"), ".FindSubmatch")
			return t.bind(rhs, func(v string) string {
				return t.define(id, "(Option (List Bytes))", v, func(sv *smVar) { sv.subm = smRegexps[re] + 1 }) + cont()
			})
		}
		if _, isSl := ty.Underlying().(*types.Slice); isSl && !smIsBytes(ty) && !isCall {
			// c := PATH of slice type: an alias of PATH, its indices evaluated now
			return t.sliceAlias(x, id, rhs, rest, end)
		}
		if _, isPtr := ty.(*types.Pointer); isPtr {
			t.fail(x, "a pointer variable")
		}
		return t.bind(rhs, func(v string) string {
			return t.define(id, t.leanType(x, ty), v, nil) + cont()
		})
	}
	// lhs = rhs
	lhs, rhs := x.Lhs[0], x.Rhs[0]
	if id, ok := lhs.(*ast.Ident); ok && id.Name == "_" {
		t.fail(x, "assignment to _")
	}
	if _, isSl := t.typeOf(rhs).Underlying().(*types.Slice); isSl && !smIsBytes(t.typeOf(rhs)) {
		// a slice that is not bytes may not be shared: only fresh values are assigned
		ok := t.isNil(rhs)
		if isCall && (fname == "builtin.append" || fname == "builtin.make" || fname == "bytes.Split") {
			ok = true
		}
		if _, isLit := rhs.(*ast.CompositeLit); isLit {
			ok = true
		}
		if fname == "builtin.append" && !call.Ellipsis.IsValid() {
			if _, isMk := call.Args[0].(*ast.CallExpr); !isMk && types.ExprString(call.Args[0]) != types.ExprString(lhs) {
				ok = false // append(Q, …) assigned to P: P and Q could share their backing array
			}
		}
		if !ok {
			t.fail(x, "assignment of a slice that is not a fresh value, nil, or P = append(P, …)")
		}
	}
	// P = append(…, x) directly followed by Q = len(P) - 1: the difference is exact
	if fname == "builtin.append" && !call.Ellipsis.IsValid() && len(call.Args) >= 2 && len(rest) > 0 {
		if nx, ok := rest[0].(*ast.AssignStmt); ok && nx.Tok == token.ASSIGN && len(nx.Lhs) == 1 && len(nx.Rhs) == 1 &&
			types.ExprString(nx.Rhs[0]) == "len("+types.ExprString(lhs)+") - 1" {
			return t.bind(rhs, func(v string) string {
				return t.assignPath(x, lhs, v, func() string {
					return t.bind(lhs, func(p string) string {
						return t.assignPath(nx, nx.Lhs[0], "(len "+atom(p)+" - 1)", func() string { return t.stmts(rest[1:], end) })
					})
				})
			})
		}
	}
	return t.bindAs(rhs, t.typeOf(lhs), func(v string) string {
		return t.assignPath(x, lhs, v, func() string {
			t.last = x
			return cont()
		})
	})
}

// sliceAlias: c := PATH (a slice that is not bytes)
func (t *smT) sliceAlias(x *ast.AssignStmt, id *ast.Ident, rhs ast.Expr, rest []ast.Stmt, end smEnd) string {
	obj := t.p.info.Defs[id]
	if _, _, ok := t.pathOf(rhs); !ok {
		t.fail(x, "a slice variable that is not bound to a path")
	}
	t.aliasUseGuard(obj, rest)
	// no statement between the declaration and the last use assigns a prefix of the path
	lastUse := -1
	for i, s := range rest {
		if t.usesObj(s, obj) {
			lastUse = i
		}
	}
	rroot, rsteps, _ := t.rawPath(rhs)
	for i := 0; i <= lastUse; i++ {
		if t.writesPrefix(rest[i], t.p.info.ObjectOf(rroot), rsteps) {
			t.fail(rest[i], "a prefix of the path %s aliases is assigned while the alias is live", id.Name)
		}
	}
	// evaluate the index sub-expressions now
	var rebuild func(e ast.Expr, k func(ast.Expr) string) string
	n := 0
	rebuild = func(e ast.Expr, k func(ast.Expr) string) string {
		switch y := e.(type) {
		case *ast.ParenExpr:
			return rebuild(y.X, k)
		case *ast.SelectorExpr:
			return rebuild(y.X, func(nx ast.Expr) string {
				c := *y
				c.X = nx
				t.p.info.Selections[&c] = t.p.info.Selections[y]
				t.p.info.Types[&c] = t.p.info.Types[y]
				return k(&c)
			})
		case *ast.IndexExpr:
			return rebuild(y.X, func(nx ast.Expr) string {
				return t.bindIndex(y.Index, func(i string) string {
					n++
					iname := fmt.Sprintf("%s_i%d", lid(id.Name), n)
					sid := &ast.Ident{Name: iname, NamePos: y.Pos()}
					t.synth[sid] = iname
					t.p.info.Types[sid] = types.TypeAndValue{Type: types.Typ[types.Int]}
					t.declare(smVar{name: iname, typ: "Nat"})
					c := *y
					c.X, c.Index = nx, sid
					t.p.info.Types[&c] = t.p.info.Types[y]
					return fmt.Sprintf("let %s : Nat := %s\n", iname, i) + k(&c)
				})
			})
		case *ast.Ident:
			return k(y)
		}
		t.fail(x, "a slice variable that is not bound to a path")
		return ""
	}
	return rebuild(rhs, func(al ast.Expr) string {
		t.declare(smVar{name: lid(id.Name), obj: obj, alias: al})
		return t.stmts(rest, end)
	})
}

func (t *smT) ifStmt(x *ast.IfStmt, rest []ast.Stmt, end smEnd) string {
	if len(rest) > 0 && t.makeIdiom(x, rest[0]) {
		// if P == nil { P = make(T, 0, n) }; P = append(P, …): see the header
		return t.stmts(rest, end)
	}
	if x.Init != nil {
		// if init; cond { … } == { init; if cond { … } }: what init declares is not visible after the if in Go; here the
		// binding stays, and every later use of that name is checked to denote its own variable (use)
		y := *x
		y.Init = nil
		return t.stmts(append([]ast.Stmt{x.Init, &y}, rest...), end)
	}
	t.last = nil
	el := smElse(x)
	thenT := t.terminates(x.Body.List)
	elseT := x.Else != nil && t.terminates(el)
	// `if err != nil`: the error is known to be non-nil in the then-branch
	var guard types.Object
	if c, ok := x.Cond.(*ast.BinaryExpr); ok && c.Op == token.NEQ && t.isNil(c.Y) {
		if id, ok := c.X.(*ast.Ident); ok && smIsError(t.typeOf(id)) {
			guard = t.p.info.ObjectOf(id)
			for _, v := range t.assignedIn(x.Body.List) {
				if v.obj == guard {
					guard = nil
				}
			}
		}
	}
	branch := func(list []ast.Stmt, e smEnd, g types.Object) string {
		save := t.saveScope()
		if g != nil {
			t.guards = append(t.guards, g)
		}
		t.last = nil
		r := t.stmts(list, e)
		if g != nil {
			t.guards = t.guards[:len(t.guards)-1]
		}
		t.scope = save
		t.last = nil
		return r
	}
	unreachable := func() string { t.fail(x, "unreachable"); return "" }
	return t.bind(x.Cond, func(c string) string {
		ite := func(a, b string) string { return fmt.Sprintf("if %s then (\n%s)\nelse (\n%s)", c, a, b) }
		switch {
		case thenT && elseT:
			if len(rest) != 0 {
				t.fail(x, "statements after an if whose branches both leave")
			}
			return ite(branch(x.Body.List, unreachable, guard), branch(el, unreachable, nil))
		case thenT:
			return ite(branch(x.Body.List, unreachable, guard), branch(append(append([]ast.Stmt{}, el...), rest...), end, nil))
		case elseT:
			return ite(branch(append(append([]ast.Stmt{}, x.Body.List...), rest...), end, guard), branch(el, unreachable, nil))
		}
		if len(rest) == 0 {
			return ite(branch(x.Body.List, end, guard), branch(el, end, nil))
		}
		if !t.hasJump(x.Body.List) && !t.hasJump(el) {
			// no branch leaves: thread the variables the branches assign
			vs := t.assignedIn([]ast.Stmt{x})
			fall := func() string { t.checkVs(vs); return "some " + atom(smTuple(vs)) }
			a := branch(x.Body.List, fall, guard)
			b := branch(el, fall, nil)
			for i := range t.scope {
				t.scope[i].zero = false
			}
			pat := smTuple(vs)
			un := ""
			if len(vs) == 0 {
				pat = "_"
			}
			if len(vs) > 1 {
				pat = "st"
				un = smUnpack(vs, "st")
			}
			t.nbind++
			return fmt.Sprintf("(%s).bind fun %s =>\n%s%s", ite(a, b), pat, un, t.stmts(rest, end))
		}
		// a join point: the rest is a definition of its own
		for i := range t.scope {
			t.scope[i].zero = false
		}
		j := t.join(rest, end)
		jvs := t.joinVs
		jend := func() string { t.checkVs(jvs); return j }
		return ite(branch(x.Body.List, jend, guard), branch(el, jend, nil))
	})
}

func (t *smT) switchStmt(x *ast.SwitchStmt, rest []ast.Stmt, end smEnd) string {
	t.last = nil
	if x.Init != nil || x.Tag == nil || len(rest) != 0 || !t.terminates([]ast.Stmt{x}) {
		t.fail(x, "switch other than a final `switch tag` all of whose clauses leave")
	}
	if !t.isPure(x.Tag) {
		t.fail(x, "switch tag that can panic or has an effect")
	}
	cl := x.Body.List
	var body func(j int) []ast.Stmt
	body = func(j int) []ast.Stmt {
		cc := cl[j].(*ast.CaseClause)
		for i, s := range cc.Body {
			if b, ok := s.(*ast.BranchStmt); ok && b.Tok == token.FALLTHROUGH && i == len(cc.Body)-1 {
				continue
			}
			ast.Inspect(s, func(m ast.Node) bool {
				switch b := m.(type) {
				case *ast.ForStmt, *ast.RangeStmt:
					return false // a break there is the loop's own (a fallthrough cannot occur there)
				case *ast.BranchStmt:
					if b.Tok == token.FALLTHROUGH || b.Tok == token.BREAK {
						t.fail(b, "break or fallthrough inside a switch clause other than a final fallthrough")
					}
				}
				return true
			})
		}
		if smFallsThrough(cc) {
			if j+1 >= len(cl) {
				t.fail(cc, "fallthrough in the last clause")
			}
			return append(append([]ast.Stmt{}, cc.Body[:len(cc.Body)-1]...), body(j+1)...)
		}
		return cc.Body
	}
	return t.bind(x.Tag, func(tag string) string {
		var sb strings.Builder
		def := -1
		n := 0
		for j, c := range cl {
			cc := c.(*ast.CaseClause)
			if cc.List == nil {
				def = j
				continue
			}
			var cs []string
			for _, v := range cc.List {
				if tv, ok := t.p.info.Types[v]; !ok || tv.Value == nil {
					t.fail(v, "case expression that is not constant")
				}
				t.bind(v, func(p string) string { cs = append(cs, fmt.Sprintf("%s == %s", tag, p)); return "" })
			}
			save := t.saveScope()
			b := t.stmts(body(j), func() string { t.fail(cc, "unreachable"); return "" })
			t.scope = save
			fmt.Fprintf(&sb, "if %s then (\n%s)\nelse (", strings.Join(cs, " || "), b)
			n++
		}
		save := t.saveScope()
		b := t.stmts(body(def), func() string { t.fail(x, "unreachable"); return "" })
		t.scope = save
		sb.WriteString("\n" + b + strings.Repeat(")", n))
		return sb.String()
	})
}

func (t *smT) loopStmt(s ast.Stmt, cont func() string) string {
	t.last = nil
	if t.loop != nil {
		t.fail(s, "nested loop")
	}
	var body *ast.BlockStmt
	var xs, keyName, valName string
	var keyObj, valObj types.Object
	var valAlias ast.Expr
	valTyp := "Nat"
	switch x := s.(type) {
	case *ast.ForStmt:
		as, ok1 := x.Init.(*ast.AssignStmt)
		cond, ok2 := x.Cond.(*ast.BinaryExpr)
		post, ok3 := x.Post.(*ast.IncDecStmt)
		if !ok1 || !ok2 || !ok3 || as.Tok != token.DEFINE || len(as.Lhs) != 1 || len(as.Rhs) != 1 || cond.Op != token.LSS || post.Tok != token.INC {
			t.fail(x, "for statement other than for i := a; i < b; i++")
		}
		iv := as.Lhs[0].(*ast.Ident)
		ivObj := t.p.info.Defs[iv]
		if ci, ok := cond.X.(*ast.Ident); !ok || t.p.info.Uses[ci] != ivObj {
			t.fail(x, "loop condition does not test the loop variable")
		}
		if pi, ok := post.X.(*ast.Ident); !ok || t.p.info.Uses[pi] != ivObj {
			t.fail(x, "loop post statement does not step the loop variable")
		}
		if !t.isPure(as.Rhs[0]) || !t.isPure(cond.Y) {
			t.fail(x, "loop bounds that can panic or have an effect")
		}
		body = x.Body
		assigned := map[types.Object]bool{}
		ast.Inspect(body, func(m ast.Node) bool {
			switch y := m.(type) {
			case *ast.AssignStmt:
				for _, l := range y.Lhs {
					if r, _, ok := t.rawPath(l); ok {
						assigned[t.p.info.ObjectOf(r)] = true
					}
				}
			case *ast.IncDecStmt:
				if r, _, ok := t.rawPath(y.X); ok {
					assigned[t.p.info.ObjectOf(r)] = true
				}
			}
			return true
		})
		if assigned[ivObj] {
			t.fail(x, "loop variable assigned in the body")
		}
		ast.Inspect(cond.Y, func(m ast.Node) bool {
			if id, ok := m.(*ast.Ident); ok && assigned[t.p.info.Uses[id]] {
				t.fail(x, "the loop bound reads %s, which the body assigns", id.Name)
			}
			return true
		})
		var a, b string
		t.bind(as.Rhs[0], func(v string) string { a = v; return "" })
		t.bind(cond.Y, func(v string) string { b = v; return "" })
		xs = fmt.Sprintf("(List.range' %s (%s - %s))", atom(a), atom(b), atom(a))
		keyName, valName, valObj = "_i", lid(iv.Name), ivObj
	case *ast.RangeStmt:
		// for i, g := range X, X a field path holding a slice of pointers: g is an alias of X[i]
		if x.Tok != token.DEFINE || x.Key == nil || x.Value == nil {
			t.fail(x, "range other than for i, g := range X")
		}
		sl, ok := t.typeOf(x.X).Underlying().(*types.Slice)
		if !ok {
			t.fail(x, "range over %s", t.typeOf(x.X))
		}
		if _, ok := sl.Elem().(*types.Pointer); !ok {
			t.fail(x, "range over a slice whose elements are not pointers")
		}
		rroot, rsteps, ok := t.rawPath(x.X)
		if !ok {
			t.fail(x, "range over something other than a path")
		}
		for _, st := range rsteps {
			if st.index != nil {
				t.fail(x, "range over an indexed path")
			}
		}
		if t.writesPrefix(x.Body, t.p.info.ObjectOf(rroot), rsteps) {
			t.fail(x, "the loop body assigns the slice it ranges over")
		}
		ki, vi := x.Key.(*ast.Ident), x.Value.(*ast.Ident)
		keyName, keyObj, valObj = lid(ki.Name), t.p.info.Defs[ki], t.p.info.Defs[vi]
		valName = "_x"
		valTyp = t.leanType(x, sl.Elem())
		t.aliasUseGuard(valObj, x.Body.List)
		al := &ast.IndexExpr{X: x.X, Index: ki, Lbrack: x.Pos()}
		t.p.info.Types[al] = types.TypeAndValue{Type: sl.Elem()}
		valAlias = al
		body = x.Body
		if !t.isPure(x.X) {
			t.fail(x, "range over a path that can panic")
		}
		t.bind(x.X, func(v string) string { xs = v; return "" })
	}
	hasRet := false
	ast.Inspect(body, func(m ast.Node) bool {
		if _, ok := m.(*ast.ReturnStmt); ok {
			hasRet = true
		}
		return true
	})
	if hasRet {
		t.fail(s, "return inside a loop")
	}
	outer := t.saveScope()
	var caps0 []smVar
	caps0 = t.visible()
	// the loop variables (and the alias a range loop introduces) are in scope where the loop-carried state is computed:
	// a write through the alias is a write to the variable the aliased path is rooted in
	for i := range t.scope {
		t.scope[i].zero = false
		if t.scope[i].fresh {
			t.fail(s, "a loop while %s holds a fresh pointer that is not stored yet", t.scope[i].name)
		}
	}
	t.declare(smVar{name: keyName, typ: "Nat", obj: keyObj})
	if valAlias != nil {
		t.declare(smVar{name: "_x", typ: valTyp})
		t.declare(smVar{name: lid(valObj.Name()), obj: valObj, alias: valAlias})
	} else {
		t.declare(smVar{name: valName, typ: valTyp, obj: valObj})
	}
	var vs []smVar
	{
		inOuter := map[string]bool{}
		for _, v := range caps0 {
			inOuter[v.name] = true
		}
		for _, v := range t.assignedIn(body.List) {
			if !inOuter[v.name] {
				t.fail(s, "the loop body assigns its own loop variable %s", v.name)
			}
			vs = append(vs, v)
		}
	}
	isState := map[string]bool{}
	for _, v := range vs {
		isState[v.name] = true
	}
	var caps []smVar
	for _, v := range caps0 {
		if !isState[v.name] {
			caps = append(caps, v)
		}
	}
	t.nloop++
	name := fmt.Sprintf("%s_loop%d", t.fn, t.nloop)
	ctx := &smLoopCtx{vs: vs, brk: breaksLoop(body)}
	t.loop = ctx
	b := t.stmts(body.List, func() string { t.checkVs(vs); return "some (.cont " + atom(smTuple(vs)) + ")" })
	res := t.loopRes()
	t.loop = nil
	t.scope = outer
	for i := range t.scope {
		t.scope[i].zero = false
	}
	var binds, args []string
	for _, c := range caps {
		binds = append(binds, fmt.Sprintf("(%s : %s)", c.name, c.typ))
		args = append(args, c.name)
	}
	t.defs = append(t.defs, fmt.Sprintf("def %s (E : Env) %s (%s : Nat) (%s : %s) (st : %s) : Option %s :=\n%s%s\n",
		name, strings.Join(binds, " "), keyName, valName, valTyp, smTupleType(vs), res, "", smIndent(smUnpack(vs, "st")+b)))
	comb := "forRange"
	if ctx.brk {
		comb = "forRangeB"
	}
	pat, un := smTuple(vs), ""
	if len(vs) == 0 {
		pat = "_"
	}
	if len(vs) > 1 {
		pat, un = "st", smUnpack(vs, "st")
	}
	return fmt.Sprintf("after (%s (%s E %s) %s 0 %s) fun %s =>\n%s%s", comb, name, strings.Join(args, " "), xs, smTuple(vs), pat, un, cont())
}
