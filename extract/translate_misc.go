// translate_misc.go — the group `Misc`: small functions of package stack that the other groups use as model
// functions: splitPath, getFiles, (*Snapshot).IsRace, (*Opts).isValid, (*Snapshot).guessPaths of stack/context.go,
// sortedByLen, pathJoin, (*Func).String of stack/stack.go and lineToByteOffsets of stack/source.go.
//
// Generated file: lean/PP/TranslatedMisc.lean (namespace PP.TrM, its own Env); run-time support:
// lean/PP/Go/PreludeMisc.lean; agreement with the hand-written models (PP/Model/Roots.lean, Cli.lean,
// AugmentGlue.lean): lean/PP/Tie/TranslatedMisc.lean.
//
// This group has its OWN statement/expression translator (type mcT below; the style of translate_scansm.go): it
// shares nothing with the translators of the other groups but the spelling helpers (lid, lowerFirst, trFieldRename,
// leanBytes, trName, trFail), needs NO hook in translate.go, and the other generated files cannot depend on it.
// It is a WHITELIST: a construct that is not listed here makes the translation of the group fail by name
// (`translation_failed`).  Conventions are those of the other groups: a Go function is a non-recursive
// `def f (E : Env) args : Option τ` (`none` = a Go run-time panic; or, for the one unbounded loop, the fuel
// `E.fuel` running out).
//
// What is translated, and what each construct ASSUMES (sound or refuse):
//
//   - Names.  Every variable a function declares (parameters, receiver, locals, closure parameters) must have a
//     name of its own in that function, not start with `_`, and not be a name the generated text uses (mcReserved):
//     then a Lean `let x := …` that shadows `x` IS the Go assignment to the one variable called x, and no Go scope
//     rule can make the Lean text mean something else.  Every identifier is resolved through go/types to the
//     object it denotes and must be in the translator's scope (declared, and not out of its Go block).
//   - Control flow is translated in continuation style: what follows an `if` is translated again in each branch
//     that can fall through (the functions are small; no join points).  `return` inside a loop is `Step.ret`.
//   - Values.  bool = Bool; string and []byte = Bytes; []string = List Bytes; []int = List Nat; []*T / []T = List T
//     (nil and empty are identified; slices are values: the only in-place operations translated are sort.Strings
//     and sort.Slice on a local slice whose every use is checked, see below); structs and pointers to structs =
//     the model's structures (ASSUMES the receiver and the pointers held in a slice are not nil).
//   - `int` (and uint64) is Nat: ASSUMES no overflow; subtraction, negation and negative constants are refused, so
//     every int is a natural number by construction.  The only way a negative number is read is the special form
//     n := bytes.IndexByte(x, c); if n == -1 { …ends in return/break, does not mention n… }; rest
//     which becomes `match goIndexByteO x c with | none => … | some n => rest` (in `rest`, n ≥ 0).
//   - Panics: x[i] is `goIdx x i`, x[a:] / x[a:b] is `goSlice x a b` (`none` out of range); they are hoisted in
//     front of the statement (`(…).bind fun _tN =>`), which is exact because everything hoisted is free of side
//     effects; an operand that can panic on the right of && / || is refused (it is evaluated conditionally).
//   - `for i, x := range X` over a slice: `forRange` (Prelude.lean) over the list, the variables assigned in the
//     body and declared outside it are the loop-carried state.  `for _, c := range S` over a STRING: over
//     `goRangeString S`, a list of `GoRune` (PreludeMisc.lean: the code point utf8.DecodeRune yields, and the bytes
//     of `string(c)`); c may only be used as a rune value (`c != '/'` reads `c.val`) and in `string(c)` (`c.str`);
//     the byte index of such a range is refused.  `for k := range M` over a map: over `E.mapOrder keys`, an ORACLE
//     of the environment (a Go map has no order; ASSUMED of Go: a range over a map that the body does not modify
//     — checked — visits every key exactly once; Go's behaviour is the translated function for some oracle with
//     `(E.mapOrder l).Perm l`, and the agreement theorems hold for every such oracle).
//     `for init; cond; post { … }` with `break`: `forFuel` (PreludeWeb.lean) with `E.fuel` iterations at most; the
//     agreement theorem says how much fuel suffices (forFuel_mono: more fuel does not change a result).
//     `continue`, labels, goto, defer, go, select, switch are refused; a loop inside a fuel loop is refused.
//   - Maps.  A local `map[string]struct{}` is the list of its keys without repetition (`m[k] = struct{}{}` is
//     `goSetAdd m k`); a `map[string]string` parameter is the model's AMap (association list; the agreement
//     theorem assumes distinct keys, which every Go map has).  A map may only be used in len, range and the
//     assignment above (it is a reference: a copy would alias it).
//   - `sort.Strings(v)` = `goSortStrings v`, `sort.Slice(v, func(i, j int) bool {…})` = `goSortSlice less v`
//     (PreludeMisc.lean; TRUSTED: the library sorts; sort.Slice is not stable: see PreludeMisc.lean — the result
//     is exact when the comparison is a strict total order on the elements, which the Tie file proves for
//     sortedByLen).  v must be a local slice every use of which is one of: `v = append(v, x)`, `make`, the sort
//     call, `v[i]` / `v[j]` in its closure, len(v), `return v` (so no alias of its array exists).  The closure is
//     translated as a function of the two ELEMENTS (as group 1 does for Aggregate): i, j and v may only occur as
//     v[i] and v[j], it may capture nothing else.
//   - Calls of methods that are tied in another group go through the environment: (*Snapshot).findRoots (group
//     Roots) and (*Signature).updateLocations (group Scan), both with the shape those groups generate: the
//     receiver is returned with the result and written back to the path it was called on.  Such a call may only
//     be the whole right-hand side of an assignment to a local, or the left operand of && || == != whose right
//     operand is a local variable or a constant (nothing is evaluated before it), with arguments that cannot panic.
//     A pointer receiver whose target is written (here: through those calls) is threaded and returned with the
//     result (`(recv × result)`).
//   - POINTER ALIAS: in `for _, r := range s.F` over a slice of pointers held in the threaded receiver, a write
//     through r (a mutating call on r) is followed by the write-back `s.F := s.F.set i r`.  ASSUMES the pointers
//     in the slice are pairwise distinct and not nil (then the element read at the start of the loop is still the
//     current one when its iteration begins); the body may not assign s otherwise (checked).
//   - Library: strings.Count(s, c) / strings.Contains(s, c) for a constant ONE-byte c (goCountByte, goContainsByte),
//     strings.Join (goJoin = the model's Bytes.join), append of one element, make([]T, 0, n), len, string(c) for the
//     rune variable of a range over a string.
package main

import (
	"fmt"
	"go/ast"
	"go/constant"
	"go/token"
	"go/types"
	"sort"
	"strings"
)

var trFuncsMisc = [][2]string{
	{"", "splitPath"}, {"", "getFiles"}, {"Snapshot", "IsRace"}, {"Opts", "isValid"}, {"Snapshot", "guessPaths"},
	{"", "sortedByLen"}, {"", "pathJoin"}, {"Func", "String"}, {"", "lineToByteOffsets"},
}

// methods of the environment that are tied in another group: Go "Recv.name" -> Lean field of Env.  Both return
// the receiver with the result (the shape TranslatedRoots.lean / TranslatedScan.lean give them).
var mcExterns = map[string]string{
	"Snapshot.findRoots":        "Snapshot_findRoots",
	"Signature.updateLocations": "Signature_updateLocations",
}

// Lean structure for a Go named struct type of package stack
var mcStructs = map[string]string{
	"Snapshot": "Snapshot", "Opts": "Cli.Opts", "Func": "Func", "Goroutine": "Goroutine", "Signature": "Signature",
	"Stack": "Stack", "Call": "Call",
}

// names the generated text uses: a Go variable may not be called so
var mcReserved = map[string]bool{"len": true, "after": true, "afterIn": true, "forRange": true, "forFuel": true, "some": true,
	"none": true, "decide": true, "Step": true, "StepB": true, "goIdx": true, "goSlice": true, "goIndexByteO": true,
	"goCountByte": true, "goContainsByte": true, "goJoin": true, "goSetAdd": true, "goSortStrings": true, "goSortSlice": true,
	"goRangeString": true, "strLt": true, "AMap": true, "List": true, "Option": true, "Nat": true, "Bytes": true, "Bool": true,
	"true": true, "false": true, "Unit": true, "Env": true, "GoRune": true, "UInt8": true, "bind": true}

const (
	mcPlain = iota
	mcRune  // the value variable of a range over a string: a GoRune
)

type mcVar struct {
	name      string
	typ       string
	obj       types.Object
	kind      int
	aliasRoot types.Object // != nil: the value variable of a range over the pointer slice `root.field`
	aliasFld  string       // Lean field
	aliasIdx  string       // Lean name of the index of that range
}

type mcLoop struct {
	st   []mcVar
	fuel bool // a forFuel loop (StepB, break allowed); otherwise forRange (Step)
}

type mcClos struct {
	slice, i, j types.Object
}

type mcT struct {
	p          *pkgInfo
	fn         string
	ret        string // Lean type of the result (with the threaded receiver, if any)
	recv       types.Object
	threaded   bool
	scope      []mcVar
	defs       []string
	pre        []string
	nloop      int
	nclos      int
	tmp        int
	loop       *mcLoop
	clos       *mcClos
	mutOK      map[*ast.CallExpr]bool
	mapOK      map[*ast.Ident]bool
	externs    map[string]string // Lean field -> type
	order      *bool
	fuelUsed   *bool
	body       *ast.BlockStmt
	paramObjs  []types.Object
	rangedMaps map[types.Object]int
}

func (t *mcT) fail(n ast.Node, f string, a ...interface{}) {
	pos := t.p.fset.Position(n.Pos())
	panic(trFail{fmt.Sprintf("%s:%d: ", pos.Filename[strings.LastIndex(pos.Filename, "/")+1:], pos.Line) + fmt.Sprintf(f, a...)})
}

func (t *mcT) typeOf(e ast.Expr) types.Type {
	if tv, ok := t.p.info.Types[e]; ok && tv.Type != nil {
		return tv.Type
	}
	if id, ok := e.(*ast.Ident); ok {
		if o := t.p.info.Uses[id]; o != nil {
			return o.Type()
		}
		if o := t.p.info.Defs[id]; o != nil {
			return o.Type()
		}
	}
	t.fail(e, "no type for %s", types.ExprString(e))
	return nil
}

func mcIsBasic(ty types.Type, kinds ...types.BasicKind) bool {
	b, ok := ty.Underlying().(*types.Basic)
	if !ok {
		return false
	}
	for _, k := range kinds {
		if b.Kind() == k {
			return true
		}
	}
	return false
}

func mcIsInt(ty types.Type) bool {
	return mcIsBasic(ty, types.Int, types.Uint64, types.UntypedInt)
}
func mcIsString(ty types.Type) bool {
	return mcIsBasic(ty, types.String, types.UntypedString)
}
func mcIsBool(ty types.Type) bool { return mcIsBasic(ty, types.Bool, types.UntypedBool) }

func mcIsEmptyStruct(ty types.Type) bool {
	s, ok := ty.Underlying().(*types.Struct)
	return ok && s.NumFields() == 0
}

// leanType: the Lean type of a Go type (refuses what the group has no representation for)
func (t *mcT) leanType(n ast.Node, ty types.Type) string {
	switch x := ty.(type) {
	case *types.Pointer:
		if nm, ok := x.Elem().(*types.Named); ok {
			if _, isStruct := nm.Underlying().(*types.Struct); isStruct {
				return t.leanType(n, nm)
			}
		}
	case *types.Named:
		if x.Obj().Pkg() == t.p.pkg {
			if l, ok := mcStructs[x.Obj().Name()]; ok {
				if _, isStruct := x.Underlying().(*types.Struct); isStruct {
					return l
				}
			}
		}
	case *types.Basic:
		switch x.Kind() {
		case types.Bool, types.UntypedBool:
			return "Bool"
		case types.Int, types.Uint64:
			return "Nat"
		case types.String:
			return "Bytes"
		}
	case *types.Slice:
		if mcIsBasic(x.Elem(), types.Uint8) {
			return "Bytes"
		}
		return "(List " + t.leanType(n, x.Elem()) + ")"
	case *types.Map:
		if mcIsBasic(x.Key(), types.String) && mcIsEmptyStruct(x.Elem()) {
			return "(List Bytes)"
		}
		if mcIsBasic(x.Key(), types.String) && mcIsBasic(x.Elem(), types.String) {
			return "(List (Bytes × Bytes))"
		}
	}
	t.fail(n, "type %s has no representation in group Misc", ty)
	return ""
}

func (t *mcT) lookup(id *ast.Ident) *mcVar {
	obj := t.p.info.Uses[id]
	if obj == nil {
		obj = t.p.info.Defs[id]
	}
	if obj == nil {
		t.fail(id, "identifier %s does not resolve", id.Name)
	}
	for i := len(t.scope) - 1; i >= 0; i-- {
		if t.scope[i].obj == obj {
			return &t.scope[i]
		}
	}
	t.fail(id, "variable %s is not in the scope of the translation (captured, package-level or out of its block)", id.Name)
	return nil
}

func (t *mcT) lookupObj(obj types.Object) *mcVar {
	for i := len(t.scope) - 1; i >= 0; i-- {
		if t.scope[i].obj == obj {
			return &t.scope[i]
		}
	}
	return nil
}

func (t *mcT) declare(v mcVar) { t.scope = append(t.scope, v) }

func (t *mcT) fresh() string {
	t.tmp++
	return fmt.Sprintf("_t%d", t.tmp)
}

func (t *mcT) hoist(term string) string {
	n := t.fresh()
	t.pre = append(t.pre, fmt.Sprintf("(%s).bind fun %s =>\n", term, n))
	return n
}

func (t *mcT) flush() string {
	s := strings.Join(t.pre, "")
	t.pre = nil
	return s
}

// pure: translate an expression that must not add anything to the hoisted prefix (it cannot panic)
func (t *mcT) pure(e ast.Expr, why string) string {
	mark := len(t.pre)
	s := t.expr(e)
	if len(t.pre) != mark {
		t.fail(e, "%s: the expression %s can panic or has an effect", why, types.ExprString(e))
	}
	return s
}

func mcIndent(body string) string {
	lines := strings.Split(strings.TrimRight(body, "\n"), "\n")
	for i := range lines {
		lines[i] = "  " + lines[i]
	}
	return strings.Join(lines, "\n")
}

func mcTupleType(vs []mcVar) string {
	if len(vs) == 0 {
		return "Unit"
	}
	var ts []string
	for _, v := range vs {
		ts = append(ts, v.typ)
	}
	if len(ts) == 1 {
		return ts[0]
	}
	return "(" + strings.Join(ts, " × ") + ")"
}

func mcTupleVal(vs []mcVar) string {
	if len(vs) == 0 {
		return "()"
	}
	var ns []string
	for _, v := range vs {
		ns = append(ns, v.name)
	}
	if len(ns) == 1 {
		return ns[0]
	}
	return "(" + strings.Join(ns, ", ") + ")"
}

// mcUnpack: `let a := st.1 …` for the loop-carried variables
func mcUnpack(vs []mcVar) string {
	var sb strings.Builder
	for i, v := range vs {
		proj := "st"
		if len(vs) > 1 {
			proj += strings.Repeat(".2", i)
			if i < len(vs)-1 {
				proj += ".1"
			}
		}
		fmt.Fprintf(&sb, "let %s : %s := %s\n", v.name, v.typ, proj)
	}
	return sb.String()
}

// constant: the Lean spelling of a constant expression ("" if e is not constant)
func (t *mcT) constant(e ast.Expr) string {
	tv, ok := t.p.info.Types[e]
	if !ok || tv.Value == nil {
		return ""
	}
	switch tv.Value.Kind() {
	case constant.Bool:
		if constant.BoolVal(tv.Value) {
			return "true"
		}
		return "false"
	case constant.String:
		return leanBytes(constant.StringVal(tv.Value))
	case constant.Int:
		if constant.Sign(tv.Value) < 0 {
			t.fail(e, "negative constant %s (ints are natural numbers in group Misc)", tv.Value)
		}
		if !(mcIsInt(tv.Type) || mcIsBasic(tv.Type, types.Int32, types.UntypedRune, types.Uint8)) {
			t.fail(e, "integer constant of type %s", tv.Type)
		}
		return tv.Value.ExactString()
	}
	t.fail(e, "constant %s of an unsupported kind", types.ExprString(e))
	return ""
}

// oneByte: a constant string of exactly one byte, as a number
func (t *mcT) oneByte(e ast.Expr) string {
	tv, ok := t.p.info.Types[e]
	if !ok || tv.Value == nil || tv.Value.Kind() != constant.String || len(constant.StringVal(tv.Value)) != 1 {
		t.fail(e, "the separator must be a constant string of one byte")
	}
	return fmt.Sprintf("%d", constant.StringVal(tv.Value)[0])
}

func mcRootIdent(e ast.Expr) *ast.Ident {
	for {
		switch y := e.(type) {
		case *ast.Ident:
			return y
		case *ast.SelectorExpr:
			e = y.X
		case *ast.IndexExpr:
			e = y.X
		case *ast.ParenExpr:
			e = y.X
		case *ast.StarExpr:
			e = y.X
		default:
			return nil
		}
	}
}

// pkgFunc: "pkg.Name" for a call of a function of an imported package
func (t *mcT) pkgFunc(call *ast.CallExpr) string {
	sel, ok := call.Fun.(*ast.SelectorExpr)
	if !ok {
		return ""
	}
	id, ok := sel.X.(*ast.Ident)
	if !ok {
		return ""
	}
	pn, ok := t.p.info.Uses[id].(*types.PkgName)
	if !ok {
		return ""
	}
	return pn.Imported().Path() + "." + sel.Sel.Name
}

// fieldPath: the Lean projections of a field selection (through embedded structs)
func (t *mcT) fieldPath(sel *ast.SelectorExpr, upTo int) []string {
	s := t.p.info.Selections[sel]
	if s == nil {
		t.fail(sel, "selector %s is not a field or method selection", types.ExprString(sel))
	}
	ty := s.Recv()
	var out []string
	idx := s.Index()
	for k := 0; k < len(idx)-upTo; k++ {
		if p, ok := ty.Underlying().(*types.Pointer); ok {
			ty = p.Elem()
		}
		nm, _ := ty.(*types.Named)
		st, ok := ty.Underlying().(*types.Struct)
		if !ok || nm == nil {
			t.fail(sel, "selection through %s", ty)
		}
		if _, known := mcStructs[nm.Obj().Name()]; !known || nm.Obj().Pkg() != t.p.pkg {
			t.fail(sel, "struct %s is not known to group Misc", nm.Obj().Name())
		}
		f := st.Field(idx[k])
		name := lowerFirst(f.Name())
		if r, ok := trFieldRename[nm.Obj().Name()+"."+f.Name()]; ok {
			name = r
		}
		out = append(out, name)
		ty = f.Type()
	}
	return out
}

// externCall: a call of a method of the environment that returns its receiver with the result
func (t *mcT) externCall(call *ast.CallExpr) (string, bool) {
	sel, ok := call.Fun.(*ast.SelectorExpr)
	if !ok {
		return "", false
	}
	s := t.p.info.Selections[sel]
	if s == nil || s.Kind() != types.MethodVal {
		return "", false
	}
	fn := s.Obj().(*types.Func)
	sig := fn.Type().(*types.Signature)
	rt := sig.Recv().Type()
	if p, ok := rt.(*types.Pointer); ok {
		rt = p.Elem()
	}
	nm, ok := rt.(*types.Named)
	if !ok {
		t.fail(call, "method call on %s", rt)
	}
	lean, ok := mcExterns[nm.Obj().Name()+"."+fn.Name()]
	if !ok {
		t.fail(call, "call of the method %s.%s, which is not a function of the environment of group Misc", nm.Obj().Name(), fn.Name())
	}
	if !t.mutOK[call] {
		t.fail(call, "a call that writes through its receiver in a position where something may be evaluated before or after it in the same statement")
	}
	if t.clos != nil {
		t.fail(call, "method call inside a comparison closure")
	}
	root, ok := sel.X.(*ast.Ident)
	if !ok {
		t.fail(call, "the receiver of %s must be a variable", fn.Name())
	}
	v := t.lookup(root)
	emb := t.fieldPath(sel, 1)
	if len(emb) > 1 {
		t.fail(call, "method promoted through more than one embedded struct")
	}
	if sig.Variadic() || sig.Results().Len() > 1 {
		t.fail(call, "signature of %s", fn.Name())
	}
	// the type of the Env field, from the Go signature
	rl := t.leanType(call, rt)
	typ := rl
	var args []string
	for i := 0; i < sig.Params().Len(); i++ {
		typ += " → " + t.leanType(call, sig.Params().At(i).Type())
		args = append(args, t.pure(call.Args[i], "argument of a call that writes through its receiver"))
	}
	res := "Unit"
	if sig.Results().Len() == 1 {
		res = t.leanType(call, sig.Results().At(0).Type())
	}
	typ += " → Option (" + rl + " × " + res + ")"
	t.externs[lean] = typ
	recvTerm := v.name
	if len(emb) == 1 {
		recvTerm += "." + emb[0]
	}
	r := t.hoist(fmt.Sprintf("E.%s %s", lean, strings.Join(append([]string{recvTerm}, args...), " ")))
	// write the receiver back to the path it was called on
	if v.obj != t.recv && v.aliasRoot == nil {
		t.fail(call, "a call that writes through %s, which is neither the receiver nor an element of a slice of pointers of the receiver", v.name)
	}
	if v.obj == t.recv {
		for _, w := range t.scope {
			if w.aliasRoot == t.recv {
				t.fail(call, "the receiver is written inside a range over a slice of pointers it holds")
			}
		}
	}
	if len(emb) == 1 {
		t.pre = append(t.pre, fmt.Sprintf("let %s : %s := { %s with %s := %s.1 }\n", v.name, v.typ, v.name, emb[0], r))
	} else {
		t.pre = append(t.pre, fmt.Sprintf("let %s : %s := %s.1\n", v.name, v.typ, r))
	}
	if v.aliasRoot != nil {
		rv := t.lookupObj(v.aliasRoot)
		if rv == nil {
			t.fail(call, "alias root out of scope")
		}
		t.pre = append(t.pre, fmt.Sprintf("let %s : %s := { %s with %s := %s.%s.set %s %s }\n", rv.name, rv.typ, rv.name, v.aliasFld, rv.name, v.aliasFld, v.aliasIdx, v.name))
	}
	return r + ".2", true
}

func (t *mcT) expr(e ast.Expr) string {
	if c := t.constant(e); c != "" {
		return c
	}
	switch x := e.(type) {
	case *ast.ParenExpr:
		return t.expr(x.X)
	case *ast.Ident:
		if x.Name == "nil" {
			if _, isNil := t.p.info.Uses[x].(*types.Nil); isNil {
				t.fail(x, "nil in a position other than `return nil` of a slice")
			}
		}
		if t.clos != nil {
			if o := t.p.info.Uses[x]; o != nil && (o == t.clos.slice || o == t.clos.i || o == t.clos.j) {
				t.fail(x, "in the comparison closure, %s may only occur in v[i] / v[j]", x.Name)
			}
		}
		v := t.lookup(x)
		if _, isMap := v.obj.Type().Underlying().(*types.Map); isMap && !t.mapOK[x] {
			t.fail(x, "the map %s is used other than in len, range or m[k] = struct{}{}", x.Name)
		}
		if v.kind == mcRune {
			return v.name + ".val"
		}
		return v.name
	case *ast.SelectorExpr:
		s := t.p.info.Selections[x]
		if s == nil || s.Kind() != types.FieldVal {
			t.fail(x, "selector %s", types.ExprString(x))
		}
		base := t.expr(x.X)
		return base + "." + strings.Join(t.fieldPath(x, 0), ".")
	case *ast.IndexExpr:
		if t.clos != nil {
			if xi, ok := x.X.(*ast.Ident); ok && t.p.info.Uses[xi] == t.clos.slice {
				if ii, ok := x.Index.(*ast.Ident); ok {
					switch t.p.info.Uses[ii] {
					case t.clos.i:
						return "_a"
					case t.clos.j:
						return "_b"
					}
				}
				t.fail(x, "in the comparison closure the sorted slice may only be indexed by i or j")
			}
		}
		xt := t.typeOf(x.X).Underlying()
		if _, ok := xt.(*types.Slice); !ok {
			t.fail(x, "index expression on %s", xt)
		}
		if !mcIsInt(t.typeOf(x.Index)) {
			t.fail(x, "index of type %s", t.typeOf(x.Index))
		}
		base := t.expr(x.X)
		idx := t.expr(x.Index)
		return t.hoist(fmt.Sprintf("goIdx %s %s", mcAtom(base), mcAtom(idx)))
	case *ast.SliceExpr:
		if x.Slice3 {
			t.fail(x, "3-index slice")
		}
		xt := t.typeOf(x.X).Underlying()
		if _, ok := xt.(*types.Slice); !ok && !mcIsString(xt) {
			t.fail(x, "slice expression on %s", xt)
		}
		if _, ok := xt.(*types.Slice); ok && x.High != nil {
			t.fail(x, "reslicing a slice with an upper bound (the bound is checked against the capacity)")
		}
		base := t.expr(x.X)
		lo, hi := "0", "(len "+mcAtom(base)+")"
		if x.Low != nil {
			lo = t.expr(x.Low)
		}
		if x.High != nil {
			hi = t.expr(x.High)
		}
		return t.hoist(fmt.Sprintf("goSlice %s %s %s", mcAtom(base), mcAtom(lo), mcAtom(hi)))
	case *ast.UnaryExpr:
		if x.Op == token.NOT {
			return "(!" + mcAtom(t.expr(x.X)) + ")"
		}
		t.fail(x, "unary operator %s", x.Op)
	case *ast.BinaryExpr:
		return t.binary(x)
	case *ast.CompositeLit:
		ty := t.typeOf(x)
		switch u := ty.Underlying().(type) {
		case *types.Map:
			t.leanType(x, ty)
			if len(x.Elts) != 0 {
				t.fail(x, "non-empty map literal")
			}
			return "[]"
		case *types.Slice:
			lt := t.leanType(x, ty)
			if lt == "Bytes" {
				t.fail(x, "byte slice literal")
			}
			var es []string
			for _, el := range x.Elts {
				if _, kv := el.(*ast.KeyValueExpr); kv {
					t.fail(x, "keyed slice literal")
				}
				es = append(es, t.expr(el))
			}
			_ = u
			return "([" + strings.Join(es, ", ") + "] : " + lt + ")"
		}
		t.fail(x, "composite literal of type %s", ty)
	case *ast.CallExpr:
		return t.call(x)
	}
	t.fail(e, "expression %s (%T) is not in the subset of group Misc", types.ExprString(e), e)
	return ""
}

func mcAtom(s string) string {
	if strings.ContainsAny(s, " ") && !(strings.HasPrefix(s, "(") && strings.HasSuffix(s, ")") && balanced(s[1:len(s)-1])) {
		return "(" + s + ")"
	}
	return s
}

func (t *mcT) binary(x *ast.BinaryExpr) string {
	lt, rt := t.typeOf(x.X), t.typeOf(x.Y)
	switch x.Op {
	case token.LAND, token.LOR:
		a := t.expr(x.X)
		b := t.pure(x.Y, "right operand of "+x.Op.String())
		op := "&&"
		if x.Op == token.LOR {
			op = "||"
		}
		return "(" + mcAtom(a) + " " + op + " " + mcAtom(b) + ")"
	case token.EQL, token.NEQ:
		okT := func(ty types.Type) bool {
			return mcIsInt(ty) || mcIsString(ty) || mcIsBool(ty) || mcIsBasic(ty, types.Int32, types.UntypedRune)
		}
		if !okT(lt) || !okT(rt) {
			t.fail(x, "comparison of %s and %s", lt, rt)
		}
		a, b := t.expr(x.X), t.expr(x.Y)
		op := "=="
		if x.Op == token.NEQ {
			op = "!="
		}
		return "(" + mcAtom(a) + " " + op + " " + mcAtom(b) + ")"
	case token.LSS, token.GTR, token.LEQ, token.GEQ:
		a, b := t.expr(x.X), t.expr(x.Y)
		if mcIsInt(lt) && mcIsInt(rt) {
			return "(decide (" + mcAtom(a) + " " + x.Op.String() + " " + mcAtom(b) + "))"
		}
		if mcIsString(lt) && mcIsString(rt) && x.Op == token.LSS {
			return "(strLt " + mcAtom(a) + " " + mcAtom(b) + ")"
		}
		t.fail(x, "ordering of %s and %s with %s", lt, rt, x.Op)
	case token.ADD:
		a, b := t.expr(x.X), t.expr(x.Y)
		if mcIsInt(lt) && mcIsInt(rt) {
			return "(" + mcAtom(a) + " + " + mcAtom(b) + ")"
		}
		if mcIsString(lt) && mcIsString(rt) {
			return "(" + mcAtom(a) + " ++ " + mcAtom(b) + ")"
		}
		t.fail(x, "+ on %s and %s", lt, rt)
	}
	t.fail(x, "binary operator %s (subtraction and the like are refused: ints are natural numbers)", x.Op)
	return ""
}

func (t *mcT) call(x *ast.CallExpr) string {
	if x.Ellipsis != token.NoPos {
		// f(s...) is only accepted for strings.Join? no: a variadic spread is refused
		t.fail(x, "variadic spread")
	}
	// conversions
	if tv, ok := t.p.info.Types[x.Fun]; ok && tv.IsType() {
		if mcIsString(tv.Type) && len(x.Args) == 1 {
			if id, ok := x.Args[0].(*ast.Ident); ok {
				if v := t.lookup(id); v.kind == mcRune {
					return v.name + ".str"
				}
			}
		}
		t.fail(x, "conversion %s (only string(c), c the rune of a range over a string)", types.ExprString(x))
	}
	if id, ok := x.Fun.(*ast.Ident); ok {
		if _, isB := t.p.info.Uses[id].(*types.Builtin); isB {
			switch id.Name {
			case "len":
				if ai, ok := x.Args[0].(*ast.Ident); ok {
					t.mapOK[ai] = true
				}
				at := t.typeOf(x.Args[0]).Underlying()
				switch at.(type) {
				case *types.Slice, *types.Map:
				default:
					if !mcIsString(at) {
						t.fail(x, "len of %s", at)
					}
				}
				return "(len " + mcAtom(t.expr(x.Args[0])) + ")"
			case "append":
				if len(x.Args) != 2 {
					t.fail(x, "append of other than one element")
				}
				lt := t.leanType(x, t.typeOf(x.Args[0]))
				if lt == "Bytes" {
					t.fail(x, "append to a byte slice")
				}
				a := t.expr(x.Args[0])
				b := t.expr(x.Args[1])
				return "(" + mcAtom(a) + " ++ [" + b + "])"
			case "make":
				ty := t.typeOf(x.Args[0])
				if _, ok := ty.Underlying().(*types.Slice); !ok || len(x.Args) < 2 {
					t.fail(x, "make of %s", ty)
				}
				lt := t.leanType(x, ty)
				if c := t.constant(x.Args[1]); c != "0" {
					t.fail(x, "make with a length other than the constant 0")
				}
				if len(x.Args) == 3 {
					// the capacity is a natural number (no panic) and has no other effect on a list
					if !mcIsInt(t.typeOf(x.Args[2])) {
						t.fail(x, "capacity of type %s", t.typeOf(x.Args[2]))
					}
					t.pure(x.Args[2], "capacity of make")
				}
				return "([] : " + lt + ")"
			}
			t.fail(x, "builtin %s", id.Name)
		}
	}
	switch t.pkgFunc(x) {
	case "strings.Count":
		return "(goCountByte " + mcAtom(t.expr(x.Args[0])) + " " + t.oneByte(x.Args[1]) + ")"
	case "strings.Contains":
		return "(goContainsByte " + mcAtom(t.expr(x.Args[0])) + " " + t.oneByte(x.Args[1]) + ")"
	case "strings.Join":
		if lt := t.leanType(x, t.typeOf(x.Args[0])); lt != "(List Bytes)" {
			t.fail(x, "strings.Join of %s", lt)
		}
		a := t.expr(x.Args[0])
		b := t.expr(x.Args[1])
		return "(goJoin " + mcAtom(a) + " " + mcAtom(b) + ")"
	case "":
	default:
		t.fail(x, "library function %s is not in the whitelist of group Misc (or not in this position)", t.pkgFunc(x))
	}
	if r, ok := t.externCall(x); ok {
		return r
	}
	t.fail(x, "call %s", types.ExprString(x))
	return ""
}

// markMutOK: the positions in which a call that writes through its receiver is accepted (see the header)
func (t *mcT) markMutOK(e ast.Expr) {
	isSimple := func(y ast.Expr) bool {
		if tv, ok := t.p.info.Types[y]; ok && tv.Value != nil {
			return true
		}
		id, ok := y.(*ast.Ident)
		if !ok {
			return false
		}
		_, isVar := t.p.info.Uses[id].(*types.Var)
		return isVar && t.p.info.Uses[id].Parent() != t.p.pkg.Scope()
	}
	switch y := e.(type) {
	case *ast.CallExpr:
		t.mutOK[y] = true
	case *ast.BinaryExpr:
		if c, ok := y.X.(*ast.CallExpr); ok && isSimple(y.Y) {
			switch y.Op {
			case token.LAND, token.LOR, token.EQL, token.NEQ:
				t.mutOK[c] = true
			}
		}
	}
}

// assigned: the objects a statement list assigns (not: declares)
func (t *mcT) assigned(n ast.Node, aliasRoots map[types.Object]types.Object) map[types.Object]bool {
	out := map[types.Object]bool{}
	add := func(e ast.Expr) {
		if id := mcRootIdent(e); id != nil {
			if o := t.p.info.Uses[id]; o != nil {
				out[o] = true
				if r, ok := aliasRoots[o]; ok {
					out[r] = true
				}
			}
		}
	}
	ast.Inspect(n, func(m ast.Node) bool {
		switch x := m.(type) {
		case *ast.FuncLit:
			return false
		case *ast.AssignStmt:
			for _, l := range x.Lhs {
				add(l)
			}
		case *ast.IncDecStmt:
			add(x.X)
		case *ast.RangeStmt:
			if x.Tok == token.ASSIGN {
				if x.Key != nil {
					add(x.Key)
				}
				if x.Value != nil {
					add(x.Value)
				}
			}
		case *ast.CallExpr:
			if sel, ok := x.Fun.(*ast.SelectorExpr); ok {
				if s := t.p.info.Selections[sel]; s != nil && s.Kind() == types.MethodVal {
					add(sel.X)
				}
			}
			switch t.pkgFunc(x) {
			case "sort.Strings", "sort.Slice":
				add(x.Args[0])
			}
		}
		return true
	})
	return out
}

// aliasRoots: value variables of ranges over a slice of pointers `root.F` -> root
func (t *mcT) aliasRoots(n ast.Node) map[types.Object]types.Object {
	out := map[types.Object]types.Object{}
	ast.Inspect(n, func(m ast.Node) bool {
		if x, ok := m.(*ast.RangeStmt); ok && x.Value != nil {
			if sl, ok := t.typeOf(x.X).Underlying().(*types.Slice); ok {
				if _, isPtr := sl.Elem().(*types.Pointer); isPtr {
					if sel, ok := x.X.(*ast.SelectorExpr); ok {
						if root, ok := sel.X.(*ast.Ident); ok {
							if vid, ok := x.Value.(*ast.Ident); ok && vid.Name != "_" {
								out[t.p.info.Defs[vid]] = t.p.info.Uses[root]
							}
						}
					}
				}
			}
		}
		return true
	})
	return out
}

// usedVars: the variables of the scope a node mentions
func (t *mcT) usedVars(nodes ...ast.Node) map[types.Object]bool {
	out := map[types.Object]bool{}
	for _, n := range nodes {
		if n == nil {
			continue
		}
		ast.Inspect(n, func(m ast.Node) bool {
			if id, ok := m.(*ast.Ident); ok {
				if o := t.p.info.Uses[id]; o != nil {
					out[o] = true
				}
			}
			return true
		})
	}
	return out
}

func mcTerminates(list []ast.Stmt) bool {
	if len(list) == 0 {
		return false
	}
	switch x := list[len(list)-1].(type) {
	case *ast.ReturnStmt:
		return true
	case *ast.BranchStmt:
		return x.Tok == token.BREAK && x.Label == nil
	}
	return false
}

func (t *mcT) retTerm(v string) string {
	if t.clos == nil && t.threaded {
		rv := t.lookupObj(t.recv)
		v = "(" + rv.name + ", " + v + ")"
	}
	switch {
	case t.loop == nil:
		return "some " + mcAtom(v)
	case t.loop.fuel:
		return "some (StepB.ret " + mcAtom(v) + ")"
	}
	return "some (Step.ret " + mcAtom(v) + ")"
}

func (t *mcT) zero(n ast.Node, ty types.Type) string {
	lt := t.leanType(n, ty)
	switch {
	case lt == "Bool":
		return "false"
	case lt == "Nat":
		return "0"
	case lt == "Bytes" || strings.HasPrefix(lt, "(List "):
		if _, isMap := ty.Underlying().(*types.Map); isMap {
			t.fail(n, "nil map")
		}
		return "[]"
	}
	t.fail(n, "zero value of %s", ty)
	return ""
}

func (t *mcT) letStmt(v *mcVar, val string) string {
	return fmt.Sprintf("let %s : %s := %s\n", v.name, v.typ, val)
}

func (t *mcT) declLocal(id *ast.Ident) *mcVar {
	obj := t.p.info.Defs[id]
	if obj == nil {
		t.fail(id, "%s is not declared here", id.Name)
	}
	t.declare(mcVar{name: lid(id.Name), typ: t.leanType(id, obj.Type()), obj: obj})
	return &t.scope[len(t.scope)-1]
}

// assignTarget: a local variable that may be assigned here
func (t *mcT) assignTarget(l ast.Expr) *mcVar {
	id, ok := l.(*ast.Ident)
	if !ok {
		t.fail(l, "assignment to %s (only local variables are assigned in group Misc)", types.ExprString(l))
	}
	v := t.lookup(id)
	if v.obj == t.recv || v.kind != mcPlain || v.aliasRoot != nil {
		t.fail(l, "assignment to %s", id.Name)
	}
	if _, isMap := v.obj.Type().Underlying().(*types.Map); isMap {
		t.fail(l, "assignment to the map variable %s", id.Name)
	}
	return v
}

func (t *mcT) stmts(list []ast.Stmt, k func() string) string {
	if len(list) == 0 {
		return k()
	}
	s, rest := list[0], list[1:]
	next := func() string { return t.stmts(rest, k) }
	switch x := s.(type) {
	case *ast.ReturnStmt:
		if len(rest) != 0 {
			t.fail(x, "statements after return")
		}
		if len(x.Results) != 1 {
			t.fail(x, "return of %d values", len(x.Results))
		}
		if tv := t.p.info.Types[x.Results[0]]; tv.IsNil() {
			if t.clos != nil || !strings.HasPrefix(strings.TrimPrefix(t.ret, "("), "List ") || t.threaded {
				t.fail(x, "return nil of a non-slice")
			}
			return t.retTerm("[]")
		}
		t.markMutOK(x.Results[0])
		v := t.expr(x.Results[0])
		return t.flush() + t.retTerm(v)
	case *ast.BranchStmt:
		if x.Tok != token.BREAK || x.Label != nil || t.loop == nil || !t.loop.fuel || len(rest) != 0 {
			t.fail(x, "%s here (only an unlabelled break of a `for cond` loop)", x.Tok)
		}
		return "some (StepB.brk " + mcTupleVal(t.loop.st) + ")"
	case *ast.DeclStmt:
		gd, ok := x.Decl.(*ast.GenDecl)
		if !ok || gd.Tok != token.VAR {
			t.fail(x, "declaration")
		}
		var sb strings.Builder
		for _, sp := range gd.Specs {
			vs := sp.(*ast.ValueSpec)
			if len(vs.Names) != 1 || len(vs.Values) > 1 {
				t.fail(x, "var with several names")
			}
			var val string
			if len(vs.Values) == 1 {
				val = t.expr(vs.Values[0])
			} else {
				val = t.zero(vs, t.p.info.Defs[vs.Names[0]].Type())
			}
			sb.WriteString(t.flush())
			v := t.declLocal(vs.Names[0])
			sb.WriteString(t.letStmt(v, val))
		}
		return sb.String() + next()
	case *ast.IncDecStmt:
		if x.Tok != token.INC {
			t.fail(x, "-- (ints are natural numbers)")
		}
		v := t.assignTarget(x.X)
		if v.typ != "Nat" {
			t.fail(x, "++ on %s", v.typ)
		}
		return t.letStmt(v, v.name+" + 1") + next()
	case *ast.AssignStmt:
		return t.assign(x, rest, k)
	case *ast.ExprStmt:
		call, ok := x.X.(*ast.CallExpr)
		if !ok {
			t.fail(x, "expression statement")
		}
		switch t.pkgFunc(call) {
		case "sort.Strings":
			v := t.sortedLocal(call)
			if v.typ != "(List Bytes)" {
				t.fail(x, "sort.Strings of %s", v.typ)
			}
			return t.letStmt(v, "goSortStrings "+v.name) + next()
		case "sort.Slice":
			v := t.sortedLocal(call)
			less := t.closure(call, v)
			r := t.hoist("goSortSlice (" + less + " E) " + v.name)
			return t.flush() + t.letStmt(v, r) + next()
		}
		t.fail(x, "expression statement %s", types.ExprString(x.X))
	case *ast.IfStmt:
		if x.Init != nil {
			t.fail(x, "if with an init statement")
		}
		cond := t.expr(x.Cond)
		pre := t.flush()
		mark := len(t.scope)
		thenS := t.stmts(x.Body.List, next)
		t.scope = t.scope[:mark]
		var elseS string
		switch el := x.Else.(type) {
		case nil:
			elseS = next()
		case *ast.BlockStmt:
			elseS = t.stmts(el.List, next)
		case *ast.IfStmt:
			elseS = t.stmts([]ast.Stmt{el}, next)
		default:
			t.fail(x, "else")
		}
		t.scope = t.scope[:mark]
		return pre + "if " + cond + " then (\n" + mcIndent(thenS) + "\n) else (\n" + mcIndent(elseS) + "\n)"
	case *ast.RangeStmt:
		return t.rangeStmt(x, next)
	case *ast.ForStmt:
		return t.forStmt(x, next)
	}
	t.fail(s, "statement %T is not in the subset of group Misc", s)
	return ""
}

func (t *mcT) assign(x *ast.AssignStmt, rest []ast.Stmt, k func() string) string {
	next := func() string { return t.stmts(rest, k) }
	if len(x.Lhs) != 1 || len(x.Rhs) != 1 {
		t.fail(x, "assignment of several values")
	}
	lhs, rhs := x.Lhs[0], x.Rhs[0]
	// the special form n := bytes.IndexByte(x, c); if n == -1 { … }
	if call, ok := rhs.(*ast.CallExpr); ok {
		if pf := t.pkgFunc(call); pf == "bytes.IndexByte" || pf == "strings.IndexByte" {
			return t.indexByteForm(x, call, rest, k)
		}
	}
	switch x.Tok {
	case token.DEFINE:
		id, ok := lhs.(*ast.Ident)
		if !ok || t.p.info.Defs[id] == nil {
			t.fail(x, ":= that does not declare a new variable")
		}
		t.markMutOK(rhs)
		val := t.expr(rhs)
		pre := t.flush()
		v := t.declLocal(id)
		return pre + t.letStmt(v, val) + next()
	case token.ASSIGN:
		// m[k] = struct{}{} on a local set
		if ix, ok := lhs.(*ast.IndexExpr); ok {
			mid, ok := ix.X.(*ast.Ident)
			if !ok {
				t.fail(x, "assignment to %s", types.ExprString(lhs))
			}
			mt, isMap := t.typeOf(mid).Underlying().(*types.Map)
			if !isMap || !mcIsEmptyStruct(mt.Elem()) || !mcIsBasic(mt.Key(), types.String) {
				t.fail(x, "element assignment to %s (only m[k] = struct{}{} on a map[string]struct{})", types.ExprString(lhs))
			}
			if cl, ok := rhs.(*ast.CompositeLit); !ok || len(cl.Elts) != 0 || !mcIsEmptyStruct(t.typeOf(cl)) {
				t.fail(x, "the value stored in a set must be struct{}{}")
			}
			t.mapOK[mid] = true
			v := t.lookup(mid)
			if _, isParam := v.obj.(*types.Var); !isParam || v.obj.Parent() == nil {
				t.fail(x, "map variable")
			}
			if t.isParam(v.obj) {
				t.fail(x, "assignment to an element of a map parameter (the caller sees it)")
			}
			for _, w := range t.scope {
				if w.aliasRoot == v.obj {
					t.fail(x, "map assigned inside a range over it")
				}
			}
			if t.rangedMaps[v.obj] > 0 {
				t.fail(x, "the map %s is assigned inside a range over it", v.name)
			}
			key := t.expr(ix.Index)
			return t.flush() + t.letStmt(v, "goSetAdd "+v.name+" "+mcAtom(key)) + next()
		}
		v := t.assignTarget(lhs)
		t.markMutOK(rhs)
		val := t.expr(rhs)
		return t.flush() + t.letStmt(v, val) + next()
	case token.ADD_ASSIGN:
		v := t.assignTarget(lhs)
		val := t.expr(rhs)
		op := " + "
		switch v.typ {
		case "Nat":
		case "Bytes":
			if !mcIsString(v.obj.Type()) {
				t.fail(x, "+= on a byte slice")
			}
			op = " ++ "
		default:
			t.fail(x, "+= on %s", v.typ)
		}
		return t.flush() + t.letStmt(v, v.name+op+mcAtom(val)) + next()
	}
	t.fail(x, "assignment operator %s", x.Tok)
	return ""
}

func (t *mcT) isParam(o types.Object) bool {
	for _, p := range t.paramObjs {
		if p == o {
			return true
		}
	}
	return false
}

// indexByteForm: n := bytes.IndexByte(x, c); if n == -1 { A }; rest   (A ends in return / break and does not mention n)
func (t *mcT) indexByteForm(x *ast.AssignStmt, call *ast.CallExpr, rest []ast.Stmt, k func() string) string {
	id, ok := x.Lhs[0].(*ast.Ident)
	if x.Tok != token.DEFINE || !ok || t.p.info.Defs[id] == nil || id.Name == "_" {
		t.fail(x, "IndexByte must initialise a new variable")
	}
	nobj := t.p.info.Defs[id]
	bad := func() {
		t.fail(x, "the result of IndexByte must be tested by `if n == -1 { …return/break }` in the next statement")
	}
	if len(rest) == 0 {
		bad()
	}
	ifs, ok := rest[0].(*ast.IfStmt)
	if !ok || ifs.Init != nil || ifs.Else != nil {
		bad()
	}
	be, ok := ifs.Cond.(*ast.BinaryExpr)
	if !ok || be.Op != token.EQL {
		bad()
	}
	ci, ok := be.X.(*ast.Ident)
	if !ok || t.p.info.Uses[ci] != nobj {
		bad()
	}
	if tv := t.p.info.Types[be.Y]; tv.Value == nil || tv.Value.Kind() != constant.Int || tv.Value.ExactString() != "-1" {
		bad()
	}
	if !mcTerminates(ifs.Body.List) {
		bad()
	}
	if t.usedVars(ifs.Body)[nobj] {
		t.fail(ifs, "the branch n == -1 mentions n")
	}
	hay := t.expr(call.Args[0])
	ct, okc := t.p.info.Types[call.Args[1]]
	if !okc || ct.Value == nil || ct.Value.Kind() != constant.Int {
		t.fail(call, "IndexByte of a byte that is not constant")
	}
	pre := t.flush()
	mark := len(t.scope)
	noneS := t.stmts(ifs.Body.List, func() string { t.fail(ifs, "falls through"); return "" })
	t.scope = t.scope[:mark]
	v := t.declLocal(id)
	someS := t.stmts(rest[1:], k)
	return pre + "match goIndexByteO " + mcAtom(hay) + " " + ct.Value.ExactString() + " with\n| none => (\n" + mcIndent(noneS) + "\n  )\n| some " + v.name + " => (\n" + mcIndent(someS) + "\n  )"
}

// sortedLocal: the operand of sort.Strings / sort.Slice: a local slice with no alias (every use is checked)
func (t *mcT) sortedLocal(call *ast.CallExpr) *mcVar {
	id, ok := call.Args[0].(*ast.Ident)
	if !ok {
		t.fail(call, "the sorted slice must be a local variable")
	}
	v := t.lookup(id)
	if t.isParam(v.obj) || v.obj == t.recv || v.kind != mcPlain {
		t.fail(call, "the sorted slice must be a local variable (a parameter shares its array with the caller)")
	}
	if t.loop != nil || t.clos != nil {
		t.fail(call, "sort inside a loop")
	}
	// every use of the variable in the function
	var stack []ast.Node
	ast.Inspect(t.body, func(n ast.Node) bool {
		if n == nil {
			stack = stack[:len(stack)-1]
			return true
		}
		stack = append(stack, n)
		uid, ok := n.(*ast.Ident)
		if !ok || t.p.info.Uses[uid] != v.obj {
			return true
		}
		parent := stack[len(stack)-2]
		okUse := false
		switch p := parent.(type) {
		case *ast.ReturnStmt:
			okUse = true
		case *ast.IndexExpr:
			okUse = p.X == uid
		case *ast.CallExpr:
			if fid, isId := p.Fun.(*ast.Ident); isId {
				if _, isB := t.p.info.Uses[fid].(*types.Builtin); isB {
					if fid.Name == "len" {
						okUse = true
					}
					if fid.Name == "append" && len(p.Args) == 2 && p.Args[0] == uid && len(stack) >= 3 {
						if as, isAs := stack[len(stack)-3].(*ast.AssignStmt); isAs && len(as.Lhs) == 1 && as.Tok == token.ASSIGN {
							if lid, isId := as.Lhs[0].(*ast.Ident); isId && t.p.info.Uses[lid] == v.obj {
								okUse = true
							}
						}
					}
				}
			}
			if pf := t.pkgFunc(p); (pf == "sort.Strings" || pf == "sort.Slice") && p.Args[0] == uid {
				okUse = true
			}
		case *ast.AssignStmt:
			// v = append(v, x) (checked above from the other side) / v := make(...)
			if len(p.Lhs) == 1 && p.Lhs[0] == uid && len(p.Rhs) == 1 {
				if c, isCall := p.Rhs[0].(*ast.CallExpr); isCall {
					if fid, isId := c.Fun.(*ast.Ident); isId {
						if _, isB := t.p.info.Uses[fid].(*types.Builtin); isB && (fid.Name == "append" || fid.Name == "make") {
							okUse = true
						}
					}
				}
			}
		}
		if !okUse {
			t.fail(uid, "the sorted slice %s is used in a way that could alias its array", uid.Name)
		}
		return true
	})
	// its declaration must create a fresh array
	fresh := false
	ast.Inspect(t.body, func(n ast.Node) bool {
		if as, ok := n.(*ast.AssignStmt); ok && as.Tok == token.DEFINE && len(as.Lhs) == 1 && len(as.Rhs) == 1 {
			if did, ok := as.Lhs[0].(*ast.Ident); ok && t.p.info.Defs[did] == v.obj {
				if c, ok := as.Rhs[0].(*ast.CallExpr); ok {
					if fid, ok := c.Fun.(*ast.Ident); ok && fid.Name == "make" {
						if _, isB := t.p.info.Uses[fid].(*types.Builtin); isB {
							fresh = true
						}
					}
				}
			}
		}
		return true
	})
	if !fresh {
		t.fail(call, "the sorted slice %s must be declared by v := make(…)", v.name)
	}
	return v
}

// closure: the comparison of sort.Slice as a definition of its own, a function of the two elements
func (t *mcT) closure(call *ast.CallExpr, v *mcVar) string {
	fl, ok := call.Args[1].(*ast.FuncLit)
	if !ok {
		t.fail(call, "the comparison of sort.Slice must be a function literal")
	}
	ps := fl.Type.Params.List
	var ids []*ast.Ident
	for _, f := range ps {
		ids = append(ids, f.Names...)
	}
	if len(ids) != 2 || ids[0].Name == "_" || ids[1].Name == "_" {
		t.fail(fl, "closure parameters")
	}
	sl := v.obj.Type().Underlying().(*types.Slice)
	et := t.leanType(fl, sl.Elem())
	t.nclos++
	name := fmt.Sprintf("%s_less%d", t.fn, t.nclos)
	saved := *t
	t.scope = nil
	t.loop = nil
	t.pre = nil
	t.clos = &mcClos{slice: v.obj, i: t.p.info.Defs[ids[0]], j: t.p.info.Defs[ids[1]]}
	body := t.stmts(fl.Body.List, func() string { t.fail(fl, "the closure can fall off its end"); return "" })
	defs, tmp, nloop, nclos := t.defs, t.tmp, t.nloop, t.nclos
	*t = saved
	t.defs, t.tmp, t.nloop, t.nclos = defs, tmp, nloop, nclos
	pos := t.p.fset.Position(fl.Pos())
	t.defs = append(t.defs, fmt.Sprintf("/-- the comparison closure of sort.Slice at line %d, as a function of the elements %s[%s] and %s[%s] -/\ndef %s (E : Env) (_a : %s) (_b : %s) : Option Bool :=\n%s\n",
		pos.Line, v.name, ids[0].Name, v.name, ids[1].Name, name, et, et, mcIndent(body)))
	return name
}

func (t *mcT) loopVars(assigned map[types.Object]bool, used map[types.Object]bool) (st, caps []mcVar) {
	for _, v := range t.scope {
		switch {
		case assigned[v.obj]:
			st = append(st, v)
		case used[v.obj]:
			caps = append(caps, v)
		}
	}
	return
}

func mcBinders(vs []mcVar) (decl, args string) {
	for _, v := range vs {
		decl += fmt.Sprintf(" (%s : %s)", v.name, v.typ)
		args += " " + v.name
	}
	return
}

func (t *mcT) afterName(x ast.Node) string {
	switch {
	case t.loop == nil:
		return "after"
	case t.loop.fuel:
		t.fail(x, "a loop inside a `for cond` loop")
	}
	return "afterIn"
}

func (t *mcT) rangeStmt(x *ast.RangeStmt, next func() string) string {
	if x.Tok != token.DEFINE && !(x.Key == nil && x.Value == nil) {
		t.fail(x, "range that assigns existing variables")
	}
	if t.clos != nil {
		t.fail(x, "loop in a closure")
	}
	after := t.afterName(x)
	ident := func(e ast.Expr) *ast.Ident {
		if e == nil {
			return nil
		}
		id, ok := e.(*ast.Ident)
		if !ok {
			t.fail(x, "range variable")
		}
		if id.Name == "_" {
			return nil
		}
		return id
	}
	key, val := ident(x.Key), ident(x.Value)
	t.nloop++
	n := t.nloop
	idxName := fmt.Sprintf("_i%d", n)
	xt := t.typeOf(x.X).Underlying()
	var elems, elemType string
	var valVar *mcVar
	var keyVar *mcVar
	var rangedMap types.Object
	switch u := xt.(type) {
	case *types.Slice:
		elemType = t.leanType(x, u.Elem())
		elems = t.expr(x.X)
		if key != nil {
			keyVar = &mcVar{name: lid(key.Name), typ: "Nat", obj: t.p.info.Defs[key]}
			idxName = keyVar.name
		}
		if val != nil {
			valVar = &mcVar{name: lid(val.Name), typ: elemType, obj: t.p.info.Defs[val]}
			if _, isPtr := u.Elem().(*types.Pointer); isPtr {
				if sel, ok := x.X.(*ast.SelectorExpr); ok {
					if root, ok := sel.X.(*ast.Ident); ok && t.p.info.Uses[root] == t.recv && t.recv != nil {
						fp := t.fieldPath(sel, 0)
						if len(fp) == 1 {
							valVar.aliasRoot, valVar.aliasFld, valVar.aliasIdx = t.recv, fp[0], idxName
						}
					}
				}
			}
		}
	case *types.Basic:
		if u.Kind() != types.String {
			t.fail(x, "range over %s", xt)
		}
		if key != nil {
			t.fail(x, "the byte index of a range over a string")
		}
		elemType = "GoRune"
		elems = "(goRangeString " + mcAtom(t.expr(x.X)) + ")"
		if val != nil {
			valVar = &mcVar{name: lid(val.Name), typ: "GoRune", obj: t.p.info.Defs[val], kind: mcRune}
		}
	case *types.Map:
		if val != nil {
			t.fail(x, "the value variable of a range over a map")
		}
		mid, ok := x.X.(*ast.Ident)
		if !ok {
			t.fail(x, "range over a map that is not a variable")
		}
		t.mapOK[mid] = true
		mv := t.expr(mid)
		rangedMap = t.p.info.Uses[mid]
		elemType = "Bytes"
		switch t.leanType(x, xt) {
		case "(List Bytes)":
			elems = "(E.mapOrder " + mv + ")"
		case "(List (Bytes × Bytes))":
			elems = "(E.mapOrder (AMap.keys " + mv + "))"
		}
		*t.order = true
		if key != nil {
			valVar = &mcVar{name: lid(key.Name), typ: "Bytes", obj: t.p.info.Defs[key]}
		}
		// the body must not modify the map: no call is made on it and no element is assigned (rangedMaps)
	default:
		t.fail(x, "range over %s", xt)
	}
	pre := t.flush()
	ar := t.aliasRoots(t.body)
	st, caps := t.loopVars(t.assigned(x.Body, ar), t.usedVars(x.Body))
	// the body
	mark := len(t.scope)
	savedLoop := t.loop
	t.loop = &mcLoop{st: st}
	if rangedMap != nil {
		t.rangedMaps[rangedMap]++
	}
	if keyVar != nil {
		t.declare(*keyVar)
	}
	if valVar != nil {
		t.declare(*valVar)
	}
	body := t.stmts(x.Body.List, func() string { return "some (Step.cont " + mcTupleVal(st) + ")" })
	if rangedMap != nil {
		t.rangedMaps[rangedMap]--
	}
	t.loop = savedLoop
	t.scope = t.scope[:mark]
	name := fmt.Sprintf("%s_loop%d", t.fn, n)
	cd, ca := mcBinders(caps)
	valName := "_x"
	if valVar != nil {
		valName = valVar.name
	}
	pos := t.p.fset.Position(x.Pos())
	t.defs = append(t.defs, fmt.Sprintf("/-- the body of the range loop at line %d -/\ndef %s (E : Env)%s (%s : Nat) (%s : %s) (st : %s) : Option (Step %s %s) :=\n%s\n",
		pos.Line, name, cd, idxName, valName, elemType, mcTupleType(st), mcTupleType(st), t.ret, mcIndent(mcUnpack(st)+body)))
	return pre + fmt.Sprintf("%s (forRange (%s E%s) %s 0 %s) fun st =>\n", after, name, ca, mcAtom(elems), mcTupleVal(st)) + mcUnpack(st) + next()
}

// forStmt: `for init; cond; post { … }` on fuel
func (t *mcT) forStmt(x *ast.ForStmt, next func() string) string {
	if t.loop != nil || t.clos != nil {
		t.fail(x, "a `for cond` loop inside a loop")
	}
	if x.Cond == nil {
		t.fail(x, "for without a condition")
	}
	mark := len(t.scope)
	init := ""
	if x.Init != nil {
		init = t.stmts([]ast.Stmt{x.Init}, func() string { return "" })
	}
	t.nloop++
	n := t.nloop
	ar := t.aliasRoots(t.body)
	var nodes []ast.Node
	nodes = append(nodes, x.Body, x.Cond)
	asg := t.assigned(x.Body, ar)
	if x.Post != nil {
		nodes = append(nodes, x.Post)
		for o := range t.assigned(x.Post, ar) {
			asg[o] = true
		}
	}
	st, caps := t.loopVars(asg, t.usedVars(nodes...))
	inner := len(t.scope)
	t.loop = &mcLoop{st: st, fuel: true}
	cond := t.expr(x.Cond)
	cpre := t.flush()
	body := t.stmts(x.Body.List, func() string {
		end := func() string { return "some (StepB.cont " + mcTupleVal(st) + ")" }
		if x.Post != nil {
			return t.stmts([]ast.Stmt{x.Post}, end)
		}
		return end()
	})
	t.loop = nil
	t.scope = t.scope[:inner]
	name := fmt.Sprintf("%s_loop%d", t.fn, n)
	cd, ca := mcBinders(caps)
	pos := t.p.fset.Position(x.Pos())
	t.defs = append(t.defs, fmt.Sprintf("/-- one iteration of the `for` loop at line %d: the condition, then the body (and the post statement) -/\ndef %s (E : Env)%s (st : %s) : Option (StepB %s %s) :=\n%s\n",
		pos.Line, name, cd, mcTupleType(st), mcTupleType(st), t.ret,
		mcIndent(mcUnpack(st)+cpre+"if "+cond+" then (\n"+mcIndent(body)+"\n) else (\n  some (StepB.brk "+mcTupleVal(st)+")\n)")))
	*t.fuelUsed = true
	out := init + fmt.Sprintf("after (forFuel (%s E%s) E.fuel %s) fun st =>\n", name, ca, mcTupleVal(st)) + mcUnpack(st)
	r := out + next()
	t.scope = t.scope[:mark]
	return r
}

// checkNames: every variable the function declares has a name of its own (see the header)
func (t *mcT) checkNames(fd *ast.FuncDecl) {
	seen := map[string]bool{}
	ast.Inspect(fd, func(n ast.Node) bool {
		switch x := n.(type) {
		case *ast.LabeledStmt, *ast.GoStmt, *ast.DeferStmt, *ast.SelectStmt, *ast.SwitchStmt, *ast.TypeSwitchStmt:
			t.fail(n, "statement %T", n)
		case *ast.Ident:
			o := t.p.info.Defs[x]
			if o == nil || x == fd.Name || x.Name == "_" {
				return true
			}
			if _, isVar := o.(*types.Var); !isVar {
				t.fail(x, "declaration of %s, which is not a variable", x.Name)
			}
			if seen[x.Name] {
				t.fail(x, "two variables of the function are called %s", x.Name)
			}
			if strings.HasPrefix(x.Name, "_") || mcReserved[x.Name] {
				t.fail(x, "the variable name %s is used by the translation", x.Name)
			}
			seen[x.Name] = true
		}
		return true
	})
}

func (p *pkgInfo) translateMisc() string {
	ns := "PP.TrM"
	var sb strings.Builder
	fmt.Fprintf(&sb, "/- GENERATED by /verif/extract (translate_misc.go) from stack/context.go, stack/stack.go, stack/source.go — do not edit. -/\nimport PP.Go.PreludeMisc\nset_option linter.unusedVariables false\nnamespace %s\nopen PP PP.Go PP.Go.Misc\n\n", ns)
	var failed []string
	type sig struct{ name, typ string }
	var sigs []sig
	var bodies []string
	externs := map[string]string{}
	order, fuelUsed := false, false
	for _, f := range trFuncsMisc {
		fd := p.funcDecl(f[0], f[1])
		name := trName(f[0], f[1])
		if fd == nil || fd.Body == nil {
			failed = append(failed, fmt.Sprintf("%s.%s: function not found", f[0], f[1]))
			continue
		}
		t := &mcT{p: p, fn: name, mutOK: map[*ast.CallExpr]bool{}, mapOK: map[*ast.Ident]bool{}, externs: externs, order: &order,
			fuelUsed: &fuelUsed, body: fd.Body, rangedMaps: map[types.Object]int{}}
		func() {
			defer func() {
				if r := recover(); r != nil {
					if tf, ok := r.(trFail); ok {
						failed = append(failed, fmt.Sprintf("%s.%s: %s", f[0], f[1], tf.msg))
						return
					}
					panic(r)
				}
			}()
			t.checkNames(fd)
			var binds, ptypes []string
			add := func(fl *ast.FieldList, isRecv bool) {
				if fl == nil {
					return
				}
				for _, fld := range fl.List {
					gty := t.typeOf(fld.Type)
					if ell, ok := fld.Type.(*ast.Ellipsis); ok {
						gty = types.NewSlice(t.typeOf(ell.Elt))
					}
					if _, isPtr := gty.(*types.Pointer); isPtr && !isRecv {
						t.fail(fld, "pointer parameter")
					}
					ty := t.leanType(fld, gty)
					if len(fld.Names) == 0 {
						t.fail(fld, "unnamed parameter")
					}
					for _, n := range fld.Names {
						if n.Name == "_" {
							t.fail(fld, "blank parameter")
						}
						v := mcVar{name: lid(n.Name), typ: ty, obj: p.info.Defs[n]}
						if isRecv {
							t.recv = v.obj
						} else {
							t.paramObjs = append(t.paramObjs, v.obj)
						}
						t.declare(v)
						binds = append(binds, fmt.Sprintf("(%s : %s)", v.name, ty))
						ptypes = append(ptypes, ty)
					}
				}
			}
			add(fd.Recv, true)
			add(fd.Type.Params, false)
			if fd.Type.Results == nil || len(fd.Type.Results.List) != 1 || len(fd.Type.Results.List[0].Names) != 0 {
				t.fail(fd, "a function of group Misc has exactly one unnamed result")
			}
			t.ret = t.leanType(fd, t.typeOf(fd.Type.Results.List[0].Type))
			if t.recv != nil && t.assigned(fd.Body, t.aliasRoots(fd.Body))[t.recv] {
				if _, isPtr := t.recv.Type().(*types.Pointer); !isPtr {
					t.fail(fd, "a value receiver is written")
				}
				t.threaded = true
				t.ret = "(" + t.lookupObj(t.recv).typ + " × " + t.ret + ")"
			}
			for _, po := range t.paramObjs {
				if t.assigned(fd.Body, nil)[po] {
					if _, isSlice := po.Type().Underlying().(*types.Slice); isSlice {
						t.fail(fd, "the slice parameter %s is assigned", po.Name())
					}
				}
			}
			body := t.stmts(fd.Body.List, func() string { t.fail(fd, "function can fall off its end"); return "" })
			pos := p.fset.Position(fd.Pos())
			var out strings.Builder
			for _, d := range t.defs {
				out.WriteString(d + "\n")
			}
			fmt.Fprintf(&out, "/-- %s.%s (%s:%d) -/\ndef %s (E : Env) %s : Option %s :=\n%s\n", f[0], f[1], pos.Filename[strings.LastIndex(pos.Filename, "/")+1:], pos.Line, name, strings.Join(binds, " "), t.ret, mcIndent(body))
			sigs = append(sigs, sig{name, strings.Join(append(ptypes, "Option "+t.ret), " → ")})
			bodies = append(bodies, out.String())
		}()
	}
	if len(failed) > 0 {
		fmt.Fprintf(&sb, "/-- the translation of group Misc failed: this does not check -/\ntheorem translation_failed : %s = \"\" := rfl\n\nend %s\n", leanStr(strings.Join(failed, "; ")), ns)
		return sb.String()
	}
	sb.WriteString("/-- the oracles of the environment (the order in which a range visits the keys of a map; the fuel of the\nunbounded loop), the methods tied in other groups, and the translated functions, as callees -/\nstructure Env where\n")
	if order {
		sb.WriteString("  mapOrder : (List Bytes) → (List Bytes)\n")
	}
	if fuelUsed {
		sb.WriteString("  fuel : Nat\n")
	}
	var en []string
	for n := range externs {
		en = append(en, n)
	}
	sort.Strings(en)
	for _, n := range en {
		fmt.Fprintf(&sb, "  %s : %s\n", n, externs[n])
	}
	for _, s := range sigs {
		fmt.Fprintf(&sb, "  %s : %s\n", s.name, s.typ)
	}
	sb.WriteString("\n")
	for _, b := range bodies {
		sb.WriteString(b + "\n")
	}
	fmt.Fprintf(&sb, "end %s\n", ns)
	return sb.String()
}
