// translate.go — a translator for a small imperative subset of Go into Lean 4.
//
// It regenerates lean/PP/Translated.lean from /repo's current source on every
// run: one Lean definition per Go function of the comparison / merge family of
// stack.go (equal, similar, merge, less for Arg … Signature).  The output is a
// term of type `Option τ` (`none` = run-time panic); calls go through a generated
// environment structure so that the definitions are not recursive, and
// lean/PP/Tie/Translated.lean proves that the hand-written model satisfies every
// generated equation.  Run-time support: lean/PP/Go/Prelude.lean.
//
// Supported Go: value/pointer receivers and parameters of the struct types
// below, bool/int/string/enum expressions, field selection, indexing, len,
// make, composite literals, method calls on translated functions, &x / *p (as
// values), `:=`/`=`/`++` on locals and on field/index paths rooted in a local,
// if/else, switch on a tag, return, `for … range`, and counted `for` loops with
// constant step 1.  Anything else makes the translation of that function fail,
// which is reported by name (a broken obligation of the properties that use it).
package main

import (
	"fmt"
	"go/ast"
	"go/constant"
	"go/token"
	"go/types"
	"sort"
	"strings"
)

// the functions to translate, in emission order
var trFuncs = [][2]string{
	{"Arg", "equal"}, {"Arg", "similar"},
	{"Args", "equal"}, {"Args", "similar"}, {"Args", "merge"},
	{"Call", "equal"}, {"Call", "similar"}, {"Call", "merge"},
	{"Stack", "equal"}, {"Stack", "similar"}, {"Stack", "merge"}, {"Stack", "less"},
	{"Signature", "equal"}, {"Signature", "similar"}, {"Signature", "merge"}, {"Signature", "less"},
}

// byte-level helpers of the scanner and of path rebasing (context.go): a second,
// independent group (its own file, namespace and Env), so that a change there
// does not touch the obligations of the aggregation properties and vice versa
var trFuncsScan = [][2]string{
	{"", "isFramesElidedLine"}, {"", "trimLeftSpace"}, {"", "atou"},
	{"", "hasPrefix"}, {"", "hasSrcPrefix"}, {"", "isRootedIn"},
	{"Call", "updateLocations"}, {"Stack", "updateLocations"}, {"Signature", "updateLocations"},
	{"Call", "init"},
}

// the link builders of the HTML writer (html.go): a third group.  net/url's escaping, html/template's
// escaper, the two regular expressions and runtime.Version() are the environment (the first three are
// the hand-written model functions, the last a parameter).
var trFuncsHtml = [][2]string{
	{"", "funcClass"}, {"", "splitHost"}, {"", "splitTag"}, {"", "symbol"},
	{"", "getSrcBranchURL"}, {"", "srcURL"}, {"", "pkgURL"},
}

// the root finding of path rebasing (context.go): a fourth group.  os.Stat and os.ReadFile are oracles of the
// environment; getFiles, splitPath, path.Dir, the regular expression reModule and the three helpers tied in the
// second group (isRootedIn, hasPrefix, hasSrcPrefix) are the hand-written model functions.
var trFuncsRoots = [][2]string{
	{"gomodCache", "isGoModule"}, {"Snapshot", "findRoots"},
}

func trName(recv, fn string) string {
	if recv == "" {
		return fn
	}
	return recv + "_" + fn
}

// Go struct name -> Lean structure; fields are lower-cased on the first letter
// run unless renamed here.
var trFieldRename = map[string]string{
	"Call.Func": "fn", "Call.Args": "args", "Signature.Stack": "stack", "Goroutine.Signature": "sig",
	"Goroutine.ID": "id", "Bucket.IDs": "ids", "Bucket.Signature": "key",
}

var trEnumConst = map[string]string{
	"ExactFlags": "Lvl.exactFlags", "ExactLines": "Lvl.exactLines", "AnyPointer": "Lvl.anyPointer", "AnyValue": "Lvl.anyValue",
	"LocationUnknown": "Loc.unknown", "GoMod": "Loc.goMod", "GOPATH": "Loc.gopath", "GoPkg": "Loc.goPkg", "Stdlib": "Loc.stdlib",
}

type trFail struct{ msg string }

var leanKeywords = map[string]bool{"prefix": true, "infix": true, "infixl": true, "infixr": true, "postfix": true, "notation": true,
	"at": true, "end": true, "from": true, "fun": true, "then": true, "let": true, "in": true, "do": true, "have": true, "show": true,
	"match": true, "with": true, "where": true, "open": true, "def": true, "theorem": true, "namespace": true, "section": true,
	"variable": true, "instance": true, "structure": true, "class": true, "deriving": true, "mutual": true, "by": true, "macro": true,
	"syntax": true, "universe": true, "example": true, "abbrev": true, "inductive": true, "using": true, "calc": true, "suffices": true,
	"obtain": true, "Type": true, "Prop": true, "Sort": true, "local": true, "private": true, "protected": true, "partial": true,
	"unsafe": true, "extends": true, "attribute": true, "export": true, "nomatch": true, "nofun": true, "set_option": true, "st": true, "E": true}

// lid is the Lean spelling of a Go identifier (escaped where Lean reserves the word;
// `st` and `E` are names the translation itself uses)
func lid(n string) string {
	if leanKeywords[n] {
		return "«" + n + "»"
	}
	return n
}

func lowerFirst(s string) string {
	// IsPkgMain -> isPkgMain, ID -> id, IDs -> ids, RemoteSrcPath -> remoteSrcPath
	n := 0
	for n < len(s) && s[n] >= 'A' && s[n] <= 'Z' {
		n++
	}
	switch {
	case n == 0:
		return s
	case n == len(s):
		return strings.ToLower(s)
	case n == 1:
		return strings.ToLower(s[:1]) + s[1:]
	default:
		if n == len(s)-1 && s[n] == 's' { // IDs
			return strings.ToLower(s)
		}
		return strings.ToLower(s[:n-1]) + s[n-1:]
	}
}

type trLocal struct {
	name string
	typ  string
	obj  types.Object // the Go variable this binding stands for (nil for names the translation introduces)
}

type translator struct {
	p      *pkgInfo
	fn     string // Lean name of the function being translated
	ret    string // Lean return type
	params []trLocal
	scope  []trLocal // in-scope locals (not params)
	tmp    int
	nloop  int
	defs   []string // loop body definitions emitted so far
	// loop context
	inLoop   bool
	stVars   []trLocal
	impure   int // counts binds emitted (purity probe)
	funcs    map[string]bool
	mutating map[string]bool // translated methods that assign through their pointer receiver
	recvMut  string // name of a pointer receiver the function assigns through ("" if none): it is
	// threaded as a local and returned together with the result
	depth int
	envSigs  map[string]string
	submatch map[types.Object]bool // variables holding the result of FindStringSubmatch
	void     bool // no result: the translation returns the receiver it assigned through
	// console group (translate_ui.go)
	uiSel    map[*ast.SelectorExpr]ast.Expr   // promoted selectors, made explicit
	uiCall   map[*ast.CallExpr]*ast.CallExpr  // calls rewritten (promoted receivers, Stringer operands of Sprintf)
	uiAppend map[*ast.CallExpr]bool           // append calls checked to be `v = append(v, …)` on an unshared local
	body     *ast.BlockStmt                   // the body of the function being translated
	// group Roots only (see the section "group Roots" at the end of this file): continue / break,
	// nested loops, join blocks, maps that are written, possibly-negative differences
	roots   bool
	frames  []trFrame
	mapInit map[string]bool // map-valued paths known to hold a non-nil map (see mapPath)
	// group Agg only (translate_agg.go): nil in every other group
	agg *aggState
	// group Web only (translate_web.go): runs on the statement translator of group Roots (roots is set too)
	web    bool
	webW   *types.Var              // the object the world `wld` stands for in scopes and assigned-sets
	webTop map[*ast.CallExpr]bool  // calls in statement position (the only place a call with an effect may stand)
	webNil map[*ast.Ident]types.Type // the type an untyped `nil` takes from its context
	// group Func only (translate_func.go): Go `int` is Lean `Int`, `error` is a value (GoErr)
	fi bool
}

func (t *translator) fail(n ast.Node, f string, a ...interface{}) {
	pos := t.p.fset.Position(n.Pos())
	panic(trFail{fmt.Sprintf("%s:%d: %s", pos.Filename[strings.LastIndex(pos.Filename, "/")+1:], pos.Line, fmt.Sprintf(f, a...))})
}

func (t *translator) fresh() string { t.tmp++; return fmt.Sprintf("t%d", t.tmp) }

func (t *translator) ind() string { return strings.Repeat("  ", t.depth+1) }

// leanType maps a Go type to the Lean type of the model.
func (t *translator) leanType(n ast.Node, ty types.Type) string {
	if r, ok := t.aggType(n, ty); ok {
		return r
	}
	switch x := ty.(type) {
	case *types.Pointer:
		return t.leanType(n, x.Elem())
	case *types.Named:
		if r, ok := t.uiNamedType(n, x); ok {
			return r
		}
		if r, ok := t.fiNamedType(n, x); ok {
			return r
		}
		switch x.Obj().Name() {
		case "Arg", "Args", "Call", "Stack", "Signature", "Func", "Goroutine":
			return x.Obj().Name()
		case "Bucket":
			// Aggregate's sort closure sees a bucket together with the `order` it was given
			return "Bkt"
		case "Similarity":
			return "Lvl"
		case "Location":
			return "Loc"
		case "Snapshot":
			// the model's record of the six fields findRoots reads and writes (PP/Model/Roots.lean)
			return "Snapshot"
		}
		if b, ok := x.Underlying().(*types.Basic); ok && b.Info()&types.IsString != 0 {
			return "Bytes" // template.URL, template.HTML: strings
		}
		if m, ok := x.Underlying().(*types.Map); ok {
			return t.leanType(n, m) // gomodCache
		}
	case *types.Basic:
		if r, ok := t.fiBasic(n, x); ok {
			return r
		}
		switch {
		case x.Info()&types.IsBoolean != 0:
			return "Bool"
		case x.Kind() == types.Uint8:
			return "UInt8"
		case x.Kind() == types.UntypedNil:
			return "_"
		case t.web && x.Info()&types.IsInteger != 0:
			// group Web: int is Int, no other integer type (translate_web.go)
			if x.Kind() == types.Int || x.Kind() == types.UntypedInt {
				return "Int"
			}
		case x.Info()&types.IsInteger != 0:
			return "Nat"
		case x.Info()&types.IsString != 0:
			return "Bytes"
		}
	case *types.Slice:
		if b, ok := x.Elem().(*types.Basic); ok && b.Kind() == types.Uint8 {
			return "Bytes"
		}
		return "(List " + t.leanType(n, x.Elem()) + ")"
	case *types.Map:
		if st, ok := x.Elem().Underlying().(*types.Struct); ok && st.NumFields() == 0 {
			// map[K]struct{}: a set, the list of its keys (SSet in PreludeRoots.lean)
			return "(List " + t.leanType(n, x.Key()) + ")"
		}
		// a Go map the code only ranges over / looks keys up in: an association list
		return "(List (" + t.leanType(n, x.Key()) + " × " + t.leanType(n, x.Elem()) + "))"
	case *types.Tuple:
		var ps []string
		for i := 0; i < x.Len(); i++ {
			ps = append(ps, t.leanType(n, x.At(i).Type()))
		}
		return "(" + strings.Join(ps, " × ") + ")"
	case *types.Array:
		return "(List " + t.leanType(n, x.Elem()) + ")"
	}
	t.fail(n, "unsupported type %s", ty)
	return ""
}

func (t *translator) typeOf(e ast.Expr) types.Type {
	tv, ok := t.p.info.Types[e]
	if !ok {
		if id, ok := e.(*ast.Ident); ok {
			if o := t.p.info.Uses[id]; o != nil {
				return o.Type()
			}
			if o := t.p.info.Defs[id]; o != nil {
				return o.Type()
			}
		}
		t.fail(e, "no type information")
	}
	return tv.Type
}

func structName(ty types.Type) string {
	if p, ok := ty.(*types.Pointer); ok {
		ty = p.Elem()
	}
	if n, ok := ty.(*types.Named); ok {
		return n.Obj().Name()
	}
	return ""
}

func (t *translator) zero(n ast.Node, ty types.Type) string {
	switch t.leanType(n, ty) {
	case "Arg":
		return "zeroArg"
	case "Call":
		return "zeroCall"
	case "Nat":
		return "0"
	case "Bool":
		return "false"
	case "Bytes":
		return "([] : Bytes)"
	}
	t.fail(n, "no zero value for %s", ty)
	return ""
}

// field access on a term of struct type sn
func fieldGet(sn, term, field string) string {
	f := lowerFirst(field)
	if r, ok := trFieldRename[sn+"."+field]; ok {
		f = r
	}
	if r, ok := trGroupFields[sn+"."+field]; ok {
		f = r
	}
	if sn == "Arg" {
		return fmt.Sprintf("(ofArg %s).%s", term, f)
	}
	return fmt.Sprintf("%s.%s", term, f)
}

func fieldSet(sn, term, field, val string) string {
	f := lowerFirst(field)
	if r, ok := trFieldRename[sn+"."+field]; ok {
		f = r
	}
	if r, ok := trGroupFields[sn+"."+field]; ok {
		f = r
	}
	if sn == "Arg" {
		return fmt.Sprintf("({ ofArg %s with %s := %s } : ArgS).toArg", term, f, val)
	}
	return fmt.Sprintf("{ %s with %s := %s }", term, f, val)
}

// pure tries to translate e without emitting any bind; ok=false if e needs one.
func (t *translator) pure(e ast.Expr) (s string, ok bool) {
	save := t.tmp
	defer func() {
		if r := recover(); r != nil {
			if _, is := r.(trImpure); is {
				t.tmp = save
				s, ok = "", false
				return
			}
			panic(r)
		}
	}()
	return t.pureExpr(e), true
}

type trImpure struct{}

func (t *translator) pureExpr(e ast.Expr) string {
	if t.roots {
		t.rootsConstGuard(e)
	}
	if t.web {
		if s, ok := t.webPure(e); ok {
			return s
		}
	}
	if t.fi {
		if s, ok := t.fiPure(e); ok {
			return s
		}
	}
	if tv, ok := t.p.info.Types[e]; ok && tv.Value != nil {
		switch tv.Value.Kind() {
		case constant.Bool:
			return fmt.Sprint(constant.BoolVal(tv.Value))
		case constant.String:
			s := constant.StringVal(tv.Value)
			if s == "*" {
				return "star"
			}
			return leanBytes(s)
		case constant.Int:
			if n, ok := tv.Type.(*types.Named); ok && (n.Obj().Name() == "Similarity" || n.Obj().Name() == "Location") {
				if id, ok := e.(*ast.Ident); ok {
					if c, ok := trEnumConst[id.Name]; ok {
						return c
					}
				}
				if c, ok := t.uiQualifiedEnum(e); ok {
					return c
				}
				t.fail(e, "enum constant expression")
			}
			if c, ok := t.uiEnumConst(e, tv.Type); ok {
				return c
			}
			return tv.Value.ExactString()
		}
	}
	switch x := e.(type) {
	case *ast.ParenExpr:
		return "(" + t.pureExpr(x.X) + ")"
	case *ast.Ident:
		switch x.Name {
		case "true", "false":
			return x.Name
		case "nil":
			return "[]"
		}
		t.checkBinding(x)
		return lid(x.Name)
	case *ast.StarExpr:
		return t.pureExpr(x.X)
	case *ast.UnaryExpr:
		switch x.Op {
		case token.AND:
			return t.pureExpr(x.X)
		case token.NOT:
			return "(!" + t.pureExpr(x.X) + ")"
		}
	case *ast.SelectorExpr:
		if y := t.uiPromoted(x); y != ast.Expr(x) {
			return t.pureExpr(y)
		}
		sn := structName(t.typeOf(x.X))
		if sn == "" {
			t.fail(e, "selector on non-struct")
		}
		return fieldGet(sn, t.pureExpr(x.X), x.Sel.Name)
	case *ast.BinaryExpr:
		return t.binop(x, t.pureExpr(x.X), t.pureExpr(x.Y))
	case *ast.CallExpr:
		if s, ok := t.builtinCall(x, func(e ast.Expr) string { return t.pureExpr(e) }); ok {
			return s
		}
		if id, ok := x.Fun.(*ast.Ident); ok {
			switch id.Name {
			case "len":
				return "(len " + t.pureExpr(x.Args[0]) + ")"
			case "int":
				if b, ok := t.typeOf(x.Args[0]).Underlying().(*types.Basic); ok && b.Kind() == types.Uint8 {
					return "(" + t.pureExpr(x.Args[0]) + ").toNat"
				}
				return t.pureExpr(x.Args[0])
			case "make":
				if len(x.Args) == 2 {
					sl, ok := t.typeOf(x.Args[0]).(*types.Slice)
					if ok {
						return fmt.Sprintf("(List.replicate %s %s)", t.pureExpr(x.Args[1]), t.zero(x, sl.Elem()))
					}
				}
			}
		}
		panic(trImpure{})
	case *ast.IndexExpr:
		if m, ok := t.typeOf(x.X).Underlying().(*types.Map); ok {
			// the only map the translated code reads: order map[*Bucket]int, written once per bucket
			// by Aggregate before sorting; the model keeps that number in the bucket record
			if id, ok := x.X.(*ast.Ident); ok && id.Name == "order" && structName(m.Key()) == "Bucket" {
				return t.pureExpr(x.Index) + ".order"
			}
			if kb, ok := m.Key().Underlying().(*types.Basic); ok && kb.Info()&types.IsString != 0 {
				if vb, ok := m.Elem().Underlying().(*types.Basic); ok && vb.Info()&types.IsString != 0 {
					// m[k] on a map[string]string: the value, or "" when absent
					return fmt.Sprintf("(AMap.get %s %s)", atom(t.pureExpr(x.X)), atom(t.pureExpr(x.Index)))
				}
			}
			t.fail(e, "map lookup")
		}
		panic(trImpure{})
	case *ast.SliceExpr:
		panic(trImpure{})
	case *ast.CompositeLit:
		return t.composite(x, func(e ast.Expr) string { return t.pureExpr(e) })
	}
	t.fail(e, "unsupported expression %T", e)
	return ""
}

// builtinCall maps the library and package functions the translated code uses
// to their model counterparts; sub translates an argument.
func (t *translator) builtinCall(x *ast.CallExpr, sub func(ast.Expr) string) (string, bool) {
	x = t.uiRewriteCall(x)
	// conversions []byte("…"), string(x)
	if _, ok := x.Fun.(*ast.ArrayType); ok && len(x.Args) == 1 {
		return sub(x.Args[0]), true
	}
	if id, ok := x.Fun.(*ast.Ident); ok && id.Name == "string" && len(x.Args) == 1 {
		if _, isSl := t.typeOf(x.Args[0]).Underlying().(*types.Slice); isSl {
			return sub(x.Args[0]), true
		}
		if b, ok := t.typeOf(x.Args[0]).Underlying().(*types.Basic); ok && b.Info()&types.IsString != 0 {
			return sub(x.Args[0]), true
		}
	}
	// conversions between string types: template.URL(s), template.HTML(s)
	if tv, ok := t.p.info.Types[x.Fun]; ok && tv.IsType() && len(x.Args) == 1 {
		if b, ok := tv.Type.Underlying().(*types.Basic); ok && b.Info()&types.IsString != 0 {
			if ab, ok := t.typeOf(x.Args[0]).Underlying().(*types.Basic); ok && ab.Info()&types.IsString != 0 {
				return sub(x.Args[0]), true
			}
		}
	}
	name := ""
	switch f := x.Fun.(type) {
	case *ast.SelectorExpr:
		if pk, ok := f.X.(*ast.Ident); ok {
			if pn, isPkg := t.p.info.Uses[pk].(*types.PkgName); isPkg {
				name = pn.Imported().Name() + "." + f.Sel.Name
			} else if v, isVar := t.p.info.Uses[pk].(*types.Var); isVar && v.Parent() == t.p.pkg.Scope() && v.Type().String() == "*regexp.Regexp" {
				// a method of one of the package's compiled regular expressions
				name = "regexp:" + pk.Name + "." + f.Sel.Name
			}
		}
		if name == "" && f.Sel.Name == "String" && len(x.Args) == 0 {
			if n, ok := t.typeOf(f.X).(*types.Named); ok && n.Obj().Name() == "Location" {
				// location_string.go (generated by stringer): the model's Loc.string
				return fmt.Sprintf("(Loc.string %s)", atom(sub(f.X))), true
			}
		}
	case *ast.Ident:
		name = f.Name
	}
	constStr := func(e ast.Expr) (string, bool) {
		tv, ok := t.p.info.Types[e]
		if !ok || tv.Value == nil || tv.Value.Kind() != constant.String {
			return "", false
		}
		return constant.StringVal(tv.Value), true
	}
	if s, ok := t.aggBuiltin(name, x, sub); ok {
		return s, true
	}
	if s, ok := t.uiBuiltin(name, x, sub); ok {
		return s, true
	}
	if s, ok := t.fiBuiltin(name, x, sub); ok {
		return s, true
	}
	switch name {
	case "url.QueryEscape":
		return fmt.Sprintf("(queryEscape %s)", atom(sub(x.Args[0]))), true
	case "template.HTMLEscapeString":
		return fmt.Sprintf("(htmlEscapeString %s)", atom(sub(x.Args[0]))), true
	case "escape":
		// html.go: url.URL{Path: s}.EscapedPath(), the model's escape (net/url is modelled by hand)
		if !t.funcs["escape"] {
			return fmt.Sprintf("(escape %s)", atom(sub(x.Args[0]))), true
		}
	case "runtime.Version":
		return "E.runtimeVersion", true
	case "strings.SplitN":
		sep, ok := constStr(x.Args[1])
		tv := t.p.info.Types[x.Args[2]]
		if !ok || len(sep) != 1 || tv.Value == nil {
			t.fail(x, "strings.SplitN with a separator that is not a one-byte constant, or a count that is not constant")
		}
		n, _ := constant.Int64Val(tv.Value)
		if n <= 0 {
			t.fail(x, "strings.SplitN with a count that is not positive")
		}
		return fmt.Sprintf("(goSplitN %s %d %d)", atom(sub(x.Args[0])), sep[0], n), true
	case "regexp:reVersion.FindStringSubmatch":
		return fmt.Sprintf("(reVersionSubmatch %s)", atom(sub(x.Args[0]))), true
	case "regexp:reMethodSymbol.MatchString":
		return fmt.Sprintf("(reMethodSymbol %s).isSome", atom(sub(x.Args[0]))), true
	case "regexp:reMethodSymbol.ReplaceAllString":
		if repl, ok := constStr(x.Args[1]); !ok || repl != "$1$2" {
			t.fail(x, "reMethodSymbol.ReplaceAllString with a template other than \"$1$2\"")
		}
		return fmt.Sprintf("(reMethodSymbolReplace12 %s)", atom(sub(x.Args[0]))), true
	case "fmt.Sprintf":
		f, ok := constStr(x.Args[0])
		if !ok {
			t.fail(x, "fmt.Sprintf with a format that is not constant")
		}
		var parts []string
		lit := ""
		flush := func() {
			if lit != "" {
				parts = append(parts, leanBytes(lit))
				lit = ""
			}
		}
		ai := 1
		for i := 0; i < len(f); i++ {
			if f[i] != '%' {
				lit += string(f[i])
				continue
			}
			i++
			if i == len(f) {
				t.fail(x, "fmt.Sprintf: format ends in %%")
			}
			if f[i] == '%' {
				lit += "%"
				continue
			}
			if n, term := t.uiSprintfVerb(x, f[i:], &ai, sub); n > 0 {
				flush()
				parts = append(parts, term)
				i += n - 1
				continue
			}
			if ai >= len(x.Args) {
				t.fail(x, "fmt.Sprintf: missing argument")
			}
			a := x.Args[ai]
			ai++
			ab, _ := t.typeOf(a).Underlying().(*types.Basic)
			switch {
			case f[i] == 's' && ab != nil && ab.Info()&types.IsString != 0:
				flush()
				parts = append(parts, sub(a))
			case f[i] == 'd' && ab != nil && ab.Info()&types.IsInteger != 0:
				// ints of the translated code are natural numbers (line numbers, counts)
				flush()
				parts = append(parts, "Bytes.natToDec "+atom(sub(a)))
			default:
				t.fail(x, "fmt.Sprintf: verb %%%c with an argument of type %s", f[i], t.typeOf(a))
			}
		}
		if ai != len(x.Args) {
			t.fail(x, "fmt.Sprintf: extra arguments")
		}
		flush()
		if len(parts) == 0 {
			return "([] : Bytes)", true
		}
		return "(" + strings.Join(parts, " ++ ") + ")", true
	case "bytes.Equal":
		return fmt.Sprintf("(%s == %s)", sub(x.Args[0]), sub(x.Args[1])), true
	case "bytes.HasPrefix", "strings.HasPrefix":
		return fmt.Sprintf("(Bytes.hasPrefix %s %s)", atom(sub(x.Args[0])), atom(sub(x.Args[1]))), true
	case "bytes.HasSuffix", "strings.HasSuffix":
		return fmt.Sprintf("(Bytes.hasSuffix %s %s)", atom(sub(x.Args[0])), atom(sub(x.Args[1]))), true
	case "sortedByLen":
		// stack.go: the keys of the map, longest first, ties in lexical order (the model's sortedByLen;
		// its agreement with the Go function is checked by the correspondence stream of C18)
		return fmt.Sprintf("(sortedByLen %s)", atom(sub(x.Args[0]))), true
	case "getFiles", "splitPath", "isRootedIn", "hasPrefix", "hasSrcPrefix", "path.Dir", "regexp:reModule.FindSubmatch":
		if s, ok := t.rootsBuiltin(x, name, sub); ok {
			return s, true
		}
	case "isFile":
		// os.Stat: an oracle of the environment
		return fmt.Sprintf("(E.isFile %s)", atom(sub(x.Args[0]))), true
	case "pathJoin":
		if x.Ellipsis.IsValid() {
			if len(x.Args) != 1 {
				t.fail(x, "pathJoin(a, b...)")
			}
			return fmt.Sprintf("(pathJoin %s)", atom(sub(x.Args[0]))), true
		}
		var as []string
		for _, a := range x.Args {
			as = append(as, sub(a))
		}
		return fmt.Sprintf("(pathJoin [%s])", strings.Join(as, ", ")), true
	}
	return "", false
}

func (t *translator) composite(x *ast.CompositeLit, sub func(ast.Expr) string) string {
	if s, ok := t.aggComposite(x, sub); ok {
		return s
	}
	ty := t.typeOf(x)
	if _, ok := ty.Underlying().(*types.Map); ok && t.roots {
		// map[K]V{} / gomodCache{}: a fresh, empty map
		if len(x.Elts) != 0 {
			t.fail(x, "non-empty map literal")
		}
		return "([] : " + t.leanType(x, ty) + ")"
	}
	if a, ok := ty.(*types.Array); ok {
		if len(x.Elts) != 0 {
			t.fail(x, "non-empty array literal")
		}
		return fmt.Sprintf("(List.replicate %d %s)", a.Len(), t.zero(x, a.Elem()))
	}
	sn := structName(ty)
	if sn == "" || sn == "Arg" {
		t.fail(x, "unsupported composite literal %s", ty)
	}
	var fs []string
	for _, el := range x.Elts {
		kv, ok := el.(*ast.KeyValueExpr)
		if !ok {
			t.fail(x, "positional composite literal")
		}
		k := kv.Key.(*ast.Ident).Name
		f := lowerFirst(k)
		if r, ok := trFieldRename[sn+"."+k]; ok {
			f = r
		}
		if r, ok := trGroupFields[sn+"."+k]; ok {
			f = r
		}
		fs = append(fs, fmt.Sprintf("%s := %s", f, sub(kv.Value)))
	}
	return fmt.Sprintf("({ %s } : %s)", strings.Join(fs, ", "), sn)
}

func (t *translator) binop(x *ast.BinaryExpr, a, b string) string {
	if t.fi {
		t.fiBinopGuard(x)
	}
	isStr := false
	if bt, ok := t.typeOf(x.X).Underlying().(*types.Basic); ok && bt.Info()&types.IsString != 0 {
		isStr = true
	}
	switch x.Op {
	case token.LAND:
		return fmt.Sprintf("(%s && %s)", a, b)
	case token.LOR:
		return fmt.Sprintf("(%s || %s)", a, b)
	case token.EQL:
		return fmt.Sprintf("(%s == %s)", a, b)
	case token.NEQ:
		return fmt.Sprintf("(%s != %s)", a, b)
	case token.LSS:
		if isStr {
			return fmt.Sprintf("(strLt %s %s)", a, b)
		}
		return fmt.Sprintf("(decide (%s < %s))", a, b)
	case token.GTR:
		if isStr {
			return fmt.Sprintf("(strLt %s %s)", b, a)
		}
		return fmt.Sprintf("(decide (%s > %s))", a, b)
	case token.ADD:
		if w, ok := t.uiUnsignedOp(x); ok {
			return fmt.Sprintf("((%s + %s) %% %s)", a, b, w)
		}
		if !isStr {
			return fmt.Sprintf("(%s + %s)", a, b)
		}
		return fmt.Sprintf("(%s ++ %s)", a, b)
	case token.SUB:
		if t.roots {
			// Nat subtraction truncates at 0, Go's does not: only a difference that is a slice bound or an
			// index is translated in this group (goSub, see bindRoots)
			t.fail(x, "integer subtraction whose result may be negative (only supported as a slice bound or index)")
		}
		t.uiUnsignedOp(x)
		return fmt.Sprintf("(%s - %s)", a, b)
	case token.MUL:
		t.uiUnsignedOp(x)
		return fmt.Sprintf("(%s * %s)", a, b)
	}
	t.fail(x, "unsupported operator %s", x.Op)
	return ""
}

// bind translates e and passes a pure Lean term for its value to k; the binds
// it needs are emitted around k's result.  The result has type Option _.
func (t *translator) bind(e ast.Expr, k func(string) string) string {
	if s, ok := t.pure(e); ok {
		return k(s)
	}
	if t.web {
		if s, ok := t.webBind(e, k); ok {
			return s
		}
	}
	if t.roots {
		if s, ok := t.bindRoots(e, k); ok {
			return s
		}
	}
	if t.fi {
		if s, ok := t.bindFi(e, k); ok {
			return s
		}
	}
	switch x := e.(type) {
	case *ast.ParenExpr:
		return t.bind(x.X, k)
	case *ast.StarExpr:
		return t.bind(x.X, k)
	case *ast.UnaryExpr:
		switch x.Op {
		case token.AND:
			return t.bind(x.X, k)
		case token.NOT:
			return t.bind(x.X, func(v string) string { return k("(!" + v + ")") })
		}
	case *ast.SelectorExpr:
		if y := t.uiPromoted(x); y != ast.Expr(x) {
			return t.bind(y, k)
		}
		sn := structName(t.typeOf(x.X))
		return t.bind(x.X, func(v string) string { return k(fieldGet(sn, v, x.Sel.Name)) })
	case *ast.IndexExpr:
		if id, ok := x.X.(*ast.Ident); ok && t.submatch[t.p.info.Uses[id]] {
			if tv, ok := t.p.info.Types[x.Index]; !ok || tv.Value == nil || tv.Value.ExactString() == "0" {
				t.fail(x, "the whole match (index 0, or a computed index) of a regular expression is not modelled, only its groups")
			}
		}
		return t.bind(x.X, func(base string) string {
			return t.bind(x.Index, func(idx string) string {
				if n, ok := t.typeOf(x.Index).(*types.Named); ok && n.Obj().Name() == "Location" {
					idx = "(locIdx " + idx + ")"
				}
				v := t.fresh()
				return fmt.Sprintf("(%s[%s]?).bind fun %s =>\n%s%s", base, idx, v, t.ind(), k(v))
			})
		})
	case *ast.SliceExpr:
		if x.Slice3 {
			t.fail(x, "3-index slice")
		}
		return t.bind(x.X, func(base string) string {
			lo := func(k func(string) string) string {
				if x.Low == nil {
					return k("0")
				}
				return t.bind(x.Low, k)
			}
			hi := func(k func(string) string) string {
				if x.High == nil {
					return k("(len " + base + ")")
				}
				return t.bind(x.High, k)
			}
			return lo(func(l string) string {
				return hi(func(h string) string {
					v := t.fresh()
					return fmt.Sprintf("(goSlice %s %s %s).bind fun %s =>\n%s%s", atom(base), atom(l), atom(h), v, t.ind(), k(v))
				})
			})
		})
	case *ast.CallExpr:
		x = t.uiRewriteCall(x)
		// library functions with impure arguments: bind the arguments first
		{
			var vals = map[ast.Expr]string{}
			probe := func(e ast.Expr) string { return "_" }
			if _, ok := t.builtinCall(x, probe); ok {
				var rec func(i int) string
				rec = func(i int) string {
					if i == len(x.Args) {
						s, _ := t.builtinCall(x, func(e ast.Expr) string {
							if v, ok := vals[e]; ok {
								return v
							}
							return t.pureExpr(e)
						})
						return k(s)
					}
					return t.bind(x.Args[i], func(s string) string { vals[x.Args[i]] = s; return rec(i + 1) })
				}
				return rec(0)
			}
		}
		if id, ok := x.Fun.(*ast.Ident); ok && t.funcs[id.Name] {
			var terms []string
			var rec func(i int) string
			rec = func(i int) string {
				if i == len(x.Args) {
					v := t.fresh()
					return fmt.Sprintf("(E.%s %s).bind fun %s =>\n%s%s", id.Name, strings.Join(terms, " "), v, t.ind(), k(v))
				}
				return t.bind(x.Args[i], func(s string) string {
					terms = append(terms, atom(s))
					return rec(i + 1)
				})
			}
			return rec(0)
		}
		if sel, ok := x.Fun.(*ast.SelectorExpr); ok {
			recvT := structName(t.typeOf(sel.X))
			name := recvT + "_" + sel.Sel.Name
			if !t.funcs[name] {
				t.fail(x, "call of %s.%s, which is not translated", recvT, sel.Sel.Name)
			}
			args := append([]ast.Expr{sel.X}, x.Args...)
			var terms []string
			var rec func(i int) string
			rec = func(i int) string {
				if i == len(args) {
					v := t.fresh()
					if t.mutating[name] {
						// the callee assigns through its receiver: it returns (receiver afterwards, result);
						// the receiver expression is written back before anything else happens
						wb := t.assignVal(x, sel.X, nil, v+".1", func() string { return k(v + ".2") })
						return fmt.Sprintf("(E.%s %s).bind fun %s =>\n%s%s", name, strings.Join(terms, " "), v, t.ind(), wb)
					}
					return fmt.Sprintf("(E.%s %s).bind fun %s =>\n%s%s", name, strings.Join(terms, " "), v, t.ind(), k(v))
				}
				return t.bind(args[i], func(s string) string {
					terms = append(terms, atom(s))
					return rec(i + 1)
				})
			}
			return rec(0)
		}
		if id, ok := x.Fun.(*ast.Ident); ok && (id.Name == "len" || id.Name == "int") {
			return t.bind(x.Args[0], func(v string) string {
				if id.Name == "len" {
					return k("(len " + v + ")")
				}
				if b, ok := t.typeOf(x.Args[0]).Underlying().(*types.Basic); ok && b.Kind() == types.Uint8 {
					return k("(" + v + ").toNat")
				}
				return k(v)
			})
		}
	case *ast.BinaryExpr:
		switch x.Op {
		case token.LAND, token.LOR:
			if r, ok := t.pure(x.Y); ok {
				// the right operand has no effect and cannot panic: evaluating it eagerly is the same
				// (and keeps what the left operand writes back in scope)
				return t.bind(x.X, func(l string) string { return k(t.binop(x, l, r)) })
			}
			hasMut := false
			ast.Inspect(x, func(n ast.Node) bool {
				if c, ok := n.(*ast.CallExpr); ok {
					if sel, ok := c.Fun.(*ast.SelectorExpr); ok && t.mutating[structName(t.typeOf(sel.X))+"_"+sel.Sel.Name] {
						hasMut = true
					}
				}
				return true
			})
			if hasMut {
				t.fail(x, "call of a method that assigns through its receiver inside a short-circuit expression whose right operand is not pure")
			}
			// short circuit: the right operand is only evaluated when needed
			v := t.fresh()
			m := t.boolM(x)
			return fmt.Sprintf("(%s).bind fun %s =>\n%s%s", m, v, t.ind(), k(v))
		}
		return t.bind(x.X, func(a string) string {
			return t.bind(x.Y, func(b string) string { return k(t.binop(x, a, b)) })
		})
	case *ast.CompositeLit:
		// bind the impure field values first, in source order
		var vals = map[ast.Expr]string{}
		var elts []ast.Expr
		for _, el := range x.Elts {
			if kv, ok := el.(*ast.KeyValueExpr); ok {
				elts = append(elts, kv.Value)
			}
		}
		var rec func(i int) string
		rec = func(i int) string {
			if i == len(elts) {
				return k(t.composite(x, func(e ast.Expr) string { return vals[e] }))
			}
			return t.bind(elts[i], func(s string) string { vals[elts[i]] = s; return rec(i + 1) })
		}
		return rec(0)
	}
	t.fail(e, "unsupported expression %T", e)
	return ""
}

func atom(s string) string {
	if strings.ContainsAny(s, " ") && !(strings.HasPrefix(s, "(") && strings.HasSuffix(s, ")") && balanced(s[1:len(s)-1])) {
		return "(" + s + ")"
	}
	return s
}

func balanced(s string) bool {
	d := 0
	for _, c := range s {
		switch c {
		case '(':
			d++
		case ')':
			d--
			if d < 0 {
				return false
			}
		}
	}
	return d == 0
}

// boolM translates a boolean expression to a term of type Option Bool with
// Go's short-circuit evaluation.
func (t *translator) boolM(e ast.Expr) string {
	if s, ok := t.pure(e); ok {
		return "some " + atom(s)
	}
	if p, ok := e.(*ast.ParenExpr); ok {
		return t.boolM(p.X)
	}
	if b, ok := e.(*ast.BinaryExpr); ok && (b.Op == token.LAND || b.Op == token.LOR) {
		return t.bind(b.X, func(l string) string {
			r := t.boolM(b.Y)
			if b.Op == token.LAND {
				return fmt.Sprintf("if %s then %s else some false", l, r)
			}
			return fmt.Sprintf("if %s then some true else %s", l, r)
		})
	}
	return t.bind(e, func(v string) string { return "some " + atom(v) })
}

// ---------------------------------------------------------------- statements

// indexCall recognises strings/bytes.Index, IndexByte, LastIndexByte: the searches whose result
// (-1 when absent) the translation represents as an Option.
func (t *translator) indexCall(e ast.Expr) (string, *ast.CallExpr, bool) {
	if t.fi {
		// group Func: the result of a search is an Int like any other (-1 when absent), not an Option
		return "", nil, false
	}
	call, ok := e.(*ast.CallExpr)
	if !ok || len(call.Args) != 2 {
		return "", nil, false
	}
	sel, ok := call.Fun.(*ast.SelectorExpr)
	if !ok {
		return "", nil, false
	}
	pk, ok := sel.X.(*ast.Ident)
	if !ok {
		return "", nil, false
	}
	pn, ok := t.p.info.Uses[pk].(*types.PkgName)
	if !ok || (pn.Imported().Path() != "strings" && pn.Imported().Path() != "bytes") {
		return "", nil, false
	}
	switch sel.Sel.Name {
	case "LastIndexByte":
		return "Bytes.lastIndexByte", call, true
	case "IndexByte":
		return "Bytes.indexByte", call, true
	case "Index":
		// Bytes.indexOf models a search for a non-empty separator
		if tv, ok := t.p.info.Types[call.Args[1]]; !ok || tv.Value == nil || tv.Value.Kind() != constant.String || constant.StringVal(tv.Value) == "" {
			t.fail(e, "Index with a separator that is not a non-empty constant")
		}
		return "Bytes.indexOf", call, true
	}
	return "", nil, false
}

func (t *translator) isMinus1(e ast.Expr) bool {
	tv, ok := t.p.info.Types[e]
	return ok && tv.Value != nil && tv.Value.ExactString() == "-1"
}

// usesObj: does any identifier in the statements denote obj?
func usesObjIn(info *types.Info, list []ast.Stmt, obj types.Object) bool {
	found := false
	for _, s := range list {
		ast.Inspect(s, func(n ast.Node) bool {
			if id, ok := n.(*ast.Ident); ok && obj != nil && info.Uses[id] == obj {
				found = true
			}
			return !found
		})
	}
	return found
}

func terminates(list []ast.Stmt) bool {
	if len(list) == 0 {
		return false
	}
	switch s := list[len(list)-1].(type) {
	case *ast.ReturnStmt:
		return true
	case *ast.BranchStmt:
		// continue / break leave the statement list too (translated in group Roots only; everywhere else a
		// BranchStmt fails the translation; a break inside a switch is refused there as well)
		return s.Label == nil && (s.Tok == token.CONTINUE || s.Tok == token.BREAK)
	case *ast.BlockStmt:
		return terminates(s.List)
	case *ast.IfStmt:
		if s.Else == nil {
			return false
		}
		var el []ast.Stmt
		switch e := s.Else.(type) {
		case *ast.BlockStmt:
			el = e.List
		case *ast.IfStmt:
			el = []ast.Stmt{e}
		}
		return terminates(s.Body.List) && terminates(el)
	case *ast.SwitchStmt:
		hasDefault := false
		for _, c := range s.Body.List {
			cc := c.(*ast.CaseClause)
			if cc.List == nil {
				hasDefault = true
			}
			if !terminates(cc.Body) {
				return false
			}
		}
		return hasDefault
	}
	return false
}

func hasReturn(n ast.Node) bool {
	found := false
	ast.Inspect(n, func(m ast.Node) bool {
		if _, ok := m.(*ast.ReturnStmt); ok {
			found = true
		}
		return !found
	})
	return found
}

// assigned returns the in-scope locals (declared outside n) that n assigns to.
func (t *translator) assigned(n ast.Node, outer []trLocal) []trLocal {
	if t.roots || t.fi {
		return t.assignedObj(n, outer)
	}
	set := map[string]bool{}
	root := func(e ast.Expr) string {
		for {
			switch x := e.(type) {
			case *ast.Ident:
				return x.Name
			case *ast.SelectorExpr:
				e = x.X
			case *ast.IndexExpr:
				e = x.X
			case *ast.StarExpr:
				e = x.X
			case *ast.ParenExpr:
				e = x.X
			default:
				return ""
			}
		}
	}
	declared := map[string]bool{}
	ast.Inspect(n, func(m ast.Node) bool {
		switch s := m.(type) {
		case *ast.AssignStmt:
			for _, l := range s.Lhs {
				if s.Tok == token.DEFINE {
					if id, ok := l.(*ast.Ident); ok {
						declared[id.Name] = true
					}
					continue
				}
				set[root(l)] = true
			}
		case *ast.IncDecStmt:
			set[root(s.X)] = true
		case *ast.CallExpr:
			if sel, ok := s.Fun.(*ast.SelectorExpr); ok {
				if t.mutating[structName(t.typeOf(sel.X))+"_"+sel.Sel.Name] {
					set[root(sel.X)] = true
				}
			}
		case *ast.RangeStmt:
			if s.Tok == token.DEFINE {
				if id, ok := s.Key.(*ast.Ident); ok {
					declared[id.Name] = true
				}
				if id, ok := s.Value.(*ast.Ident); ok {
					declared[id.Name] = true
				}
			}
		}
		return true
	})
	var res []trLocal
	seen := map[string]bool{}
	for _, l := range outer {
		raw := strings.Trim(l.name, "«»")
		if set[raw] && !declared[raw] && !seen[l.name] {
			seen[l.name] = true
			res = append(res, l)
		}
	}
	return res
}

func tuple(vs []trLocal) string {
	switch len(vs) {
	case 0:
		return "()"
	case 1:
		return vs[0].name
	}
	var n []string
	for _, v := range vs {
		n = append(n, v.name)
	}
	return "(" + strings.Join(n, ", ") + ")"
}

func tupleType(vs []trLocal) string {
	switch len(vs) {
	case 0:
		return "Unit"
	case 1:
		return vs[0].typ
	}
	var n []string
	for _, v := range vs {
		n = append(n, v.typ)
	}
	return "(" + strings.Join(n, " × ") + ")"
}

// unpack emits `let v1 := st.1; let v2 := st.2.1 …` for a right-nested tuple
func unpack(vs []trLocal, st string, ind string) string {
	var sb strings.Builder
	switch len(vs) {
	case 0:
	case 1:
		fmt.Fprintf(&sb, "%slet %s := %s\n", ind, vs[0].name, st)
	default:
		path := st
		for i, v := range vs {
			if i == len(vs)-1 {
				fmt.Fprintf(&sb, "%slet %s := %s\n", ind, v.name, path)
			} else {
				fmt.Fprintf(&sb, "%slet %s := %s.1\n", ind, v.name, path)
				path += ".2"
			}
		}
	}
	return sb.String()
}

// end is what falling off the end of the current statement list means.
type trEnd func() string

func (t *translator) wrapRet(v string) string {
	if t.roots || t.fi {
		return t.jumpRet(v)
	}
	if t.recvMut != "" {
		v = "(" + t.recvMut + ", " + v + ")"
	}
	if t.inLoop {
		return "some (.ret " + atom(v) + ")"
	}
	return "some " + atom(v)
}

func (t *translator) declare(name, typ string, obj types.Object) {
	for i := range t.scope {
		if t.scope[i].name == name {
			t.scope[i].typ = typ
			t.scope[i].obj = obj
			return
		}
	}
	t.scope = append(t.scope, trLocal{name, typ, obj})
}

// checkBinding: the Lean binding an identifier resolves to (the innermost one of that name) must
// stand for the Go variable the identifier denotes.  Blocks are flattened by the translation, so a
// variable declared in an inner block that shadows an outer one would otherwise capture later uses
// of the outer one.
func (t *translator) checkBinding(id *ast.Ident) {
	v, ok := t.p.info.Uses[id].(*types.Var)
	if !ok || v.IsField() {
		return
	}
	name := lid(id.Name)
	for i := len(t.scope) - 1; i >= 0; i-- {
		if t.scope[i].name == name {
			if t.scope[i].obj != nil && t.scope[i].obj != v {
				t.fail(id, "%s refers to a variable that an inner declaration of the same name shadows in the flattened translation", id.Name)
			}
			return
		}
	}
}

func (t *translator) stmts(list []ast.Stmt, end trEnd) string {
	if len(list) == 0 {
		return end()
	}
	s, rest := list[0], list[1:]
	cont := func() string { return t.stmts(rest, end) }
	if t.web {
		if r, ok := t.webStmt(s, rest, end); ok {
			return r
		}
	}
	switch x := s.(type) {
	case *ast.BlockStmt:
		return t.stmts(append(append([]ast.Stmt{}, x.List...), rest...), end)
	case *ast.ExprStmt:
		if s, ok := t.aggExprStmt(x, rest, end); ok {
			return s
		}
		if t.fi {
			if s, ok := t.fiExprStmt(x, cont); ok {
				return s
			}
		}
		// log.Printf(…): what the library writes to the process-wide logger is outside the model
		if c, ok := x.X.(*ast.CallExpr); ok {
			if sel, ok := c.Fun.(*ast.SelectorExpr); ok {
				if pk, ok := sel.X.(*ast.Ident); ok {
					if pn, isPkg := t.p.info.Uses[pk].(*types.PkgName); isPkg && pn.Imported().Path() == "log" && sel.Sel.Name == "Printf" {
						for _, a := range c.Args {
							if _, ok := t.pure(a); !ok {
								t.fail(x, "log.Printf with an argument that can panic or has an effect")
							}
						}
						return cont()
					}
				}
			}
		}
		t.fail(x, "expression statement")
	case *ast.BranchStmt:
		if t.roots || t.fi {
			return t.branchRoots(x)
		}
		t.fail(x, "unsupported statement %T", s)
	case *ast.ReturnStmt:
		if len(x.Results) == 0 {
			if t.void {
				return t.wrapRet("()")
			}
			t.fail(x, "return without result")
		}
		var vals []string
		var rec func(i int) string
		rec = func(i int) string {
			if i == len(x.Results) {
				if len(vals) == 1 {
					return t.wrapRet(vals[0])
				}
				return t.wrapRet("(" + strings.Join(vals, ", ") + ")")
			}
			return t.bind(x.Results[i], func(v string) string { vals = append(vals, v); return rec(i + 1) })
		}
		return rec(0)
	case *ast.DeclStmt:
		if gd, ok := x.Decl.(*ast.GenDecl); ok && gd.Tok == token.CONST {
			return cont() // uses of a constant are folded by the type checker's constant values
		}
		if s, ok := t.uiVarDecl(x, cont); ok {
			return s
		}
		if s, ok := t.aggDeclStmt(x, cont); ok {
			return s
		}
		if s, ok := t.fiVarDecl(x, cont); ok {
			return s
		}
		t.fail(x, "declaration statement")
	case *ast.IncDecStmt:
		op := token.ADD
		if x.Tok == token.DEC {
			op = token.SUB
		}
		one := &ast.BasicLit{Kind: token.INT, Value: "1"}
		t.p.info.Types[one] = types.TypeAndValue{Type: types.Typ[types.Int], Value: constant.MakeInt64(1)}
		rhs := &ast.BinaryExpr{X: x.X, Op: op, Y: one}
		t.p.info.Types[rhs] = types.TypeAndValue{Type: t.typeOf(x.X)}
		return t.assign(x, x.X, rhs, cont)
	case *ast.AssignStmt:
		if s, ok := t.aggAssign(x, rest, end); ok {
			return s
		}
		if t.roots {
			if s, ok := t.assignRoots(x, rest, end); ok {
				return s
			}
		}
		if t.fi {
			if s, ok := t.assignFi(x, cont); ok {
				return s
			}
		}
		if len(x.Lhs) > 1 && len(x.Rhs) == 1 && (x.Tok == token.DEFINE || x.Tok == token.ASSIGN) {
			// a, b := f(…)  /  a, _ = f(…): the components of the tuple the call yields
			if _, isCall := x.Rhs[0].(*ast.CallExpr); !isCall {
				t.fail(x, "multiple assignment from something other than a call")
			}
			tup, ok := t.typeOf(x.Rhs[0]).(*types.Tuple)
			if !ok || tup.Len() != len(x.Lhs) {
				t.fail(x, "multiple assignment: arity")
			}
			return t.bind(x.Rhs[0], func(v string) string {
				var sb strings.Builder
				for i, l := range x.Lhs {
					id, ok := l.(*ast.Ident)
					if !ok {
						t.fail(x, "multiple assignment to something other than variables")
					}
					if id.Name == "_" {
						continue
					}
					comp := v + strings.Repeat(".2", i)
					if i < len(x.Lhs)-1 {
						comp += ".1"
					}
					typ := t.leanType(x, tup.At(i).Type())
					if x.Tok == token.DEFINE && t.p.info.Defs[id] != nil {
						t.declare(lid(id.Name), typ, t.p.info.Defs[id])
					} else {
						t.checkBinding(id)
						found := false
						for _, l := range t.scope {
							if l.name == lid(id.Name) {
								found = true
							}
						}
						if !found {
							t.fail(x, "assignment to %s, which is not a local variable of the function", id.Name)
						}
					}
					fmt.Fprintf(&sb, "let %s : %s := %s\n%s", lid(id.Name), typ, comp, t.ind())
				}
				return sb.String() + cont()
			})
		}
		if len(x.Lhs) != 1 || len(x.Rhs) != 1 {
			t.fail(x, "multiple assignment")
		}
		if x.Tok == token.DEFINE {
			id, ok := x.Lhs[0].(*ast.Ident)
			if !ok {
				t.fail(x, "define of non-identifier")
			}
			if leanFn, call, ok := t.indexCall(x.Rhs[0]); ok {
				// i := strings.IndexByte(s, c); if i == -1 { return … }; rest
				var guard *ast.IfStmt
				if len(rest) > 0 {
					guard, _ = rest[0].(*ast.IfStmt)
				}
				if guard == nil || guard.Init != nil || guard.Else != nil || !terminates(guard.Body.List) {
					t.fail(x, "the result of a search must be tested right away: if i == -1 { return … }")
				}
				cond, okc := guard.Cond.(*ast.BinaryExpr)
				if ci, ok := cond.X.(*ast.Ident); !okc || !ok || ci.Name != id.Name || cond.Op != token.EQL || !t.isMinus1(cond.Y) {
					t.fail(x, "the result of a search must be tested right away: if i == -1 { return … }")
				}
				obj := t.p.info.Defs[id]
				if usesObjIn(t.p.info, guard.Body.List, obj) {
					t.fail(x, "index variable read where the search failed")
				}
				return t.bind(call.Args[0], func(str string) string {
					return t.bind(call.Args[1], func(ch string) string {
						saveScope := append([]trLocal{}, t.scope...)
						t.depth++
						a := t.stmts(guard.Body.List, func() string { t.fail(x, "unreachable"); return "" })
						t.scope = append([]trLocal{}, saveScope...)
						t.declare(lid(id.Name), "Nat", obj)
						b := t.stmts(rest[1:], end)
						t.depth--
						t.scope = saveScope
						return fmt.Sprintf("match %s %s %s with\n%s| none =>\n%s  %s\n%s| some %s =>\n%s  %s", leanFn, atom(str), atom(ch), t.ind(), t.ind(), a, t.ind(), lid(id.Name), t.ind(), b)
					})
				})
			}
			typ := t.leanType(x, t.typeOf(x.Rhs[0]))
			return t.bind(x.Rhs[0], func(v string) string {
				t.declare(lid(id.Name), typ, t.p.info.Defs[id])
				return fmt.Sprintf("let %s : %s := %s\n%s%s", lid(id.Name), typ, v, t.ind(), cont())
			})
		}
		if op, ok := map[token.Token]token.Token{token.ADD_ASSIGN: token.ADD, token.SUB_ASSIGN: token.SUB, token.MUL_ASSIGN: token.MUL}[x.Tok]; ok {
			rhs := &ast.BinaryExpr{X: x.Lhs[0], Op: op, Y: x.Rhs[0]}
			t.p.info.Types[rhs] = types.TypeAndValue{Type: t.typeOf(x.Lhs[0])}
			return t.assign(x, x.Lhs[0], rhs, cont)
		}
		if x.Tok != token.ASSIGN {
			t.fail(x, "assignment operator %s", x.Tok)
		}
		return t.assign(x, x.Lhs[0], x.Rhs[0], cont)
	case *ast.IfStmt:
		if as, ok := x.Init.(*ast.AssignStmt); ok && (as.Tok == token.DEFINE || as.Tok == token.ASSIGN) && len(as.Lhs) == 1 && len(as.Rhs) == 1 {
			// if i := strings.LastIndexByte(s, c); i != -1 { A } else { B }: the index is an Option here
			if leanFn, call, ok := t.indexCall(as.Rhs[0]); ok {
				iv, isId := as.Lhs[0].(*ast.Ident)
				if !isId {
					t.fail(x, "index stored in something other than a variable")
				}
				ivObj := t.p.info.ObjectOf(iv)
				if as.Tok == token.ASSIGN {
					// i = …: the variable keeps the new value after the statement, which the scoped binding below
					// does not model - nothing later may read it
					if usesObjIn(t.p.info, rest, ivObj) {
						t.fail(x, "index variable %s is read after the if statement that assigns it", iv.Name)
					}
				}
				cond, okc := x.Cond.(*ast.BinaryExpr)
				if ci, ok := cond.X.(*ast.Ident); !okc || !ok || ci.Name != iv.Name || cond.Op != token.NEQ || !t.isMinus1(cond.Y) {
					t.fail(x, "index of a search used other than in `i != -1`")
				}
				if hasReturn(x.Body) || (x.Else != nil && hasReturn(x.Else)) {
					t.fail(x, "return inside a branch on the result of a search")
				}
				var el []ast.Stmt
				if eb, ok := x.Else.(*ast.BlockStmt); ok {
					el = eb.List
				} else if x.Else != nil {
					t.fail(x, "else-if after a search")
				}
				if usesObjIn(t.p.info, el, ivObj) {
					t.fail(x, "index variable read where the search failed")
				}
				vs := t.assigned(&ast.BlockStmt{List: append(append([]ast.Stmt{}, x.Body.List...), el...)}, append(append([]trLocal{}, t.params...), t.scope...))
				for i := range vs {
					if vs[i].obj == ivObj && ivObj != nil {
						t.fail(x, "index variable assigned inside the branches")
					}
				}
				return t.bind(call.Args[0], func(str string) string {
					return t.bind(call.Args[1], func(ch string) string {
						saveLoop := t.inLoop
						t.inLoop = false
						saveRecv := t.recvMut
						t.recvMut = ""
						saveScope := append([]trLocal{}, t.scope...)
						t.depth++
						t.declare(lid(iv.Name), "Nat", ivObj)
						a := t.stmts(x.Body.List, func() string { return "some " + atom(tuple(vs)) })
						t.scope = append([]trLocal{}, saveScope...)
						b := t.stmts(el, func() string { return "some " + atom(tuple(vs)) })
						t.depth--
						t.scope = saveScope
						t.inLoop, t.recvMut = saveLoop, saveRecv
						pat := tuple(vs)
						if len(vs) == 0 {
							pat = "_"
						}
						if leanFn != "Bytes.lastIndexByte" {
							// Option.elim rather than `match`: a term lemmas can be stated about
							return fmt.Sprintf("((%s %s %s).elim\n%s  (%s)\n%s  (fun %s =>\n%s  %s)).bind fun %s =>\n%s%s", leanFn, atom(str), atom(ch), t.ind(), b, t.ind(), lid(iv.Name), t.ind(), a, pat, t.ind(), cont())
						}
						return fmt.Sprintf("(match %s %s %s with\n%s| some %s =>\n%s  %s\n%s| none =>\n%s  %s).bind fun %s =>\n%s%s", leanFn, atom(str), atom(ch), t.ind(), lid(iv.Name), t.ind(), a, t.ind(), t.ind(), b, pat, t.ind(), cont())
					})
				})
			}
		}
		if x.Init != nil {
			// if init; cond { … }  ==  { init; if cond { … } }  (the scope of init ends with the if;
			// nothing after it can refer to what it declares)
			y := *x
			y.Init = nil
			return t.stmts(append([]ast.Stmt{x.Init, &y}, rest...), end)
		}
		if t.roots || t.fi {
			if s, ok := t.ifRoots(x, rest, end); ok {
				return s
			}
		}
		var el []ast.Stmt
		switch e := x.Else.(type) {
		case *ast.BlockStmt:
			el = e.List
		case *ast.IfStmt:
			el = []ast.Stmt{e}
		}
		thenT := terminates(x.Body.List)
		elseT := x.Else != nil && terminates(el)
		if thenT && (x.Else == nil || elseT) {
			return t.bind(x.Cond, func(c string) string {
				saveScope := append([]trLocal{}, t.scope...)
				t.depth++
				a := t.stmts(x.Body.List, func() string { t.fail(x, "unreachable"); return "" })
				t.depth--
				t.scope = append([]trLocal{}, saveScope...)
				var b string
				if x.Else == nil {
					b = cont()
				} else {
					t.depth++
					b = t.stmts(el, func() string { t.fail(x, "unreachable"); return "" })
					t.depth--
					t.scope = saveScope
					if len(rest) != 0 {
						t.fail(x, "statements after a terminating if/else")
					}
				}
				return fmt.Sprintf("if %s then\n%s  %s\n%selse\n%s%s", c, t.ind(), a, t.ind(), t.ind(), b)
			})
		}
		if hasReturn(x.Body) || (x.Else != nil && hasReturn(x.Else)) || uiHasLoop(x.Body) || (x.Else != nil && uiHasLoop(x.Else)) {
			// returns on some paths only: each branch is followed by the rest of the block
			// (the rest is translated once per branch); the same for a branch that contains a loop
			// (what follows a loop must have the type of the function's result: see `after`)
			return t.bind(x.Cond, func(c string) string {
				saveScope := append([]trLocal{}, t.scope...)
				t.depth++
				a := t.stmts(append(append([]ast.Stmt{}, x.Body.List...), rest...), end)
				t.scope = append([]trLocal{}, saveScope...)
				b := t.stmts(append(append([]ast.Stmt{}, el...), rest...), end)
				t.depth--
				t.scope = saveScope
				return fmt.Sprintf("if %s then\n%s  %s\n%selse\n%s  %s", c, t.ind(), a, t.ind(), t.ind(), b)
			})
		}
		// assignment-only branches: thread the assigned locals through
		vs := t.assigned(x, append(append([]trLocal{}, t.params...), t.scope...))
		if c, ok := t.pure(x.Cond); ok {
			// try the pure form: let vs := if c then … else …
			saveT, saveScope := t.tmp, append([]trLocal{}, t.scope...)
			pureOK := true
			var a, b string
			func() {
				defer func() {
					if r := recover(); r != nil {
						if _, is := r.(trImpure); is {
							pureOK = false
							return
						}
						panic(r)
					}
				}()
				a = t.pureStmts(x.Body.List, tuple(vs))
				b = tuple(vs)
				if x.Else != nil {
					b = t.pureStmts(el, tuple(vs))
				}
			}()
			t.scope = saveScope
			if pureOK {
				return fmt.Sprintf("let %s : %s := if %s then %s else %s\n%s%s", tuple(vs), tupleType(vs), c, a, b, t.ind(), cont())
			}
			t.tmp = saveT
		}
		return t.bind(x.Cond, func(c string) string {
			saveLoop := t.inLoop
			t.inLoop = false // inside the branches `end` yields the tuple
			t.depth++
			a := t.stmts(x.Body.List, func() string { return "some " + atom(tuple(vs)) })
			b := "some " + atom(tuple(vs))
			if x.Else != nil {
				b = t.stmts(el, func() string { return "some " + atom(tuple(vs)) })
			}
			t.depth--
			t.inLoop = saveLoop
			pat := tuple(vs)
			if len(vs) == 0 {
				pat = "_"
			}
			return fmt.Sprintf("(if %s then\n%s  %s\n%selse\n%s  %s).bind fun %s =>\n%s%s", c, t.ind(), a, t.ind(), t.ind(), b, pat, t.ind(), cont())
		})
	case *ast.SwitchStmt:
		if t.roots {
			t.switchRootsGuard(x)
		}
		x = t.uiNoFallthrough(x)
		if x.Init != nil || x.Tag == nil || !terminates([]ast.Stmt{x}) {
			// switch init; tag { case a, b: A … default: D }  ==  { init; if tag == a || tag == b { A } else … else { D } }
			// (no clause may break or fall through; the tag is an expression without effect, evaluated once in Go
			// and once per comparison here)
			if x.Tag != nil {
				if _, ok := t.pure(x.Tag); !ok {
					if x.Init == nil {
						t.fail(x, "impure switch tag")
					}
				}
			}
			bad := false
			ast.Inspect(x.Body, func(n ast.Node) bool {
				if b, ok := n.(*ast.BranchStmt); ok && (b.Tok == token.BREAK || b.Tok == token.FALLTHROUGH) {
					bad = true
				}
				return true
			})
			if bad {
				t.fail(x, "break or fallthrough inside a switch")
			}
			boolT := types.TypeAndValue{Type: types.Typ[types.Bool]}
			var chain ast.Stmt
			var def *ast.CaseClause
			var clauses []*ast.CaseClause
			for _, c := range x.Body.List {
				cc := c.(*ast.CaseClause)
				if cc.List == nil {
					def = cc
				} else {
					clauses = append(clauses, cc)
				}
			}
			if def != nil {
				chain = &ast.BlockStmt{List: def.Body}
			}
			for i := len(clauses) - 1; i >= 0; i-- {
				cc := clauses[i]
				var cond ast.Expr
				for _, v := range cc.List {
					var c ast.Expr = v
					if x.Tag != nil {
						c = &ast.BinaryExpr{X: x.Tag, Op: token.EQL, Y: v, OpPos: v.Pos()}
						t.p.info.Types[c] = boolT
					}
					if cond == nil {
						cond = c
					} else {
						cond = &ast.BinaryExpr{X: cond, Op: token.LOR, Y: c, OpPos: v.Pos()}
						t.p.info.Types[cond] = boolT
					}
				}
				chain = &ast.IfStmt{If: cc.Pos(), Cond: cond, Body: &ast.BlockStmt{Lbrace: cc.Pos(), List: cc.Body}, Else: chain}
			}
			var list []ast.Stmt
			if x.Init != nil {
				list = append(list, x.Init)
			}
			if chain != nil {
				list = append(list, chain)
			}
			return t.stmts(append(list, rest...), end)
		}
		tag, ok := t.pure(x.Tag)
		if !ok {
			t.fail(x, "impure switch tag")
		}
		if len(rest) != 0 {
			t.fail(x, "statements after a terminating switch")
		}
		var sb strings.Builder
		var def *ast.CaseClause
		for _, c := range x.Body.List {
			cc := c.(*ast.CaseClause)
			if cc.List == nil {
				def = cc
				continue
			}
			var cs []string
			for _, v := range cc.List {
				p, ok := t.pure(v)
				if !ok {
					t.fail(v, "impure case expression")
				}
				cs = append(cs, fmt.Sprintf("%s == %s", tag, p))
			}
			t.depth++
			body := t.stmts(cc.Body, func() string { t.fail(cc, "unreachable"); return "" })
			t.depth--
			fmt.Fprintf(&sb, "if %s then\n%s  %s\n%selse ", strings.Join(cs, " || "), t.ind(), body, t.ind())
		}
		t.depth++
		body := t.stmts(def.Body, func() string { t.fail(def, "unreachable"); return "" })
		t.depth--
		fmt.Fprintf(&sb, "\n%s  %s", t.ind(), body)
		return sb.String()
	case *ast.RangeStmt:
		if s, ok := t.aggRangeStmt(x, cont); ok {
			return s
		}
		if t.roots {
			if x.Tok != token.DEFINE {
				t.fail(x, "range that assigns to existing variables")
			}
			return t.loopRoots(x, x.X, x.Key, x.Value, x.Body, nil, cont)
		}
		return t.loop(x, x.X, x.Key, x.Value, x.Body, nil, cont)
	case *ast.ForStmt:
		if t.roots {
			return t.forRoots(x, cont)
		}
		if t.fi {
			return t.fiFor(x, cont)
		}
		// for i := a; i < b; i++ { … }
		as, ok1 := x.Init.(*ast.AssignStmt)
		cond, ok2 := x.Cond.(*ast.BinaryExpr)
		post, ok3 := x.Post.(*ast.IncDecStmt)
		if !ok1 || !ok2 || !ok3 || as.Tok != token.DEFINE || len(as.Lhs) != 1 || cond.Op != token.LSS || post.Tok != token.INC {
			t.fail(x, "unsupported for statement")
		}
		iv := as.Lhs[0].(*ast.Ident)
		if ci, ok := cond.X.(*ast.Ident); !ok || ci.Name != iv.Name {
			t.fail(x, "loop condition does not test the loop variable")
		}
		if pi, ok := post.X.(*ast.Ident); !ok || pi.Name != iv.Name {
			t.fail(x, "loop post statement does not increment the loop variable")
		}
		if len(t.assigned(x.Body, []trLocal{{iv.Name, "Nat", nil}})) != 0 {
			t.fail(x, "loop variable assigned in the body")
		}
		lo, okL := t.pure(as.Rhs[0])
		hi, okH := t.pure(cond.Y)
		if !okL || !okH {
			t.fail(x, "impure loop bounds")
		}
		rng := fmt.Sprintf("(List.range' %s (%s - %s))", lo, hi, lo)
		return t.loop(x, nil, nil, iv, x.Body, &rng, cont)
	}
	t.fail(s, "unsupported statement %T", s)
	return ""
}

// pureStmts: a list of assignments to locals with pure right-hand sides, as a
// let-chain ending in `result`.
func (t *translator) pureStmts(list []ast.Stmt, result string) string {
	var sb strings.Builder
	for _, s := range list {
		switch x := s.(type) {
		case *ast.AssignStmt:
			id, ok := x.Lhs[0].(*ast.Ident)
			if !ok || len(x.Lhs) != 1 || x.Tok != token.ASSIGN {
				panic(trImpure{})
			}
			fmt.Fprintf(&sb, "(let %s := %s; ", lid(id.Name), t.pureExpr(x.Rhs[0]))
		case *ast.IncDecStmt:
			id, ok := x.X.(*ast.Ident)
			if !ok {
				panic(trImpure{})
			}
			op := "+"
			if x.Tok == token.DEC {
				op = "-"
			}
			fmt.Fprintf(&sb, "(let %s := %s %s 1; ", lid(id.Name), lid(id.Name), op)
		default:
			panic(trImpure{})
		}
	}
	return sb.String() + result + strings.Repeat(")", len(list))
}

// assign: lhs = rhs where lhs is a local or a field/index path rooted in one.
func (t *translator) assign(n ast.Node, lhs, rhs ast.Expr, cont func() string) string {
	return t.assignVal(n, lhs, rhs, "", cont)
}

// assignVal: lhs = rhs, or lhs = the Lean term val when rhs is nil.
func (t *translator) assignVal(n ast.Node, lhs, rhs ast.Expr, val string, cont func() string) string {
	if t.roots {
		if s, ok := t.assignMapRoots(n, lhs, rhs, val, cont); ok {
			return s
		}
	}
	type step struct {
		field string // field name, or "" for an index
		sn    string // struct name of the container (field steps)
		index ast.Expr
	}
	var path []step
	e := lhs
	for {
		switch x := e.(type) {
		case *ast.ParenExpr:
			e = x.X
			continue
		case *ast.StarExpr:
			e = x.X
			continue
		case *ast.SelectorExpr:
			if y := t.uiPromoted(x); y != ast.Expr(x) {
				e = y
				continue
			}
			path = append([]step{{field: x.Sel.Name, sn: structName(t.typeOf(x.X))}}, path...)
			e = x.X
			continue
		case *ast.IndexExpr:
			path = append([]step{{index: x.Index}}, path...)
			e = x.X
			continue
		}
		break
	}
	root, ok := e.(*ast.Ident)
	if !ok {
		t.fail(n, "assignment to an unsupported left-hand side")
	}
	isLocal := false
	rootName := lid(root.Name)
	for _, l := range t.scope {
		if l.name == rootName {
			isLocal = true
		}
	}
	if !isLocal {
		t.fail(n, "assignment through %s, which is not a local variable of the function", root.Name)
	}
	withVal := func(k func(string) string) string {
		if rhs == nil {
			return k(val)
		}
		return t.bind(rhs, k)
	}
	return withVal(func(v string) string {
		var upd func(cur string, path []step, k func(string) string) string
		upd = func(cur string, path []step, k func(string) string) string {
			if len(path) == 0 {
				return k(v)
			}
			st := path[0]
			if st.index == nil {
				return upd(fieldGet(st.sn, cur, st.field), path[1:], func(nv string) string {
					return k(fieldSet(st.sn, cur, st.field, nv))
				})
			}
			return t.bind(st.index, func(idx string) string {
				if nt, ok := t.typeOf(st.index).(*types.Named); ok && nt.Obj().Name() == "Location" {
					idx = "(locIdx " + idx + ")"
				}
				old := t.fresh()
				inner := upd(old, path[1:], func(nv string) string {
					return k(fmt.Sprintf("(%s.set %s %s)", cur, idx, atom(nv)))
				})
				return fmt.Sprintf("(%s[%s]?).bind fun %s =>\n%s%s", cur, idx, old, t.ind(), inner)
			})
		}
		return upd(rootName, path, func(nv string) string {
			return fmt.Sprintf("let %s := %s\n%s%s", rootName, nv, t.ind(), cont())
		})
	})
}

// loop emits the body as a separate definition and the loop site as
// `after (forRange body xs 0 st) fun st => rest`.
func (t *translator) loop(n ast.Node, rangeX ast.Expr, key, val ast.Expr, body *ast.BlockStmt, listTerm *string, cont func() string) string {
	nested := t.inLoop
	if nested && !trGroupNested {
		t.fail(n, "nested loop")
	}
	outer := append([]trLocal{}, t.scope...)
	vs := t.assigned(body, outer)
	t.nloop++
	name := fmt.Sprintf("%s_loop%d", t.fn, t.nloop)
	keyName, valName := "_i", "_x"
	var keyObj, valObj types.Object
	if id, ok := key.(*ast.Ident); ok && id.Name != "_" {
		keyName = lid(id.Name)
		keyObj = t.p.info.ObjectOf(id)
	}
	if id, ok := val.(*ast.Ident); ok && id.Name != "_" {
		valName = lid(id.Name)
		valObj = t.p.info.ObjectOf(id)
	}
	emit := func(xs string, elemType string) string {
		// captured: params and the locals that are not loop-carried
		var caps []trLocal
		isState := map[string]bool{}
		for _, v := range vs {
			isState[v.name] = true
		}
		caps = append(caps, t.params...)
		for _, l := range outer {
			if !isState[l.name] {
				caps = append(caps, l)
			}
		}
		var bind, args []string
		seen := map[string]bool{}
		for i := len(caps) - 1; i >= 0; i-- { // drop shadowed duplicates (keep the innermost)
			if seen[caps[i].name] {
				caps = append(caps[:i], caps[i+1:]...)
				continue
			}
			seen[caps[i].name] = true
		}
		for _, c := range caps {
			bind = append(bind, fmt.Sprintf("(%s : %s)", c.name, c.typ))
			args = append(args, c.name)
		}
		saveScope, saveDepth, saveSt := t.scope, t.depth, t.stVars
		t.inLoop, t.stVars, t.depth = true, vs, 0
		t.scope = append(append([]trLocal{}, outer...), trLocal{keyName, "Nat", keyObj}, trLocal{valName, elemType, valObj})
		b := t.stmts(body.List, func() string { return "some (.cont " + atom(tuple(vs)) + ")" })
		t.inLoop, t.stVars, t.depth, t.scope = nested, saveSt, saveDepth, saveScope
		def := fmt.Sprintf("def %s (E : Env) %s (%s : Nat) (%s : %s) (st : %s) : Option (Step %s %s) :=\n%s  %s\n",
			name, strings.Join(bind, " "), keyName, valName, elemType, tupleType(vs), tupleType(vs), t.ret,
			unpack(vs, "st", "  "), b)
		t.defs = append(t.defs, def)
		pat := tuple(vs)
		if len(vs) == 0 {
			pat = "_"
		}
		rest := cont()
		var un string
		if len(vs) > 1 {
			pat = "st"
			un = strings.ReplaceAll(unpack(vs, "st", t.ind()), "\n", "\n")
		}
		if nested {
			// a loop inside a loop body: what follows it yields a Step of the enclosing loop (PreludeUi.afterIn)
			return fmt.Sprintf("afterIn (forRange (%s E %s) %s 0 %s) fun %s =>\n%s%s%s", name, strings.Join(args, " "), xs, tuple(vs), pat, un, t.indIf(un == ""), rest)
		}
		return fmt.Sprintf("after (forRange (%s E %s) %s 0 %s) fun %s =>\n%s%s%s", name, strings.Join(args, " "), xs, tuple(vs), pat, un, t.indIf(un == ""), rest)
	}
	if listTerm != nil {
		return emit(*listTerm, "Nat")
	}
	var elem types.Type
	switch c := t.typeOf(rangeX).Underlying().(type) {
	case *types.Slice:
		elem = c.Elem()
	case *types.Array:
		elem = c.Elem()
	case *types.Map:
		// for k := range m: the model's association list, keys in list order.  Sound only where the
		// result does not depend on the order (an existence test): the tie theorem is stated for every list.
		if val != nil {
			t.fail(n, "range over a map with a value variable")
		}
		kt := t.leanType(n, c.Key())
		valName, valObj = keyName, keyObj
		keyName, keyObj = "_i", nil
		return t.bind(rangeX, func(xs string) string { return emit(fmt.Sprintf("(%s.map Prod.fst)", xs), kt) })
	default:
		_ = elem
		t.fail(n, "range over %s", t.typeOf(rangeX))
	}
	et := t.leanType(n, elem)
	return t.bind(rangeX, func(xs string) string { return emit(xs, et) })
}

func (t *translator) indIf(b bool) string {
	if b {
		return t.ind()
	}
	return t.ind()
}

// ---------------------------------------------------------------- driver

func (p *pkgInfo) translate() string {
	return p.translateGroup("PP.Tr", "stack/stack.go, stack/bucket.go", trFuncs, true, nil, nil)
}

func (p *pkgInfo) translateScan() string {
	return p.translateGroup("PP.TrS", "stack/context.go, stack/stack.go", trFuncsScan, false, nil, []string{"isFile : Bytes → Bool"})
}

func (p *pkgInfo) translateHtml() string {
	return p.translateGroup("PP.TrH", "stack/html.go", trFuncsHtml, false, []string{"PP.Go.PreludeHtml"}, []string{"runtimeVersion : Bytes"})
}

func (p *pkgInfo) translateRoots() string {
	return p.translateGroup("PP.TrR", "stack/context.go", trFuncsRoots, false, []string{"PP.Go.PreludeRoots"},
		[]string{"isFile : Bytes → Bool", "readFile : Bytes → Option Bytes"})
}

// translateAgg (group Agg, (*Snapshot).Aggregate) is in translate_agg.go

func (p *pkgInfo) translateFunc() string {
	return p.translateGroup("PP.TrF", "stack/stack.go, stack/context.go", trFuncsFunc, false, []string{"PP.Go.PreludeFunc"}, fiOracles)
}

func (p *pkgInfo) translateGroup(ns, from string, trFuncs [][2]string, withClosure bool, imports, oracles []string) string {
	funcs := map[string]bool{}
	for _, f := range trFuncs {
		funcs[trName(f[0], f[1])] = true
	}
	aggExternFuncs(ns, funcs)
	// which methods assign through their pointer receiver, directly or by calling one that does on a
	// path rooted in the receiver (fixpoint)
	mutating := map[string]bool{}
	for changed := true; changed; {
		changed = false
		for _, f := range trFuncs {
			name := trName(f[0], f[1])
			fd := p.uiPkgOf(name).funcDecl(f[0], f[1])
			if mutating[name] || fd == nil || fd.Recv == nil || len(fd.Recv.List) != 1 || len(fd.Recv.List[0].Names) != 1 {
				continue
			}
			if _, isPtr := fd.Recv.List[0].Type.(*ast.StarExpr); !isPtr {
				continue
			}
			rn := fd.Recv.List[0].Names[0].Name
			rootIs := func(l ast.Expr) bool {
				for {
					switch y := l.(type) {
					case *ast.SelectorExpr:
						l = y.X
						continue
					case *ast.IndexExpr:
						l = y.X
						continue
					case *ast.StarExpr:
						l = y.X
						continue
					case *ast.ParenExpr:
						l = y.X
						continue
					}
					break
				}
				id, ok := l.(*ast.Ident)
				return ok && id.Name == rn
			}
			writes := false
			ast.Inspect(fd.Body, func(n ast.Node) bool {
				switch x := n.(type) {
				case *ast.AssignStmt:
					if x.Tok != token.DEFINE {
						for _, l := range x.Lhs {
							if _, plain := l.(*ast.Ident); !plain && rootIs(l) {
								writes = true
							}
						}
					}
				case *ast.IncDecStmt:
					if _, plain := x.X.(*ast.Ident); !plain && rootIs(x.X) {
						writes = true
					}
				case *ast.CallExpr:
					if sel, ok := x.Fun.(*ast.SelectorExpr); ok && rootIs(sel.X) {
						if tv, ok := p.uiPkgOf(name).info.Types[sel.X]; ok && mutating[structName(tv.Type)+"_"+sel.Sel.Name] {
							writes = true
						}
					}
				}
				return true
			})
			if writes {
				mutating[name] = true
				changed = true
			}
		}
	}
	if ns == "PP.TrF" {
		p.fiGroupSetup(trFuncs, funcs, mutating)
	}
	var sb strings.Builder
	fmt.Fprintf(&sb, "/- GENERATED by /verif/extract (translate.go) from %s — do not edit. -/\nimport PP.Go.Prelude\nimport PP.Model.Aggregate\nimport PP.Model.Roots\n%sset_option linter.unusedVariables false\nnamespace %s\nopen PP PP.Go%s\n\n", from, func() string {
		r := ""
		for _, i := range imports {
			r += "import " + i + "\n"
		}
		return r
	}(), ns, func() string {
		for _, i := range imports {
			if i == "PP.Go.PreludeHtml" {
				return " PP.Html"
			}
		}
		return ""
	}())
	type sig struct{ name, typ string }
	var sigs []sig
	var bodies []string
	var failed []string
	for _, f := range trFuncs {
		p := p.uiPkgOf(trName(f[0], f[1])) // the package the function comes from (a group may span two)
		fd := p.funcDecl(f[0], f[1])
		name := trName(f[0], f[1])
		if fd == nil {
			failed = append(failed, fmt.Sprintf("%s.%s: function not found", f[0], f[1]))
			continue
		}
		t := &translator{p: p, fn: name, funcs: funcs, mutating: mutating}
		t.roots = ns == "PP.TrR"
		t.aggInit(ns, fd)
		t.webInit(ns)
		t.fi = ns == "PP.TrF"
		func() {
			defer func() {
				if r := recover(); r != nil {
					if tf, ok := r.(trFail); ok {
						failed = append(failed, fmt.Sprintf("%s.%s: %s", f[0], f[1], tf.msg))
						return
					}
					if _, ok := r.(trImpure); ok {
						failed = append(failed, fmt.Sprintf("%s.%s: internal: impure expression escaped", f[0], f[1]))
						return
					}
					panic(r)
				}
			}()
			var ptypes []string
			add := func(fl *ast.FieldList) {
				if fl == nil {
					return
				}
				for _, fld := range fl.List {
					ty := t.leanType(fld, t.typeOf(fld.Type))
					for _, n := range fld.Names {
						t.params = append(t.params, trLocal{lid(n.Name), ty, p.info.Defs[n]})
						ptypes = append(ptypes, ty)
					}
				}
			}
			if t.web {
				t.params, ptypes = append(t.params, t.webWorldParam()), append(ptypes, "World")
			}
			add(fd.Recv)
			add(fd.Type.Params)
			if t.web {
				t.webSetup(fd)
			}
			if t.roots {
				t.rootsPrepass(fd)
			}
			if t.fi {
				t.fiPrepass(fd)
			}
			if fd.Type.Results == nil || len(fd.Type.Results.List) == 0 {
				if !mutating[name] && !t.web {
					t.fail(fd, "function without result that does not assign through its receiver")
				}
				t.void = true
				fd.Type.Results = &ast.FieldList{}
			}
			var rts []string
			if t.void {
				rts = []string{"Unit"}
			}
			for _, rf := range fd.Type.Results.List {
				n := len(rf.Names)
				if n == 0 {
					n = 1
				}
				for ; n > 0; n-- {
					rts = append(rts, t.leanType(fd, t.typeOf(rf.Type)))
				}
			}
			t.ret = rts[0]
			if len(rts) > 1 {
				t.ret = "(" + strings.Join(rts, " × ") + ")"
			}
			// a pointer receiver the body assigns through becomes a threaded local, returned with the result
			if mutating[name] {
				rn := fiMutName(fd)
				t.recvMut = lid(rn)
				t.scope = append(t.scope, trLocal{lid(rn), t.params[0].typ, t.params[0].obj})
				t.ret = "(" + t.params[0].typ + " × " + t.ret + ")"
			}
			if t.web {
				t.webRet()
			}
			t.body = fd.Body
			t.submatch = map[types.Object]bool{}
			ast.Inspect(fd.Body, func(n ast.Node) bool {
				if as, ok := n.(*ast.AssignStmt); ok && len(as.Lhs) == 1 && len(as.Rhs) == 1 {
					if c, ok := as.Rhs[0].(*ast.CallExpr); ok {
						if sel, ok := c.Fun.(*ast.SelectorExpr); ok && strings.HasPrefix(sel.Sel.Name, "Find") {
							if id, ok := as.Lhs[0].(*ast.Ident); ok {
								t.submatch[p.info.ObjectOf(id)] = true
							}
						}
					}
				}
				return true
			})
			body := t.stmts(fd.Body.List, func() string {
				if t.void {
					return t.wrapRet("()")
				}
				t.fail(fd, "function can fall off its end")
				return ""
			})
			body = t.aggBodyPrefix(body)
			var bind []string
			for _, pr := range t.params {
				bind = append(bind, fmt.Sprintf("(%s : %s)", pr.name, pr.typ))
			}
			pos := p.fset.Position(fd.Pos())
			var out strings.Builder
			for _, d := range t.defs {
				out.WriteString(d + "\n")
			}
			fmt.Fprintf(&out, "/-- %s.%s (%s:%d) -/\ndef %s (E : Env) %s : Option %s :=\n  %s\n", f[0], f[1], pos.Filename[strings.LastIndex(pos.Filename, "/")+1:], pos.Line, name, strings.Join(bind, " "), t.ret, body)
			sigs = append(sigs, sig{name, strings.Join(append(ptypes, "Option "+t.ret), " → ")})
			bodies = append(bodies, out.String())
		}()
	}
	// the comparison closure Aggregate passes to sort.SliceStable
	func() {
		if !withClosure {
			return
		}
		name := "Aggregate_sortLess"
		fd := p.funcDecl("Snapshot", "Aggregate")
		if fd == nil {
			failed = append(failed, "Snapshot.Aggregate: function not found")
			return
		}
		var lit *ast.FuncLit
		nsort := 0
		ast.Inspect(fd, func(n ast.Node) bool {
			if c, ok := n.(*ast.CallExpr); ok {
				if sel, ok := c.Fun.(*ast.SelectorExpr); ok {
					if pk, ok := sel.X.(*ast.Ident); ok && pk.Name == "sort" && sel.Sel.Name != "Ints" {
						nsort++
						if sel.Sel.Name == "SliceStable" && len(c.Args) == 2 {
							lit, _ = c.Args[1].(*ast.FuncLit)
						}
					}
				}
			}
			return true
		})
		t := &translator{p: p, fn: name, funcs: funcs, ret: "Bool", mutating: mutating}
		defer func() {
			if r := recover(); r != nil {
				if tf, ok := r.(trFail); ok {
					failed = append(failed, "Aggregate sort closure: "+tf.msg)
					return
				}
				panic(r)
			}
		}()
		if lit == nil || nsort != 1 {
			t.fail(fd, "expected exactly one sort of the buckets, sort.SliceStable with a function literal (found %d sort calls)", nsort)
		}
		// the closure must start with  l := bs[i]; r := bs[j]  for its parameters (i, j)
		if len(lit.Type.Params.List) != 1 || len(lit.Type.Params.List[0].Names) != 2 || len(lit.Body.List) < 3 {
			t.fail(lit, "unexpected shape of the sort closure")
		}
		pi, pj := lit.Type.Params.List[0].Names[0].Name, lit.Type.Params.List[0].Names[1].Name
		var names []string
		for k, idx := range []string{pi, pj} {
			as, ok := lit.Body.List[k].(*ast.AssignStmt)
			if !ok || as.Tok != token.DEFINE || len(as.Lhs) != 1 || len(as.Rhs) != 1 {
				t.fail(lit, "the sort closure does not start with l := bs[i]; r := bs[j]")
			}
			ix, ok := as.Rhs[0].(*ast.IndexExpr)
			if !ok {
				t.fail(as, "the sort closure does not start with l := bs[i]; r := bs[j]")
			}
			if id, ok := ix.Index.(*ast.Ident); !ok || id.Name != idx {
				t.fail(as, "the sort closure does not start with l := bs[i]; r := bs[j]")
			}
			names = append(names, as.Lhs[0].(*ast.Ident).Name)
			t.params = append(t.params, trLocal{names[k], "Bkt", nil})
		}
		body := t.stmts(lit.Body.List[2:], func() string { t.fail(lit, "closure can fall off its end"); return "" })
		pos := p.fset.Position(lit.Pos())
		var out strings.Builder
		for _, d := range t.defs {
			out.WriteString(d + "\n")
		}
		fmt.Fprintf(&out, "/-- the comparison closure of Snapshot.Aggregate (bucket.go:%d), on (bs[i], bs[j]) -/\ndef %s (E : Env) (%s : Bkt) (%s : Bkt) : Option Bool :=\n  %s\n", pos.Line, name, names[0], names[1], body)
		bodies = append(bodies, out.String())
	}()
	if ns == "PP.TrR" {
		failed = append(failed, p.rootsCallersGuard(trFuncs, mutating)...)
	}
	if len(failed) != 0 {
		sort.Strings(failed)
		// a declaration that cannot be checked, naming what was not translated
		fmt.Fprintf(&sb, "/-- The translator could not handle the current source. -/\ntheorem translation_failed : %s = \"\" := rfl\n", leanStr(strings.Join(failed, "; ")))
		fmt.Fprintf(&sb, "\nend %s\n", ns)
		return sb.String()
	}
	sb.WriteString("/-- the translated functions, as callees, and the oracles of the environment -/\nstructure Env where\n")
	for _, o := range oracles {
		sb.WriteString("  " + o + "\n")
	}
	for _, s := range sigs {
		fmt.Fprintf(&sb, "  %s : %s\n", s.name, s.typ)
	}
	sb.WriteString("\n")
	for _, b := range bodies {
		sb.WriteString(b + "\n")
	}
	fmt.Fprintf(&sb, "end %s\n", ns)
	return sb.String()
}

// ---------------------------------------------------------------- group Roots
//
// Everything below is used by the fourth group only (t.roots; translateRoots): the root finding of
// context.go, (*gomodCache).isGoModule and (*Snapshot).findRoots.  The other groups never reach it, so
// their output does not depend on it.  Run-time support: lean/PP/Go/PreludeRoots.lean.
//
// What is added, and what each construct assumes:
//
//   - `continue` and `break` (unlabelled, targeting a `for`; a `break` inside a `switch` is refused): the loop
//     body yields `.cont st` / `.brk st` with the loop-carried state as it is at that point.  A loop whose body
//     has a `break` of its own runs under `forRangeB` over the three-way `StepB`.
//   - nested loops: an inner loop is its own definition, its result type is the result type of the context it
//     occurs in.  In general a term translated inside k enclosing frames has type
//     `Option (Step σk (… (Step σ1 ρ)))`; a `return v` is `.ret (… (.ret v))`, a `continue` is
//     `.ret (… (.cont st))` with one `.ret` per join block between the statement and its loop.
//   - join blocks: `if c { A } [else { B }]; rest` where A or B contains a jump but not both branches leave is
//     `after (if c then A' else B') fun vs => rest`: falling off a branch is `.cont vs` (the locals the
//     statement assigns), a jump out of it is `.ret j`.  (The other groups translate `rest` once per branch.)
//   - counted loops that count down: `for i := a; i > b; i--` runs over `(List.range' (b+1) (a-b)).reverse`;
//     `a`, `b` pure, `b` not assigned in the body, `i` not assigned in the body.
//   - `int` values are natural numbers BY CONSTRUCTION in this group: subtraction, `--`, negative constants
//     and int parameters are refused, with one exception: a difference `a - b` that is directly a slice
//     bound or an index is `goSub a b` (`none` when b > a), because Go panics on a negative bound.
//   - maps that are written: `m[k] = v` on a map[string]string is `AMap.insert`, on a map[K]struct{} (a set,
//     the list of its keys) `SSet.insert`; `_, ok := m[k]` is `SSet.contains` / `AMap.contains`; `map[K]V{}`
//     and `T{}` of a map type are the empty list.  Go maps are references: a map value may only come from
//     such a literal (copying one, `m2 := m`, is refused), so no two variables share a map; a method with a
//     pointer receiver of map type that writes it returns the map like any other mutating method.
//     An assignment into a nil map panics in Go and the list cannot tell nil from empty: `m[k] = v` is only
//     translated where m (a variable or a field path) is assigned a map literal in the straight-line
//     statements the function starts with and nothing later replaces the variable it is rooted in, or
//     where m is `*recv` for a pointer receiver of map type; then every call of that method must be inside
//     the group and on such a variable (mapNilGuard, rootsCallersGuard).
//   - `b, err := os.ReadFile(p); if err != nil { … leaves … }` is a `match E.readFile p` (`none` = any error);
//     neither branch may read `err`, the error branch may not read `b`.
//   - `if runtime.GOOS == "windows" { … }` (exactly this comparison, no else) is dropped: the condition is the
//     constant false on the platform the extractor runs on (checked); any other use of a constant of package
//     runtime is refused.
//   - a range expression is evaluated once; the body may not write through the same field of the same
//     variable (aliasing of the backing array).  Ranging over a map is refused.

type trFrame struct {
	loop  bool      // a loop body (otherwise a join block)
	brk   bool      // the loop has a break of its own: the body yields StepB
	vs    []trLocal // the loop-carried state / the locals the block assigns
	resTy string    // terms translated inside the frame have type Option resTy
}

// curRes: terms at the current position have type Option (curRes)
func (t *translator) curRes() string {
	if len(t.frames) == 0 {
		return t.ret
	}
	return t.frames[len(t.frames)-1].resTy
}

func unparen(e ast.Expr) ast.Expr {
	for {
		p, ok := e.(*ast.ParenExpr)
		if !ok {
			return e
		}
		e = p.X
	}
}

func copyScope(s []trLocal) []trLocal { return append([]trLocal{}, s...) }

// jumpRet: `return v` from inside the current frames
func (t *translator) jumpRet(v string) string {
	if t.recvMut != "" {
		v = "(" + t.recvMut + ", " + v + ")"
	}
	if len(t.frames) == 0 {
		return "some " + atom(v)
	}
	term := "(.ret " + atom(v) + ")"
	for i := 1; i < len(t.frames); i++ {
		term = "(.ret " + term + ")"
	}
	return "some " + term
}

// checkVs: the names of the state tuple must still denote the variables of the state (an inner
// declaration of the same name would capture them in the flattened translation)
func (t *translator) checkVs(n ast.Node, vs []trLocal) {
	for _, v := range vs {
		for i := len(t.scope) - 1; i >= 0; i-- {
			if t.scope[i].name == v.name {
				if v.obj != nil && t.scope[i].obj != v.obj {
					t.fail(n, "%s is shadowed by an inner declaration where the enclosing loop or block is left", v.name)
				}
				break
			}
		}
	}
}

// jumpLoop: continue / break of the innermost enclosing loop
func (t *translator) jumpLoop(n ast.Node, brk bool) string {
	l := -1
	for i := len(t.frames) - 1; i >= 0; i-- {
		if t.frames[i].loop {
			l = i
			break
		}
	}
	if l < 0 {
		t.fail(n, "continue / break outside a loop")
	}
	if !t.inLoop {
		// inside a branch the other groups' code translates as a value (assignment-only if, branch on a search)
		t.fail(n, "continue / break inside a branch that is translated as a value")
	}
	f := t.frames[l]
	if brk && !f.brk {
		t.fail(n, "internal: break in a loop that was not recognised as having one")
	}
	t.checkVs(n, f.vs)
	c := ".cont"
	if brk {
		c = ".brk"
	}
	term := "(" + c + " " + atom(tuple(f.vs)) + ")"
	for i := l + 1; i < len(t.frames); i++ {
		term = "(.ret " + term + ")"
	}
	return "some " + term
}

func (t *translator) branchRoots(x *ast.BranchStmt) string {
	if x.Label != nil {
		t.fail(x, "labelled %s", x.Tok)
	}
	switch x.Tok {
	case token.CONTINUE:
		return t.jumpLoop(x, false)
	case token.BREAK:
		return t.jumpLoop(x, true)
	}
	t.fail(x, "unsupported statement %s", x.Tok)
	return ""
}

// walkOwn visits the statements of n that belong to the same loop level as n: it does not enter nested
// loops (whose continue / break are their own) nor function literals; nested reports them.
func walkOwn(n ast.Node, visit func(ast.Node), nested func(ast.Node)) {
	ast.Inspect(n, func(m ast.Node) bool {
		if m == nil {
			return false
		}
		if m != n {
			switch m.(type) {
			case *ast.ForStmt, *ast.RangeStmt:
				if nested != nil {
					nested(m)
				}
				return false
			case *ast.FuncLit:
				return false
			}
		}
		visit(m)
		return true
	})
}

// hasJump: does n contain a statement that leaves n other than by falling off its end (a return anywhere,
// a continue / break / goto that is not captured by a loop inside n)?
func hasJump(n ast.Node) bool {
	found := false
	var inner func(m ast.Node)
	inner = func(m ast.Node) {
		// inside a nested loop: only returns (and anything labelled, conservatively) leave n
		ast.Inspect(m, func(k ast.Node) bool {
			switch s := k.(type) {
			case *ast.ReturnStmt:
				found = true
			case *ast.BranchStmt:
				if s.Label != nil || s.Tok == token.GOTO {
					found = true
				}
			case *ast.FuncLit:
				return false
			}
			return !found
		})
	}
	walkOwn(n, func(m ast.Node) {
		switch m.(type) {
		case *ast.ReturnStmt, *ast.BranchStmt:
			found = true
		}
	}, inner)
	return found
}

// breaksLoop: does the loop body contain an unlabelled break of this loop?
func breaksLoop(body *ast.BlockStmt) bool {
	found := false
	walkOwn(body, func(m ast.Node) {
		if b, ok := m.(*ast.BranchStmt); ok && b.Tok == token.BREAK && b.Label == nil {
			found = true
		}
	}, nil)
	return found
}

// a break inside a switch leaves the switch, not the loop: refused
func (t *translator) switchRootsGuard(x *ast.SwitchStmt) {
	walkOwn(x.Body, func(m ast.Node) {
		if b, ok := m.(*ast.BranchStmt); ok && (b.Tok == token.BREAK || b.Tok == token.FALLTHROUGH) {
			t.fail(b, "break or fallthrough inside a switch")
		}
	}, nil)
}

// rootObj: the variable an assignable expression is rooted in
func (t *translator) rootObj(e ast.Expr) types.Object {
	for {
		switch x := e.(type) {
		case *ast.Ident:
			return t.p.info.ObjectOf(x)
		case *ast.SelectorExpr:
			e = x.X
		case *ast.IndexExpr:
			e = x.X
		case *ast.SliceExpr:
			e = x.X
		case *ast.StarExpr:
			e = x.X
		case *ast.ParenExpr:
			e = x.X
		default:
			return nil
		}
	}
}

// assignedSet: the variables (declared anywhere) that n assigns to or through, by identity
func (t *translator) assignedSet(n ast.Node) map[types.Object]bool {
	set := map[types.Object]bool{}
	add := func(e ast.Expr) {
		if o := t.rootObj(e); o != nil {
			set[o] = true
		}
	}
	ast.Inspect(n, func(m ast.Node) bool {
		switch s := m.(type) {
		case *ast.AssignStmt:
			for _, l := range s.Lhs {
				if id, ok := l.(*ast.Ident); ok && s.Tok == token.DEFINE && t.p.info.Defs[id] != nil {
					continue // a new variable
				}
				add(l)
			}
		case *ast.IncDecStmt:
			add(s.X)
		case *ast.CallExpr:
			if sel, ok := s.Fun.(*ast.SelectorExpr); ok {
				if tv, ok := t.p.info.Types[sel.X]; ok && t.mutating[structName(tv.Type)+"_"+sel.Sel.Name] {
					add(sel.X)
				}
			}
		case *ast.RangeStmt:
			if s.Tok == token.ASSIGN {
				if s.Key != nil {
					add(s.Key)
				}
				if s.Value != nil {
					add(s.Value)
				}
			}
		}
		return true
	})
	t.aggAssignedExtra(n, set)
	if t.web {
		t.webAssigned(n, set)
	}
	return set
}

// assignedObj: the bindings of outer that n assigns (the object-based version of assigned)
func (t *translator) assignedObj(n ast.Node, outer []trLocal) []trLocal {
	set := t.assignedSet(n)
	var res []trLocal
	seen := map[string]bool{}
	for _, l := range outer {
		if l.obj != nil && set[l.obj] && !seen[l.name] {
			seen[l.name] = true
			res = append(res, l)
		}
	}
	return res
}

func (t *translator) isPkgSel(e ast.Expr, pkgPath, name string) bool {
	sel, ok := e.(*ast.SelectorExpr)
	if !ok || sel.Sel.Name != name {
		return false
	}
	id, ok := sel.X.(*ast.Ident)
	if !ok {
		return false
	}
	pn, ok := t.p.info.Uses[id].(*types.PkgName)
	return ok && pn.Imported().Path() == pkgPath
}

// rootsConstGuard: constants the type checker folded must not depend on the platform, and must be
// natural numbers when they are integers
func (t *translator) rootsConstGuard(e ast.Expr) {
	tv, ok := t.p.info.Types[e]
	if !ok || tv.Value == nil {
		return
	}
	ast.Inspect(e, func(n ast.Node) bool {
		if sel, ok := n.(*ast.SelectorExpr); ok {
			if id, ok := sel.X.(*ast.Ident); ok {
				if pn, ok := t.p.info.Uses[id].(*types.PkgName); ok && pn.Imported().Path() == "runtime" {
					t.fail(e, "runtime.%s: a constant that depends on the platform", sel.Sel.Name)
				}
			}
		}
		return true
	})
	if tv.Value.Kind() == constant.Int && constant.Sign(tv.Value) < 0 {
		t.fail(e, "negative integer constant")
	}
}

// isGOOSWindows: the condition is literally runtime.GOOS == "windows" (and false where the extractor runs)
func (t *translator) isGOOSWindows(cond ast.Expr) bool {
	b, ok := unparen(cond).(*ast.BinaryExpr)
	if !ok || b.Op != token.EQL || !t.isPkgSel(b.X, "runtime", "GOOS") {
		return false
	}
	lit, ok := b.Y.(*ast.BasicLit)
	if !ok || lit.Kind != token.STRING || lit.Value != `"windows"` {
		return false
	}
	tv, ok := t.p.info.Types[cond]
	if !ok || tv.Value == nil || tv.Value.Kind() != constant.Bool || constant.BoolVal(tv.Value) {
		t.fail(cond, "runtime.GOOS == \"windows\" is not the constant false for the platform the extractor was run for")
	}
	return true
}

// rootsBuiltin: the functions of the environment of group Roots that are hand-written model functions
func (t *translator) rootsBuiltin(x *ast.CallExpr, name string, sub func(ast.Expr) string) (string, bool) {
	if !t.roots || t.funcs[name] {
		return "", false
	}
	if id, ok := x.Fun.(*ast.Ident); ok {
		// must be the package-level function of that name
		f, isFn := t.p.info.Uses[id].(*types.Func)
		if !isFn || f.Parent() != t.p.pkg.Scope() {
			return "", false
		}
	}
	arity := map[string]int{"getFiles": 1, "splitPath": 1, "isRootedIn": 2, "hasPrefix": 2, "hasSrcPrefix": 2, "path.Dir": 1,
		"regexp:reModule.FindSubmatch": 1}
	if len(x.Args) != arity[name] || x.Ellipsis.IsValid() {
		t.fail(x, "%s: unexpected arguments", name)
	}
	a := func(i int) string { return atom(sub(x.Args[i])) }
	switch name {
	case "getFiles":
		// context.go getFiles: the model's getFiles (sorted, distinct RemoteSrcPaths)
		return fmt.Sprintf("(PP.getFiles %s)", a(0)), true
	case "splitPath":
		return fmt.Sprintf("(PP.splitPath %s)", a(0)), true
	case "isRootedIn":
		// translated and tied in group Scan (TrS.tie_isRootedIn); here the model function, on the same oracles
		return fmt.Sprintf("(PP.isRootedIn (PP.FS.mk E.isFile E.readFile) %s %s)", a(0), a(1)), true
	case "hasPrefix":
		// TrS.tie_hasPrefix
		return fmt.Sprintf("(PP.mapHasPrefix %s %s)", a(0), a(1)), true
	case "hasSrcPrefix":
		// TrS.tie_hasSrcPrefix
		return fmt.Sprintf("(PP.hasSrcPrefix %s %s)", a(0), a(1)), true
	case "path.Dir":
		return fmt.Sprintf("(PP.pathDir %s)", a(0)), true
	case "regexp:reModule.FindSubmatch":
		// nil when there is no match, otherwise [whole match (placeholder, never read), group 1]
		return fmt.Sprintf("(reModuleSubmatch %s)", a(0)), true
	}
	return "", false
}

func isSubExpr(info *types.Info, e ast.Expr) (*ast.BinaryExpr, bool) {
	if e == nil {
		return nil, false
	}
	b, ok := unparen(e).(*ast.BinaryExpr)
	if !ok || b.Op != token.SUB {
		return nil, false
	}
	if tv, ok := info.Types[e]; ok && tv.Value != nil {
		return nil, false // a constant: folded
	}
	if bt, ok := info.Types[b.X].Type.Underlying().(*types.Basic); !ok || bt.Info()&types.IsInteger == 0 {
		return nil, false
	}
	return b, true
}

// bindBound: a slice bound or an index.  A difference a - b is goSub a b: `none` (a panic) when it is
// negative, which is what Go does with a negative bound or index at run time.
func (t *translator) bindBound(e ast.Expr, k func(string) string) string {
	b, ok := isSubExpr(t.p.info, e)
	if !ok {
		return t.bind(e, k)
	}
	return t.bind(b.X, func(x string) string {
		return t.bind(b.Y, func(y string) string {
			v := t.fresh()
			return fmt.Sprintf("(goSub %s %s).bind fun %s =>\n%s%s", atom(x), atom(y), v, t.ind(), k(v))
		})
	})
}

// bindRoots: slice expressions and indexings one of whose bounds is a difference
func (t *translator) bindRoots(e ast.Expr, k func(string) string) (string, bool) {
	switch x := e.(type) {
	case *ast.SliceExpr:
		_, ls := isSubExpr(t.p.info, x.Low)
		_, hs := isSubExpr(t.p.info, x.High)
		if x.Slice3 || (!ls && !hs) {
			return "", false
		}
		return t.bind(x.X, func(base string) string {
			lo := func(k func(string) string) string {
				if x.Low == nil {
					return k("0")
				}
				return t.bindBound(x.Low, k)
			}
			hi := func(k func(string) string) string {
				if x.High == nil {
					return k("(len " + base + ")")
				}
				return t.bindBound(x.High, k)
			}
			return lo(func(l string) string {
				return hi(func(h string) string {
					v := t.fresh()
					return fmt.Sprintf("(goSlice %s %s %s).bind fun %s =>\n%s%s", atom(base), atom(l), atom(h), v, t.ind(), k(v))
				})
			})
		}), true
	case *ast.IndexExpr:
		if _, isMap := t.typeOf(x.X).Underlying().(*types.Map); isMap {
			return "", false
		}
		if _, is := isSubExpr(t.p.info, x.Index); !is {
			return "", false
		}
		return t.bind(x.X, func(base string) string {
			return t.bindBound(x.Index, func(idx string) string {
				v := t.fresh()
				return fmt.Sprintf("(%s[%s]?).bind fun %s =>\n%s%s", base, idx, v, t.ind(), k(v))
			})
		}), true
	}
	return "", false
}

func isEmptyStruct(ty types.Type) bool {
	st, ok := ty.Underlying().(*types.Struct)
	return ok && st.NumFields() == 0
}

func isStringType(ty types.Type) bool {
	b, ok := ty.Underlying().(*types.Basic)
	return ok && b.Info()&types.IsString != 0
}

func (t *translator) hasMutCall(e ast.Node) bool {
	found := false
	ast.Inspect(e, func(n ast.Node) bool {
		if c, ok := n.(*ast.CallExpr); ok {
			if sel, ok := c.Fun.(*ast.SelectorExpr); ok {
				if tv, ok := t.p.info.Types[sel.X]; ok && t.mutating[structName(tv.Type)+"_"+sel.Sel.Name] {
					found = true
				}
			}
		}
		return true
	})
	return found
}

// assignMapRoots: m[k] = v on a map (a path rooted in a local): the map is replaced by the updated one
func (t *translator) assignMapRoots(n ast.Node, lhs, rhs ast.Expr, val string, cont func() string) (string, bool) {
	ix, ok := unparen(lhs).(*ast.IndexExpr)
	if !ok {
		return "", false
	}
	m, ok := t.typeOf(ix.X).Underlying().(*types.Map)
	if !ok {
		return "", false
	}
	base, okb := t.pure(ix.X)
	if !okb {
		t.fail(n, "assignment into a map that is not a plain path")
	}
	if mp, ok := mapPath(ix.X); !ok || !t.mapInit[mp] {
		// the model's list cannot tell a nil map from an empty one, and Go panics on an assignment into a nil map
		t.fail(n, "assignment into a map that may be nil (it is not assigned a map literal at the start of the function)")
	}
	if t.hasMutCall(ix.Index) {
		// Go evaluates the map operand before the key; here the map is read after the key's write-back
		t.fail(n, "m[k] = v where k calls a method that assigns through its receiver")
	}
	if isEmptyStruct(m.Elem()) {
		// m[k] = struct{}{}
		cl, isLit := rhs.(*ast.CompositeLit)
		if rhs == nil || !isLit || len(cl.Elts) != 0 {
			t.fail(n, "a set element assigned something other than struct{}{}")
		}
		return t.bind(ix.Index, func(idx string) string {
			return t.assignVal(n, ix.X, nil, fmt.Sprintf("(SSet.insert %s %s)", atom(base), atom(idx)), cont)
		}), true
	}
	if !isStringType(m.Key()) || !isStringType(m.Elem()) {
		t.fail(n, "assignment into a map of type %s", m)
	}
	_, pureIdx := t.pure(ix.Index)
	pureRhs := rhs == nil
	if rhs != nil {
		_, pureRhs = t.pure(rhs)
	}
	if !pureIdx && !pureRhs {
		t.fail(n, "m[k] = v where both k and v can panic or have an effect")
	}
	if rhs != nil && t.hasMutCall(rhs) {
		t.fail(n, "m[k] = v where v calls a method that assigns through its receiver")
	}
	return t.bind(ix.Index, func(idx string) string {
		withVal := func(k func(string) string) string {
			if rhs == nil {
				return k(val)
			}
			return t.bind(rhs, k)
		}
		return withVal(func(v string) string {
			return t.assignVal(n, ix.X, nil, fmt.Sprintf("(AMap.insert %s %s %s)", atom(base), atom(idx), atom(v)), cont)
		})
	}), true
}

// assignRoots: the assignment forms of group Roots (comma-ok map lookups, os.ReadFile) and the guard
// against copies of maps
func (t *translator) assignRoots(x *ast.AssignStmt, rest []ast.Stmt, end trEnd) (string, bool) {
	// Go maps are references: a map value may only be a fresh literal
	isMap := func(ty types.Type) bool { _, ok := ty.Underlying().(*types.Map); return ok }
	for _, r := range x.Rhs {
		ty := t.typeOf(r)
		if tup, ok := ty.(*types.Tuple); ok {
			for i := 0; i < tup.Len(); i++ {
				if isMap(tup.At(i).Type()) {
					t.fail(x, "a map returned by a call (maps are references)")
				}
			}
			continue
		}
		if isMap(ty) {
			if _, lit := unparen(r).(*ast.CompositeLit); !lit {
				t.fail(x, "copy of a map value (maps are references; only a map literal may be assigned)")
			}
		}
	}
	if len(x.Lhs) != 2 || len(x.Rhs) != 1 {
		return "", false
	}
	ids := [2]*ast.Ident{}
	for i, l := range x.Lhs {
		id, ok := l.(*ast.Ident)
		if !ok {
			return "", false
		}
		ids[i] = id
	}
	newVar := func(id *ast.Ident) bool { return id.Name == "_" || t.p.info.Defs[id] != nil }
	// v, ok := m[k]
	if ix, ok := unparen(x.Rhs[0]).(*ast.IndexExpr); ok {
		m, ok := t.typeOf(ix.X).Underlying().(*types.Map)
		if !ok {
			return "", false
		}
		if x.Tok != token.DEFINE || !newVar(ids[0]) || !newVar(ids[1]) {
			t.fail(x, "v, ok = m[k] into existing variables")
		}
		base, okb := t.pure(ix.X)
		if !okb {
			t.fail(x, "lookup in a map that is not a plain path")
		}
		set := isEmptyStruct(m.Elem())
		if !set && (!isStringType(m.Key()) || !isStringType(m.Elem())) {
			t.fail(x, "lookup in a map of type %s", m)
		}
		return t.bind(ix.Index, func(idx string) string {
			var sb strings.Builder
			if ids[0].Name != "_" {
				if set {
					t.fail(x, "the value of a set lookup")
				}
				t.declare(lid(ids[0].Name), "Bytes", t.p.info.Defs[ids[0]])
				fmt.Fprintf(&sb, "let %s : Bytes := (AMap.get %s %s)\n%s", lid(ids[0].Name), atom(base), atom(idx), t.ind())
			}
			if ids[1].Name != "_" {
				fn := "AMap.contains"
				if set {
					fn = "SSet.contains"
				}
				t.declare(lid(ids[1].Name), "Bool", t.p.info.Defs[ids[1]])
				fmt.Fprintf(&sb, "let %s : Bool := (%s %s %s)\n%s", lid(ids[1].Name), fn, atom(base), atom(idx), t.ind())
			}
			return sb.String() + t.stmts(rest, end)
		}), true
	}
	// b, err := os.ReadFile(p); if err != nil { … leaves … }; rest
	if call, ok := x.Rhs[0].(*ast.CallExpr); ok && t.isPkgSel(call.Fun, "os", "ReadFile") && len(call.Args) == 1 {
		bad := func() {
			t.fail(x, "os.ReadFile must be used as: b, err := os.ReadFile(p); if err != nil { return/continue/break }")
		}
		if x.Tok != token.DEFINE || t.p.info.Defs[ids[0]] == nil || t.p.info.Defs[ids[1]] == nil {
			bad()
		}
		bObj, errObj := t.p.info.Defs[ids[0]], t.p.info.Defs[ids[1]]
		var guard *ast.IfStmt
		if len(rest) > 0 {
			guard, _ = rest[0].(*ast.IfStmt)
		}
		if guard == nil || guard.Init != nil || guard.Else != nil || !terminates(guard.Body.List) {
			bad()
		}
		cond, okc := guard.Cond.(*ast.BinaryExpr)
		if !okc || cond.Op != token.NEQ {
			bad()
		}
		ci, ok1 := cond.X.(*ast.Ident)
		ni, ok2 := cond.Y.(*ast.Ident)
		if !ok1 || !ok2 || t.p.info.Uses[ci] != errObj || ni.Name != "nil" {
			bad()
		}
		if usesObjIn(t.p.info, guard.Body.List, bObj) || usesObjIn(t.p.info, guard.Body.List, errObj) || usesObjIn(t.p.info, rest[1:], errObj) {
			t.fail(x, "the error of os.ReadFile is read (only its being nil is modelled), or the data is read where it failed")
		}
		return t.bind(call.Args[0], func(p string) string {
			saveScope := copyScope(t.scope)
			t.depth++
			a := t.stmts(guard.Body.List, func() string { t.fail(x, "unreachable"); return "" })
			t.scope = copyScope(saveScope)
			t.declare(lid(ids[0].Name), "Bytes", bObj)
			b := t.stmts(rest[1:], end)
			t.depth--
			t.scope = saveScope
			return fmt.Sprintf("match E.readFile %s with\n%s| none =>\n%s  (%s)\n%s| some %s =>\n%s  %s", atom(p), t.ind(), t.ind(), a, t.ind(), lid(ids[0].Name), t.ind(), b)
		}), true
	}
	return "", false
}

// ifRoots: the if statements with jumps (x.Init == nil)
func (t *translator) ifRoots(x *ast.IfStmt, rest []ast.Stmt, end trEnd) (string, bool) {
	if t.isGOOSWindows(x.Cond) {
		if x.Else != nil {
			t.fail(x, "if runtime.GOOS == \"windows\" with an else branch")
		}
		return t.stmts(rest, end), true
	}
	var el []ast.Stmt
	switch e := x.Else.(type) {
	case *ast.BlockStmt:
		el = e.List
	case *ast.IfStmt:
		el = []ast.Stmt{e}
	}
	thenT := terminates(x.Body.List)
	elseT := x.Else != nil && terminates(el)
	if thenT && (x.Else == nil || elseT) {
		return "", false // if c then A else B / rest
	}
	if !hasJump(x.Body) && (x.Else == nil || !hasJump(x.Else)) {
		return "", false // assignment-only branches
	}
	unreachable := func() string { t.fail(x, "unreachable"); return "" }
	if thenT || elseT {
		// exactly one branch leaves; the other one is followed by the rest
		return t.bind(x.Cond, func(c string) string {
			saveScope := copyScope(t.scope)
			t.depth++
			var a, b string
			if thenT {
				a = t.stmts(x.Body.List, unreachable)
				t.scope = copyScope(saveScope)
				b = t.stmts(append(append([]ast.Stmt{}, el...), rest...), end)
			} else {
				a = t.stmts(append(append([]ast.Stmt{}, x.Body.List...), rest...), end)
				t.scope = copyScope(saveScope)
				b = t.stmts(el, unreachable)
			}
			t.depth--
			t.scope = saveScope
			return fmt.Sprintf("if %s then\n%s  %s\n%selse\n%s  %s", c, t.ind(), a, t.ind(), t.ind(), b)
		}), true
	}
	// a join block: both branches can fall through, at least one can jump
	vs := t.assignedObj(x, append(append([]trLocal{}, t.params...), t.scope...))
	for _, v := range vs {
		inScope := false
		for _, l := range t.scope {
			if l.name == v.name && l.obj == v.obj {
				inScope = true
			}
		}
		if !inScope {
			t.fail(x, "assignment to %s, which is not a local variable of the function", v.name)
		}
	}
	return t.bind(x.Cond, func(c string) string {
		saveScope := copyScope(t.scope)
		t.frames = append(t.frames, trFrame{vs: vs, resTy: "(Step " + tupleType(vs) + " " + t.curRes() + ")"})
		fall := func() string {
			t.checkVs(x, vs)
			return "some (.cont " + atom(tuple(vs)) + ")"
		}
		t.depth++
		a := t.stmts(x.Body.List, fall)
		t.scope = copyScope(saveScope)
		b := fall()
		if x.Else != nil {
			b = t.stmts(el, fall)
			t.scope = copyScope(saveScope)
		}
		t.depth--
		t.frames = t.frames[:len(t.frames)-1]
		t.scope = saveScope
		pat := tuple(vs)
		un := ""
		if len(vs) == 0 {
			pat = "_"
		}
		if len(vs) > 1 {
			pat = "st"
			un = unpack(vs, "st", t.ind())
		}
		r := t.stmts(rest, end)
		return fmt.Sprintf("after (σ := %s) (if %s then\n%s  %s\n%selse\n%s  %s) fun %s =>\n%s%s%s", tupleType(vs), c, t.ind(), a, t.ind(), t.ind(), b, pat, un, t.ind(), r)
	}), true
}

// objsIn: the variables an expression reads
func (t *translator) objsIn(e ast.Expr) map[types.Object]bool {
	set := map[types.Object]bool{}
	ast.Inspect(e, func(n ast.Node) bool {
		if id, ok := n.(*ast.Ident); ok {
			if v, ok := t.p.info.Uses[id].(*types.Var); ok {
				set[v] = true
			}
		}
		return true
	})
	return set
}

// forRoots: for i := a; i < b; i++  and  for i := a; i > b; i--
func (t *translator) forRoots(x *ast.ForStmt, cont func() string) string {
	as, ok1 := x.Init.(*ast.AssignStmt)
	cond, ok2 := x.Cond.(*ast.BinaryExpr)
	post, ok3 := x.Post.(*ast.IncDecStmt)
	if !ok1 || !ok2 || !ok3 || as.Tok != token.DEFINE || len(as.Lhs) != 1 || len(as.Rhs) != 1 {
		t.fail(x, "unsupported for statement")
	}
	up := cond.Op == token.LSS && post.Tok == token.INC
	down := cond.Op == token.GTR && post.Tok == token.DEC
	iv, isId := as.Lhs[0].(*ast.Ident)
	if !isId || (!up && !down) {
		t.fail(x, "unsupported for statement")
	}
	ivObj := t.p.info.Defs[iv]
	if ci, ok := cond.X.(*ast.Ident); !ok || t.p.info.Uses[ci] != ivObj {
		t.fail(x, "loop condition does not test the loop variable")
	}
	if pi, ok := post.X.(*ast.Ident); !ok || t.p.info.Uses[pi] != ivObj {
		t.fail(x, "loop post statement does not step the loop variable")
	}
	if bt, ok := t.typeOf(iv).Underlying().(*types.Basic); !ok || bt.Kind() != types.Int {
		t.fail(x, "loop variable of type %s", t.typeOf(iv))
	}
	set := t.assignedSet(x.Body)
	if set[ivObj] {
		t.fail(x, "loop variable assigned in the body")
	}
	for o := range t.objsIn(cond.Y) {
		if set[o] {
			t.fail(x, "the loop bound reads %s, which the body assigns", o.Name())
		}
	}
	a, okA := t.pure(as.Rhs[0])
	b, okB := t.pure(cond.Y)
	if !okA || !okB {
		t.fail(x, "impure loop bounds")
	}
	var rng string
	if up {
		rng = fmt.Sprintf("(List.range' %s (%s - %s))", a, b, a)
	} else if b == "0" {
		// i = a, a-1, …, 1
		rng = fmt.Sprintf("(List.range' 1 %s).reverse", atom(a))
	} else {
		// i = a, a-1, …, b+1 (none when a ≤ b)
		rng = fmt.Sprintf("(List.range' (%s + 1) (%s - %s)).reverse", b, a, b)
	}
	return t.loopRoots(x, nil, nil, iv, x.Body, &rng, cont)
}

// rangeAliasGuard: the slice a loop ranges over must not be written through the same path in the body
func (t *translator) rangeAliasGuard(n ast.Node, rangeX ast.Expr, body *ast.BlockStmt) {
	e := unparen(rangeX)
	if _, isCall := e.(*ast.CallExpr); isCall {
		return
	}
	firstField := func(e ast.Expr) (types.Object, string, bool) {
		// root variable, the field selected on it first ("" if none), whole = the expression is the variable itself
		field := ""
		whole := true
		for {
			switch x := e.(type) {
			case *ast.Ident:
				return t.p.info.ObjectOf(x), field, whole
			case *ast.SelectorExpr:
				field, whole = x.Sel.Name, false
				e = x.X
			case *ast.IndexExpr:
				field, whole = "", false
				e = x.X
			case *ast.SliceExpr:
				field, whole = "", false
				e = x.X
			case *ast.StarExpr:
				e = x.X
			case *ast.ParenExpr:
				e = x.X
			default:
				return nil, "", false
			}
		}
	}
	root, fld, _ := firstField(e)
	if root == nil {
		t.fail(n, "range over an expression that is neither a call nor a path")
	}
	check := func(l ast.Expr, call bool) {
		r, f, whole := firstField(l)
		if r != root {
			return
		}
		if whole && !call {
			return // the variable is replaced as a whole: the slice being ranged over is not touched
		}
		if fld == "" || f == "" || f == fld {
			t.fail(l, "the loop body writes through %s, which the loop ranges over", root.Name())
		}
	}
	ast.Inspect(body, func(m ast.Node) bool {
		switch s := m.(type) {
		case *ast.AssignStmt:
			if s.Tok != token.DEFINE {
				for _, l := range s.Lhs {
					check(l, false)
				}
			}
		case *ast.IncDecStmt:
			check(s.X, false)
		case *ast.CallExpr:
			if sel, ok := s.Fun.(*ast.SelectorExpr); ok {
				if tv, ok := t.p.info.Types[sel.X]; ok && t.mutating[structName(tv.Type)+"_"+sel.Sel.Name] {
					check(sel.X, true)
				}
			}
		}
		return true
	})
}

// loopRoots is loop for group Roots: it may be nested, its body may continue / break, and its result type
// is the result type of the context it occurs in.
func (t *translator) loopRoots(n ast.Node, rangeX ast.Expr, key, val ast.Expr, body *ast.BlockStmt, listTerm *string, cont func() string) string {
	outer := copyScope(t.scope)
	vs := t.assignedObj(body, outer)
	hasBrk := breaksLoop(body)
	t.nloop++
	name := fmt.Sprintf("%s_loop%d", t.fn, t.nloop)
	keyName, valName := "_i", "_x"
	var keyObj, valObj types.Object
	if id, ok := key.(*ast.Ident); ok && id.Name != "_" {
		keyName = lid(id.Name)
		keyObj = t.p.info.ObjectOf(id)
	}
	if id, ok := val.(*ast.Ident); ok && id.Name != "_" {
		valName = lid(id.Name)
		valObj = t.p.info.ObjectOf(id)
	}
	step, run := "Step", "forRange"
	if hasBrk {
		step, run = "StepB", "forRangeB"
	}
	emit := func(xs string, elemType string) string {
		// captured: params and the locals that are not loop-carried
		var caps []trLocal
		isState := map[string]bool{}
		for _, v := range vs {
			isState[v.name] = true
		}
		caps = append(caps, t.params...)
		for _, l := range outer {
			if !isState[l.name] && !strings.HasPrefix(l.name, "_") {
				caps = append(caps, l)
			}
		}
		var bind, args []string
		seen := map[string]bool{}
		for i := len(caps) - 1; i >= 0; i-- { // drop shadowed duplicates (keep the innermost)
			if seen[caps[i].name] {
				caps = append(caps[:i], caps[i+1:]...)
				continue
			}
			seen[caps[i].name] = true
		}
		for _, c := range caps {
			bind = append(bind, fmt.Sprintf("(%s : %s)", c.name, c.typ))
			args = append(args, c.name)
		}
		resOuter := t.curRes()
		saveScope, saveDepth, saveSt, saveIn := t.scope, t.depth, t.stVars, t.inLoop
		t.frames = append(t.frames, trFrame{loop: true, brk: hasBrk, vs: vs, resTy: "(" + step + " " + tupleType(vs) + " " + resOuter + ")"})
		t.inLoop, t.stVars, t.depth = true, vs, 0
		t.scope = append(copyScope(outer), trLocal{keyName, "Nat", keyObj}, trLocal{valName, elemType, valObj})
		b := t.stmts(body.List, func() string { return t.jumpLoop(n, false) })
		t.frames = t.frames[:len(t.frames)-1]
		t.inLoop, t.stVars, t.depth, t.scope = saveIn, saveSt, saveDepth, saveScope
		def := fmt.Sprintf("def %s (E : Env) %s (%s : Nat) (%s : %s) (st : %s) : Option (%s %s %s) :=\n%s  %s\n",
			name, strings.Join(bind, " "), keyName, valName, elemType, tupleType(vs), step, tupleType(vs), resOuter,
			unpack(vs, "st", "  "), b)
		t.defs = append(t.defs, def)
		pat := tuple(vs)
		if len(vs) == 0 {
			pat = "_"
		}
		rest := cont()
		var un string
		if len(vs) > 1 {
			pat = "st"
			un = unpack(vs, "st", t.ind())
		}
		return fmt.Sprintf("after (%s (%s E %s) %s 0 %s) fun %s =>\n%s%s%s", run, name, strings.Join(args, " "), xs, tuple(vs), pat, un, t.ind(), rest)
	}
	if listTerm != nil {
		return emit(*listTerm, "Nat")
	}
	var elem types.Type
	switch c := t.typeOf(rangeX).Underlying().(type) {
	case *types.Slice:
		elem = c.Elem()
	case *types.Array:
		elem = c.Elem()
	default:
		// a map: the result could depend on the iteration order; a string: runes are not modelled here
		t.fail(n, "range over %s", t.typeOf(rangeX))
	}
	t.rangeAliasGuard(n, rangeX, body)
	et := t.leanType(n, elem)
	return t.bind(rangeX, func(xs string) string { return emit(atom(xs), et) })
}

// rootsPrepass: what is checked once per function of group Roots
func (t *translator) rootsPrepass(fd *ast.FuncDecl) {
	if t.agg != nil {
		t.aggPrepass(fd)
		return
	}
	if t.web {
		return // group Web has its own (webPrepass): ints are Int, *stack.Snapshot is opaque
	}
	known := map[string]bool{"Goroutines": true, "LocalGOROOT": true, "LocalGOPATHs": true, "RemoteGOROOT": true,
		"RemoteGOPATHs": true, "LocalGomods": true}
	ast.Inspect(fd.Body, func(n ast.Node) bool {
		if sel, ok := n.(*ast.SelectorExpr); ok {
			if tv, ok := t.p.info.Types[sel.X]; ok && structName(tv.Type) == "Snapshot" && !known[sel.Sel.Name] {
				t.fail(sel, "Snapshot.%s is not a field of the model's Snapshot record", sel.Sel.Name)
			}
		}
		return true
	})
	t.mapNilGuard(fd)
	// ints are natural numbers by construction in this group; a parameter could be negative
	if fd.Type.Params != nil {
		for _, fld := range fd.Type.Params.List {
			if b, ok := t.typeOf(fld.Type).Underlying().(*types.Basic); ok && b.Info()&types.IsInteger != 0 && b.Kind() != types.Uint8 {
				t.fail(fld, "integer parameter (could be negative)")
			}
		}
	}
}

// mapPath: the spelling of a variable / field path (parentheses and dereferences dropped), "" and false for
// anything else
func mapPath(e ast.Expr) (string, bool) {
	switch x := e.(type) {
	case *ast.Ident:
		return x.Name, true
	case *ast.ParenExpr:
		return mapPath(x.X)
	case *ast.StarExpr:
		return mapPath(x.X)
	case *ast.SelectorExpr:
		b, ok := mapPath(x.X)
		return b + "." + x.Sel.Name, ok
	}
	return "", false
}

// mapNilGuard computes t.mapInit for fd: the map-valued paths that are assigned a map literal by the
// straight-line statements the body starts with (plus `recv` for a pointer receiver of map type, whose
// callers are checked instead), and refuses what could make one of them nil or unknown later: an
// assignment to a proper prefix of the path (`*s = …`, `s = …`), a call of a mutating method on such a
// prefix, a call of a mutating method with a map receiver on anything but such a path.
func (t *translator) mapNilGuard(fd *ast.FuncDecl) {
	t.mapInit = map[string]bool{}
	isMapT := func(ty types.Type) bool {
		if p, ok := ty.Underlying().(*types.Pointer); ok {
			ty = p.Elem()
		}
		_, ok := ty.Underlying().(*types.Map)
		return ok
	}
	if fd.Recv != nil && len(fd.Recv.List) == 1 && len(fd.Recv.List[0].Names) == 1 {
		if _, isPtr := fd.Recv.List[0].Type.(*ast.StarExpr); isPtr && isMapT(t.typeOf(fd.Recv.List[0].Type)) {
			t.mapInit[fd.Recv.List[0].Names[0].Name] = true
		}
	}
prefix:
	for _, st := range fd.Body.List {
		switch x := st.(type) {
		case *ast.AssignStmt:
			if len(x.Lhs) == 1 && len(x.Rhs) == 1 {
				if cl, ok := unparen(x.Rhs[0]).(*ast.CompositeLit); ok && isMapT(t.typeOf(cl)) {
					if mp, ok := mapPath(x.Lhs[0]); ok {
						t.mapInit[mp] = true
					}
				}
			}
		case *ast.DeclStmt:
		default:
			break prefix
		}
	}
	properPrefix := func(p string) string {
		for m := range t.mapInit {
			if len(m) > len(p) && strings.HasPrefix(m, p) && m[len(p)] == '.' {
				return m
			}
		}
		return ""
	}
	ast.Inspect(fd.Body, func(n ast.Node) bool {
		switch x := n.(type) {
		case *ast.AssignStmt:
			if x.Tok == token.DEFINE {
				// a new variable of the same name would be another variable: the paths are spelled by name
				for _, l := range x.Lhs {
					if id, ok := l.(*ast.Ident); ok && t.p.info.Defs[id] != nil {
						for m := range t.mapInit {
							if m == id.Name || strings.HasPrefix(m, id.Name+".") {
								if !t.isInitStmt(fd, x) {
									t.fail(x, "%s is declared again: the map %s could be another one", id.Name, m)
								}
							}
						}
					}
				}
				return true
			}
			for _, l := range x.Lhs {
				if p, ok := mapPath(l); ok {
					if m := properPrefix(p); m != "" {
						t.fail(x, "assignment to %s replaces the map %s", p, m)
					}
				}
			}
		case *ast.CallExpr:
			sel, ok := x.Fun.(*ast.SelectorExpr)
			if !ok {
				return true
			}
			tv, ok := t.p.info.Types[sel.X]
			if !ok || !t.mutating[structName(tv.Type)+"_"+sel.Sel.Name] {
				return true
			}
			p, isPath := mapPath(sel.X)
			if isMapT(tv.Type) {
				if !isPath || !t.mapInit[p] {
					t.fail(x, "%s.%s writes the map it is called on, which may be nil here", structName(tv.Type), sel.Sel.Name)
				}
			} else if isPath {
				if m := properPrefix(p); m != "" {
					t.fail(x, "%s.%s may replace the map %s", structName(tv.Type), sel.Sel.Name, m)
				}
			}
		}
		return true
	})
}

// isInitStmt: is st one of the top-level statements of fd's body?
func (t *translator) isInitStmt(fd *ast.FuncDecl, st ast.Stmt) bool {
	for _, s := range fd.Body.List {
		if s == st {
			return true
		}
	}
	return false
}

// rootsCallersGuard: a method of the group with a pointer receiver of map type assumes a non-nil map; every
// call of it in the package must therefore be in a function of the group (where mapNilGuard checks it)
func (p *pkgInfo) rootsCallersGuard(trFuncs [][2]string, mutating map[string]bool) []string {
	var failed []string
	inGroup := map[*ast.FuncDecl]bool{}
	for _, f := range trFuncs {
		if fd := p.funcDecl(f[0], f[1]); fd != nil {
			inGroup[fd] = true
		}
	}
	for _, file := range p.files {
		for _, d := range file.Decls {
			fd, ok := d.(*ast.FuncDecl)
			if !ok || fd.Body == nil || inGroup[fd] {
				continue
			}
			ast.Inspect(fd.Body, func(n ast.Node) bool {
				sel, ok := n.(*ast.SelectorExpr)
				if !ok {
					return true
				}
				tv, ok := p.info.Types[sel.X]
				if !ok || !mutating[structName(tv.Type)+"_"+sel.Sel.Name] {
					return true
				}
				ty := tv.Type
				if pt, ok := ty.Underlying().(*types.Pointer); ok {
					ty = pt.Elem()
				}
				if _, isMap := ty.Underlying().(*types.Map); isMap {
					if _, isMethod := p.info.Uses[sel.Sel].(*types.Func); isMethod {
						pos := p.fset.Position(sel.Pos())
						failed = append(failed, fmt.Sprintf("%s.%s: used in %s (%s:%d), outside the group: its map could be nil there",
							structName(tv.Type), sel.Sel.Name, fd.Name.Name, pos.Filename[strings.LastIndex(pos.Filename, "/")+1:], pos.Line))
					}
				}
				return true
			})
		}
	}
	return failed
}
