// translate_func.go — the sixth translated group: `(*Func).Init` of stack/stack.go and `parseFunc`, `parseFile`,
// `trimCurlyBrackets` of stack/context.go.
//
// Generated file: lean/PP/TranslatedFunc.lean (namespace PP.TrF, its own Env); run-time support:
// lean/PP/Go/PreludeFunc.lean; agreement with the hand-written model (PP/Model/FuncInit.lean: `funcInit`,
// `funcFinish`, `pathUnescape`, `FErr`; PP/Model/Scan.lean: `parseFunc`, `parseFile`; PP/Model/Args.lean:
// `trimCurlyBrackets`): lean/PP/Tie/TranslatedFunc.lean.
//
// Everything here is reached from translate.go through small hooks (t.fi…), each of which is guarded by
// `t.fi` (true for this group only), so the generated files of the other groups do not depend on it.
// From group Roots the group re-uses, by opting in at the places concerned (`t.roots || t.fi`): join blocks
// (ifRoots: `if c { … return … } else { … }; rest` with `rest` translated once), jumpRet / jumpLoop (`break`),
// and the object-based assignedObj.  Nothing else of group Roots is switched on (its ints are naturals).
//
// What is new, and what each construct assumes (sound or refuse):
//
//   - Go `int` is Lean `Int` (everywhere in the group: locals, parameters, results, literals, `len`): an `int`
//     of `Func.Init` really takes the value -1 (`endPkg`), so the "ints are naturals" reading of the other
//     groups would be wrong here.  Every integer literal of type int is emitted with its type, `(-1 : Int)`,
//     so that no arithmetic of the group can be elaborated over Nat (where `a - b` truncates at 0).
//     ASSUMES, like the other groups, that int arithmetic does not overflow (the values here are bounded by
//     string lengths).  Integer types other than int and uint8 are refused, with one exception: a `rune` that
//     comes out of utf8.DecodeRuneInString (a code point, never negative) is a Nat, and may only be used in
//     `unicode.ToUpper(r) == r` (the model's toUpperIsSelf, whose table the extractor pins on every run).
//     A field of type int is a Nat in the model's records: reading or writing one is refused (fiPrepass).
//   - slice expressions and index expressions take Int bounds: `goSliceI s lo hi` / `goIdxI s i` are `none`
//     (a run-time panic) when a bound is negative or out of range, which is what Go does.  On a SLICE (not a
//     string) with an explicit upper bound Go allows the bound up to the capacity, which the model's lists do
//     not have: such an expression is `goReSliceI`, whose `none` means "a panic, or a reslice beyond the
//     length"; the tie of a function that uses it comes with a proof that it never yields `none`.
//   - strings/bytes.IndexByte and LastIndexByte are Int-valued (`goIndexByte`, `goLastIndexByte`: -1 when
//     absent) and their results are ordinary ints (the Option-based special forms of the other groups are
//     bypassed: indexCall).
//   - `error` is the Lean type `GoErr`, a VALUE distinct from a panic (`none`): `nil` is `GoErr.nil`,
//     `errors.New(s)` is `GoErr.new s`, `fmt.Errorf(format, operands…)` is `GoErr.errorf format e args` (the
//     constant format; the operand of type error, verbs %w / %s, at most one; the string / []byte operands of
//     %q in order, where `bytes.TrimSpace(x)` is recorded as `GoArg.trimSpace x`, not evaluated: the text of a
//     message is not modelled), the error of url.PathUnescape is `GoErr.pathUnescape`, that of parseArgs
//     `GoErr.parseArgs kind`.  An error may only be compared with nil.
//   - `a, b = f(…)` where a or b is a field path rooted in a local (`f.Complete, err = url.PathUnescape(raw)`):
//     the call is evaluated first, then the components are assigned left to right.  Refused when a
//     left-hand side contains an index expression (whose operands Go evaluates before the call) or the call
//     is a method that assigns through its receiver.  `i, j := a, b` with new variables: the right-hand
//     sides in order, then the bindings (refused when a right-hand side mentions a name of the left).
//   - `var x T` without initial value, T one of error, int, string, bool: the zero value.
//   - a function whose FIRST parameter is a pointer it assigns through (`parseFunc(c *Call, …)`) is translated
//     like a method with that parameter as receiver: it returns the parameter's final value with its result
//     (fiGroupSetup, fiMutName).  ASSUMES the pointer is not nil and nothing else aliases its target.
//   - an expression statement that calls a result-less method assigning through its receiver (`c.init(…)`).
//   - `for ; a < b; a++ { … }` / `for ; a < b; b-- { … }` over int locals declared outside the loop, with
//     `break` (fiFor says why `List.range' 0 (b - a).toNat` is the exact iteration space).  Other loops are
//     refused (the loop combinators of the other groups count in Nat).
//   - `m := re.FindSubmatch(b)` for reFile / reFunc: `reFileSubmatch` / `reFuncSubmatch` (the model's
//     hand-written matchers matchFile / matchFunc, TRUSTED), `m != nil` is `m != []`, `m[k]` for a constant
//     k >= 1 (index 0, the whole match, is a placeholder and refused).
//   - library and package functions (each a small definition in PreludeFunc.lean, or the hand-written model
//     function): url.PathUnescape = goPathUnescape (the model's `pathUnescape`, TRUSTED; Go returns "" with
//     the error), strings.TrimSuffix = goTrimSuffix, strings.Split with a constant non-empty separator =
//     goSplit (the model's Bytes.splitOn), utf8.DecodeRuneInString = goDecodeRune (the model's decodeRune),
//     strings.HasSuffix = Bytes.hasSuffix (as in the older groups); context.go atou = goAtou (the model's
//     atou; the Go function is tied to it in group Scan), context.go parseArgs = goParseArgs (the model's
//     parseArgs, TRUSTED), `(*Call).init` = the environment function Call_init (tied in group Scan).
package main

import (
	"fmt"
	"go/ast"
	"go/constant"
	"go/token"
	"go/types"
	"strings"
)

// the functions of group Func, in emission order
var trFuncsFunc = [][2]string{
	{"Func", "Init"}, {"", "parseFunc"}, {"", "parseFile"}, {"", "trimCurlyBrackets"},
}

// functions of the environment of group Func that are not translated in it: `(*Call).init` (translated and
// tied in group Scan, where its line number is a Nat; here it takes the Go int as it is)
var fiOracles = []string{"Call_init : Call → Bytes → Int → Option (Call × Unit)"}

// fiMutName: the variable a function that assigns through a pointer threads and returns with its result: the
// receiver, or (group Func) the first parameter
func fiMutName(fd *ast.FuncDecl) string {
	if fd.Recv != nil && len(fd.Recv.List) == 1 && len(fd.Recv.List[0].Names) == 1 {
		return fd.Recv.List[0].Names[0].Name
	}
	return fd.Type.Params.List[0].Names[0].Name
}

// fiGroupSetup: what group Func adds to the tables of translateGroup.
//   - `(*Call).init` is a function of the environment (fiOracles) that assigns through its receiver;
//   - a function (no receiver) whose FIRST parameter is a pointer to a struct and whose body assigns through it
//     (`c.ImportPath = …`, or a call of a method that assigns through its receiver on a path rooted in it) is
//     translated like a method with that parameter as receiver: the parameter is threaded as a local and
//     returned together with the result.  ASSUMES, as for receivers, that the pointer is not nil and that no
//     other parameter aliases what it points to.  Calls of such a function from inside the group are refused
//     (fiPrepass): the write-back at the call site is only implemented for methods.
func (p *pkgInfo) fiGroupSetup(trFuncs [][2]string, funcs, mutating map[string]bool) {
	funcs["Call_init"] = true
	mutating["Call_init"] = true
	for _, f := range trFuncs {
		if f[0] != "" {
			continue
		}
		fd := p.funcDecl(f[0], f[1])
		if fd == nil || fd.Recv != nil || fd.Type.Params == nil || len(fd.Type.Params.List) == 0 || len(fd.Type.Params.List[0].Names) != 1 {
			continue
		}
		first := fd.Type.Params.List[0]
		if _, isPtr := first.Type.(*ast.StarExpr); !isPtr {
			continue
		}
		obj := p.info.Defs[first.Names[0]]
		rootIs := func(l ast.Expr) bool {
			for {
				switch y := l.(type) {
				case *ast.SelectorExpr:
					l = y.X
					continue
				case *ast.IndexExpr:
					l = y.X
					continue
				case *ast.StarExpr:
					l = y.X
					continue
				case *ast.ParenExpr:
					l = y.X
					continue
				}
				break
			}
			id, ok := l.(*ast.Ident)
			return ok && obj != nil && p.info.Uses[id] == obj
		}
		writes := false
		ast.Inspect(fd.Body, func(n ast.Node) bool {
			switch x := n.(type) {
			case *ast.AssignStmt:
				if x.Tok != token.DEFINE {
					for _, l := range x.Lhs {
						if _, plain := l.(*ast.Ident); !plain && rootIs(l) {
							writes = true
						}
					}
				}
			case *ast.IncDecStmt:
				if _, plain := x.X.(*ast.Ident); !plain && rootIs(x.X) {
					writes = true
				}
			case *ast.CallExpr:
				if sel, ok := x.Fun.(*ast.SelectorExpr); ok && rootIs(sel.X) {
					if tv, ok := p.info.Types[sel.X]; ok && mutating[structName(tv.Type)+"_"+sel.Sel.Name] {
						writes = true
					}
				}
			}
			return true
		})
		if writes {
			mutating[f[1]] = true
		}
	}
}

func isErrorType(ty types.Type) bool {
	n, ok := ty.(*types.Named)
	return ok && n.Obj().Pkg() == nil && n.Obj().Name() == "error"
}

// fiNamedType: the predeclared interface type `error` is GoErr
func (t *translator) fiNamedType(n ast.Node, x *types.Named) (string, bool) {
	if t.fi && isErrorType(x) {
		return "GoErr", true
	}
	return "", false
}

// fiBasic: the integer types of group Func
func (t *translator) fiBasic(n ast.Node, x *types.Basic) (string, bool) {
	if !t.fi || x.Info()&types.IsInteger == 0 {
		return "", false
	}
	switch x.Kind() {
	case types.Int:
		return "Int", true
	case types.Uint8:
		return "", false // UInt8, as in the other groups
	case types.Int32:
		// rune: only ever the first result of utf8.DecodeRuneInString (fiPure refuses every other use)
		return "Nat", true
	}
	t.fail(n, "integer type %s is not supported in group Func (int is Int, byte is UInt8)", x)
	return "", false
}

// fiPkgFunc: is fun the function name of package path (by import path, not by the local name)?
func (t *translator) fiPkgFunc(fun ast.Expr, path, name string) bool {
	sel, ok := fun.(*ast.SelectorExpr)
	if !ok || sel.Sel.Name != name {
		return false
	}
	id, ok := sel.X.(*ast.Ident)
	if !ok {
		return false
	}
	pn, ok := t.p.info.Uses[id].(*types.PkgName)
	return ok && pn.Imported().Path() == path
}

func (t *translator) fiIsRune(e ast.Expr) bool {
	tv, ok := t.p.info.Types[e]
	if !ok || tv.Type == nil {
		return false
	}
	b, ok := tv.Type.Underlying().(*types.Basic)
	return ok && b.Kind() == types.Int32
}

// fiToUpperSelf recognises `unicode.ToUpper(r) == r` / `r == unicode.ToUpper(r)` (and `!=`) for a variable r
func (t *translator) fiToUpperSelf(x *ast.BinaryExpr) (*ast.Ident, bool) {
	if x.Op != token.EQL && x.Op != token.NEQ {
		return nil, false
	}
	try := func(a, b ast.Expr) (*ast.Ident, bool) {
		call, ok := unparen(a).(*ast.CallExpr)
		if !ok || len(call.Args) != 1 || !t.fiPkgFunc(call.Fun, "unicode", "ToUpper") {
			return nil, false
		}
		arg, ok1 := unparen(call.Args[0]).(*ast.Ident)
		other, ok2 := unparen(b).(*ast.Ident)
		if !ok1 || !ok2 || t.p.info.Uses[arg] == nil || t.p.info.Uses[arg] != t.p.info.Uses[other] {
			t.fail(x, "unicode.ToUpper is only translated as `unicode.ToUpper(r) == r` for a variable r")
		}
		return arg, true
	}
	if id, ok := try(x.X, x.Y); ok {
		return id, true
	}
	return try(x.Y, x.X)
}

// fiPure: the pure expressions group Func spells differently from the other groups.
func (t *translator) fiPure(e ast.Expr) (string, bool) {
	if tv, ok := t.p.info.Types[e]; ok && tv.Value != nil && tv.Value.Kind() == constant.Int {
		// an integer constant: spelled with its type, so that the arithmetic it takes part in is Int arithmetic
		b, ok := tv.Type.Underlying().(*types.Basic)
		if !ok {
			t.fail(e, "integer constant of type %s", tv.Type)
		}
		if _, named := tv.Type.(*types.Named); named {
			return "", false // an enumeration constant: the older code
		}
		switch b.Kind() {
		case types.Int:
			return "(" + tv.Value.ExactString() + " : Int)", true
		case types.Uint8:
			return "", false
		}
		t.fail(e, "integer constant of type %s (only int and byte constants are translated in group Func)", tv.Type)
	}
	switch x := e.(type) {
	case *ast.Ident:
		if x.Name == "nil" {
			if _, isNil := t.p.info.Uses[x].(*types.Nil); isNil {
				if ty, ok := fiNilType[x]; ok && isErrorType(ty) {
					return "GoErr.nil", true
				}
				if fiNilSubmatch[x] {
					// compared with the result of FindSubmatch, which is nil or has at least one element
					return "[]", true
				}
				t.fail(e, "nil of a type other than error (or in a place where its type is not determined by fiPrepass)")
			}
		}
		if t.fiIsRune(e) {
			t.fail(e, "the rune %s is used other than in `unicode.ToUpper(r) == r`", x.Name)
		}
	case *ast.SelectorExpr:
		if tv, ok := t.p.info.Types[e]; ok && tv.Type != nil {
			if b, ok := tv.Type.Underlying().(*types.Basic); ok && b.Info()&types.IsInteger != 0 && b.Kind() != types.Uint8 {
				t.fail(e, "field %s of integer type (a Nat in the model's record, an Int in this group)", x.Sel.Name)
			}
		}
	case *ast.BinaryExpr:
		if id, ok := t.fiToUpperSelf(x); ok {
			t.checkBinding(id)
			if x.Op == token.NEQ {
				return "(!(toUpperIsSelf " + lid(id.Name) + "))", true
			}
			return "(toUpperIsSelf " + lid(id.Name) + ")", true
		}
	}
	return "", false
}

// fiBinopGuard: what a binary operator may be applied to in group Func
func (t *translator) fiBinopGuard(x *ast.BinaryExpr) {
	for _, o := range []ast.Expr{x.X, x.Y} {
		ty := t.typeOf(o)
		if isErrorType(ty) {
			isNil := func(e ast.Expr) bool {
				id, ok := unparen(e).(*ast.Ident)
				if !ok {
					return false
				}
				_, ok = t.p.info.Uses[id].(*types.Nil)
				return ok
			}
			if (x.Op != token.EQL && x.Op != token.NEQ) || (!isNil(x.X) && !isNil(x.Y)) {
				t.fail(x, "an error compared with something other than nil")
			}
		}
		if b, ok := ty.Underlying().(*types.Basic); ok && b.Info()&types.IsInteger != 0 {
			switch x.Op {
			case token.ADD, token.SUB, token.MUL:
				if b.Kind() != types.Int && b.Kind() != types.Uint8 {
					t.fail(x, "%s on %s (only int, which is Int, and byte)", x.Op, b.Name())
				}
			}
		}
	}
}

// fiBuiltin: the library functions of group Func (see the header for what each stands for)
func (t *translator) fiBuiltin(name string, x *ast.CallExpr, sub func(ast.Expr) string) (string, bool) {
	if !t.fi {
		return "", false
	}
	nargs := func(n int) {
		if len(x.Args) != n || x.Ellipsis.IsValid() {
			t.fail(x, "%s: unexpected arguments", name)
		}
	}
	a := func(i int) string { return atom(sub(x.Args[i])) }
	constStr := func(e ast.Expr) (string, bool) {
		tv, ok := t.p.info.Types[e]
		if !ok || tv.Value == nil || tv.Value.Kind() != constant.String {
			return "", false
		}
		return constant.StringVal(tv.Value), true
	}
	if id, ok := x.Fun.(*ast.Ident); ok {
		if _, isB := t.p.info.Uses[id].(*types.Builtin); isB {
			switch id.Name {
			case "len":
				nargs(1)
				switch t.typeOf(x.Args[0]).Underlying().(type) {
				case *types.Slice, *types.Basic: // a slice or a string
					return fmt.Sprintf("(ilen %s)", a(0)), true
				}
				t.fail(x, "len of %s", t.typeOf(x.Args[0]))
			default:
				t.fail(x, "builtin %s is not translated in group Func", id.Name)
			}
		}
		if tv, ok := t.p.info.Types[x.Fun]; ok && tv.IsType() {
			if b, ok := tv.Type.Underlying().(*types.Basic); ok && b.Info()&types.IsInteger != 0 {
				// int(x), rune(x), …: only the identity on int
				nargs(1)
				ab, ok := t.typeOf(x.Args[0]).Underlying().(*types.Basic)
				if b.Kind() == types.Int && ok && ab.Kind() == types.Int {
					return sub(x.Args[0]), true
				}
				if b.Kind() == types.Int && ok && ab.Kind() == types.Uint8 {
					return fmt.Sprintf("(Int.ofNat (%s).toNat)", sub(x.Args[0])), true
				}
				t.fail(x, "conversion to %s from %s", tv.Type, t.typeOf(x.Args[0]))
			}
		}
		if fn, isFn := t.p.info.Uses[id].(*types.Func); isFn && fn.Parent() == t.p.pkg.Scope() && !t.funcs[id.Name] {
			switch id.Name {
			case "atou":
				// context.go atou: translated and tied in group Scan (TrS.tie_atou); here the model function, its
				// (int, bool) result with the int as an Int
				nargs(1)
				return fmt.Sprintf("(goAtou %s)", a(0)), true
			case "parseArgs":
				// context.go parseArgs: the model's parseArgs (TRUSTED, hand-written); (Args, error): the zero Args
				// together with an error
				nargs(1)
				return fmt.Sprintf("(goParseArgs %s)", a(0)), true
			}
		}
		return "", false
	}
	pkgFn := func(path, fn string) bool { return t.fiPkgFunc(x.Fun, path, fn) }
	switch name {
	case "regexp:reFile.FindSubmatch":
		// nil when there is no match, otherwise [whole match (placeholder, never read), path, line digits]:
		// the model's matchFile (TRUSTED, hand-written; both groups take part in every match)
		nargs(1)
		return fmt.Sprintf("(reFileSubmatch %s)", a(0)), true
	case "regexp:reFunc.FindSubmatch":
		// the model's matchFunc (TRUSTED): [placeholder, name, arguments]
		nargs(1)
		return fmt.Sprintf("(reFuncSubmatch %s)", a(0)), true
	}
	if strings.HasPrefix(name, "regexp:") {
		t.fail(x, "%s is not modelled in group Func", name)
	}
	switch {
	case pkgFn("strings", "IndexByte"), pkgFn("bytes", "IndexByte"):
		nargs(2)
		return fmt.Sprintf("(goIndexByte %s %s)", a(0), a(1)), true
	case pkgFn("strings", "LastIndexByte"), pkgFn("bytes", "LastIndexByte"):
		nargs(2)
		return fmt.Sprintf("(goLastIndexByte %s %s)", a(0), a(1)), true
	case pkgFn("net/url", "PathUnescape"):
		// (string, error): the model's pathUnescape; "" together with the error
		nargs(1)
		return fmt.Sprintf("(goPathUnescape %s)", a(0)), true
	case pkgFn("errors", "New"):
		nargs(1)
		return fmt.Sprintf("(GoErr.new %s)", a(0)), true
	case pkgFn("fmt", "Errorf"):
		// fmt.Errorf(format, operands…) = GoErr.errorf format e args: the constant format, the operand of type
		// error (GoErr.nil when there is none; more than one is refused) and the other operands in order.
		// Verbs: %w and %s with an operand of type error, %q with a string / []byte operand, %%.
		if len(x.Args) < 1 || x.Ellipsis.IsValid() {
			t.fail(x, "fmt.Errorf: unexpected arguments")
		}
		f, ok := constStr(x.Args[0])
		if !ok {
			t.fail(x, "fmt.Errorf with a format that is not constant")
		}
		errOp := "GoErr.nil"
		nerr := 0
		var ops []string
		ai := 1
		for i := 0; i < len(f); i++ {
			if f[i] != '%' {
				continue
			}
			i++
			if i == len(f) {
				t.fail(x, "fmt.Errorf: format ends in %%")
			}
			if f[i] == '%' {
				continue
			}
			if ai >= len(x.Args) {
				t.fail(x, "fmt.Errorf: missing operand")
			}
			arg := x.Args[ai]
			ai++
			switch {
			case (f[i] == 'w' || f[i] == 's') && isErrorType(t.typeOf(arg)):
				nerr++
				errOp = atom(sub(arg))
			case f[i] == 'q' && (isStringType(t.typeOf(arg)) || isByteSlice(t.typeOf(arg))):
				if c, ok := unparen(arg).(*ast.CallExpr); ok && t.fiPkgFunc(c.Fun, "bytes", "TrimSpace") && len(c.Args) == 1 {
					// the text of a message is not modelled: bytes.TrimSpace is recorded, not evaluated
					ops = append(ops, "GoArg.trimSpace "+atom(sub(c.Args[0])))
				} else {
					ops = append(ops, "GoArg.bytes "+atom(sub(arg)))
				}
			default:
				t.fail(x, "fmt.Errorf: verb %%%c with an operand of type %s", f[i], t.typeOf(arg))
			}
		}
		if ai != len(x.Args) {
			t.fail(x, "fmt.Errorf: extra operands")
		}
		if nerr > 1 {
			t.fail(x, "fmt.Errorf with more than one operand of type error")
		}
		return fmt.Sprintf("(GoErr.errorf %s %s [%s])", leanBytes(f), errOp, strings.Join(ops, ", ")), true
	case pkgFn("bytes", "TrimSpace"), pkgFn("strings", "TrimSpace"):
		t.fail(x, "TrimSpace is only translated as an operand of fmt.Errorf (where it is recorded, not evaluated)")
	case pkgFn("strings", "TrimSuffix"), pkgFn("bytes", "TrimSuffix"):
		nargs(2)
		return fmt.Sprintf("(goTrimSuffix %s %s)", a(0), a(1)), true
	case pkgFn("strings", "Split"):
		nargs(2)
		if sep, ok := constStr(x.Args[1]); !ok || sep == "" {
			t.fail(x, "strings.Split with a separator that is not a non-empty constant")
		}
		return fmt.Sprintf("(goSplit %s %s)", a(0), a(1)), true
	case pkgFn("unicode/utf8", "DecodeRuneInString"):
		nargs(1)
		return fmt.Sprintf("(goDecodeRune %s)", a(0)), true
	case pkgFn("unicode", "ToUpper"):
		t.fail(x, "unicode.ToUpper is only translated as `unicode.ToUpper(r) == r` for a variable r")
	case pkgFn("strings", "Index"), pkgFn("bytes", "Index"), pkgFn("strings", "SplitN"), pkgFn("fmt", "Sprintf"):
		// translated over Nat / Option by the older code
		t.fail(x, "%s is not translated in group Func", name)
	}
	return "", false
}

// bindFi: slice and index expressions with Int bounds
func (t *translator) bindFi(e ast.Expr, k func(string) string) (string, bool) {
	seq := func(ty types.Type) bool {
		switch u := ty.Underlying().(type) {
		case *types.Slice:
			return true
		case *types.Basic:
			return u.Info()&types.IsString != 0
		}
		return false
	}
	switch x := e.(type) {
	case *ast.SliceExpr:
		if x.Slice3 {
			t.fail(x, "3-index slice")
		}
		if !seq(t.typeOf(x.X)) {
			t.fail(x, "slice expression on %s", t.typeOf(x.X))
		}
		return t.bind(x.X, func(base string) string {
			lo := func(k func(string) string) string {
				if x.Low == nil {
					return k("(0 : Int)")
				}
				return t.bind(x.Low, k)
			}
			hi := func(k func(string) string) string {
				if x.High == nil {
					return k("(ilen " + atom(base) + ")")
				}
				return t.bind(x.High, k)
			}
			return lo(func(l string) string {
				return hi(func(h string) string {
					v := t.fresh()
					fn := "goSliceI"
					if _, isSl := t.typeOf(x.X).Underlying().(*types.Slice); isSl && x.High != nil {
						// s[lo:hi] on a slice is legal in Go up to the CAPACITY; goReSliceI is `none` beyond the LENGTH
						// (see PreludeFunc.lean: its `none` is "a panic, or a reslice beyond the length")
						fn = "goReSliceI"
					}
					return fmt.Sprintf("(%s %s %s %s).bind fun %s =>\n%s%s", fn, atom(base), atom(l), atom(h), v, t.ind(), k(v))
				})
			})
		}), true
	case *ast.IndexExpr:
		if !seq(t.typeOf(x.X)) {
			t.fail(x, "index expression on %s", t.typeOf(x.X))
		}
		if id, ok := x.X.(*ast.Ident); ok && t.submatch[t.p.info.Uses[id]] {
			if tv, ok := t.p.info.Types[x.Index]; !ok || tv.Value == nil || constant.Sign(tv.Value) <= 0 {
				t.fail(x, "the whole match (index 0, or a computed index) of a regular expression is not modelled, only its groups")
			}
		}
		return t.bind(x.X, func(base string) string {
			return t.bind(x.Index, func(idx string) string {
				v := t.fresh()
				return fmt.Sprintf("(goIdxI %s %s).bind fun %s =>\n%s%s", atom(base), atom(idx), v, t.ind(), k(v))
			})
		}), true
	}
	return "", false
}

// assignFi: `a, b = f(…)` where a left-hand side is a field path (not just a variable)
func (t *translator) assignFi(x *ast.AssignStmt, cont func() string) (string, bool) {
	if x.Tok == token.DEFINE && len(x.Lhs) > 1 && len(x.Lhs) == len(x.Rhs) {
		// i, j := a, b with new variables i, j: the right-hand sides are evaluated in order, then bound.  No
		// right-hand side may mention a name of the left-hand side (an outer variable the new one shadows).
		names := map[string]bool{}
		for _, l := range x.Lhs {
			id, ok := l.(*ast.Ident)
			if !ok || (id.Name != "_" && t.p.info.Defs[id] == nil) {
				t.fail(x, "parallel := that assigns an existing variable")
			}
			names[id.Name] = true
		}
		for _, r := range x.Rhs {
			ast.Inspect(r, func(n ast.Node) bool {
				if id, ok := n.(*ast.Ident); ok && names[id.Name] {
					t.fail(x, "parallel :=: the right-hand side mentions %s", id.Name)
				}
				return true
			})
		}
		var vals []string
		var rec func(i int) string
		rec = func(i int) string {
			if i == len(x.Rhs) {
				var sb strings.Builder
				for j, l := range x.Lhs {
					id := l.(*ast.Ident)
					if id.Name == "_" {
						continue
					}
					typ := t.leanType(x, t.typeOf(x.Rhs[j]))
					t.declare(lid(id.Name), typ, t.p.info.Defs[id])
					fmt.Fprintf(&sb, "let %s : %s := %s\n%s", lid(id.Name), typ, vals[j], t.ind())
				}
				return sb.String() + cont()
			}
			return t.bind(x.Rhs[i], func(v string) string { vals = append(vals, v); return rec(i + 1) })
		}
		return rec(0), true
	}
	if x.Tok != token.ASSIGN || len(x.Lhs) < 2 || len(x.Rhs) != 1 {
		return "", false
	}
	plain := true
	for _, l := range x.Lhs {
		if _, ok := l.(*ast.Ident); !ok {
			plain = false
		}
	}
	if plain {
		return "", false
	}
	call, ok := x.Rhs[0].(*ast.CallExpr)
	if !ok {
		t.fail(x, "multiple assignment from something other than a call")
	}
	tup, ok := t.typeOf(call).(*types.Tuple)
	if !ok || tup.Len() != len(x.Lhs) {
		t.fail(x, "multiple assignment: arity")
	}
	if t.hasMutCall(call) {
		t.fail(x, "multiple assignment from a call that assigns through its receiver")
	}
	for _, l := range x.Lhs {
		// a path of field selections rooted in a variable: nothing on the left is evaluated before the call
		e := l
		for {
			switch y := e.(type) {
			case *ast.ParenExpr:
				e = y.X
				continue
			case *ast.StarExpr:
				e = y.X
				continue
			case *ast.SelectorExpr:
				e = y.X
				continue
			}
			break
		}
		if _, ok := e.(*ast.Ident); !ok {
			t.fail(x, "multiple assignment to something other than variables and their fields")
		}
	}
	return t.bind(call, func(v string) string {
		var rec func(i int) string
		rec = func(i int) string {
			if i == len(x.Lhs) {
				return cont()
			}
			if id, ok := x.Lhs[i].(*ast.Ident); ok && id.Name == "_" {
				return rec(i + 1)
			}
			comp := atom(v) + strings.Repeat(".2", i)
			if i < len(x.Lhs)-1 {
				comp += ".1"
			}
			if id, ok := x.Lhs[i].(*ast.Ident); ok {
				t.checkBinding(id)
			}
			return t.assignVal(x, x.Lhs[i], nil, comp, func() string { return rec(i + 1) })
		}
		return rec(0)
	}), true
}

func isByteSlice(ty types.Type) bool {
	sl, ok := ty.Underlying().(*types.Slice)
	if !ok {
		return false
	}
	b, ok := sl.Elem().Underlying().(*types.Basic)
	return ok && b.Kind() == types.Uint8
}

// fiExprStmt: a call of a method without result that assigns through its receiver (`c.init(…)`): the call,
// whose translation writes the receiver back
func (t *translator) fiExprStmt(x *ast.ExprStmt, cont func() string) (string, bool) {
	call, ok := x.X.(*ast.CallExpr)
	if !ok {
		return "", false
	}
	sel, ok := call.Fun.(*ast.SelectorExpr)
	if !ok {
		return "", false
	}
	tv, ok := t.p.info.Types[sel.X]
	if !ok || !t.mutating[structName(tv.Type)+"_"+sel.Sel.Name] {
		return "", false
	}
	if tup, isTup := t.typeOf(call).(*types.Tuple); !isTup || tup.Len() != 0 {
		t.fail(x, "the result of %s is dropped", sel.Sel.Name)
	}
	return t.bind(call, func(string) string { return cont() }), true
}

// fiFor: `for ; a < b; a++ { body }` and `for ; a < b; b-- { body }` for int locals a, b declared outside the
// loop.  The body assigns neither a nor b (only the post statement steps one of them, by exactly 1), so the
// condition holds at the start of iteration k (counting from 0) exactly when k < b0 - a0 for the values a0, b0
// on entry: the loop runs over `List.range' 0 (b - a).toNat` (its elements are not used), the stepped variable
// is part of the loop-carried state, falling off the end of the body applies the post statement, `break`
// leaves with the state as it is.  `continue` is refused (it would have to apply the post statement too).
func (t *translator) fiFor(x *ast.ForStmt, cont func() string) string {
	if len(t.frames) != 0 && t.inLoop {
		t.fail(x, "nested loop")
	}
	cond, ok := x.Cond.(*ast.BinaryExpr)
	if x.Init != nil || !ok || cond.Op != token.LSS || x.Post == nil {
		t.fail(x, "unsupported for statement (only `for ; a < b; a++` and `for ; a < b; b--`)")
	}
	local := func(e ast.Expr) (*ast.Ident, types.Object) {
		id, ok := e.(*ast.Ident)
		if !ok {
			t.fail(x, "unsupported for statement: the condition must compare two int variables")
		}
		obj := t.p.info.Uses[id]
		if b, ok := t.typeOf(id).Underlying().(*types.Basic); !ok || b.Kind() != types.Int {
			t.fail(x, "loop variable of type %s", t.typeOf(id))
		}
		found := false
		for _, l := range t.scope {
			if l.name == lid(id.Name) && l.obj == obj && obj != nil {
				found = true
			}
		}
		if !found {
			t.fail(x, "%s is not a local variable of the function", id.Name)
		}
		t.checkBinding(id)
		return id, obj
	}
	a, aObj := local(cond.X)
	b, bObj := local(cond.Y)
	post, ok := x.Post.(*ast.IncDecStmt)
	if !ok {
		t.fail(x, "unsupported post statement")
	}
	pid, ok := post.X.(*ast.Ident)
	if !ok || !((post.Tok == token.INC && t.p.info.Uses[pid] == aObj) || (post.Tok == token.DEC && t.p.info.Uses[pid] == bObj)) || aObj == bObj {
		t.fail(x, "unsupported post statement (only a++ or b-- for the condition a < b)")
	}
	set := t.assignedSet(x.Body)
	if set[aObj] || set[bObj] {
		t.fail(x, "the loop body assigns a variable of the loop condition")
	}
	walkOwn(x.Body, func(m ast.Node) {
		if br, ok := m.(*ast.BranchStmt); ok && (br.Tok != token.BREAK || br.Label != nil) {
			t.fail(br, "%s in a loop whose post statement steps an outer variable", br.Tok)
		}
		if _, ok := m.(*ast.DeferStmt); ok {
			t.fail(m, "defer")
		}
	}, func(m ast.Node) { t.fail(m, "nested loop") })
	outer := copyScope(t.scope)
	vs := t.assignedObj(&ast.BlockStmt{List: append(append([]ast.Stmt{}, x.Body.List...), x.Post)}, outer)
	hasBrk := breaksLoop(x.Body)
	t.nloop++
	name := fmt.Sprintf("%s_loop%d", t.fn, t.nloop)
	step, run := "Step", "forRange"
	if hasBrk {
		step, run = "StepB", "forRangeB"
	}
	// captured: params and the locals that are not loop-carried
	var caps []trLocal
	isState := map[string]bool{}
	for _, v := range vs {
		isState[v.name] = true
	}
	caps = append(caps, t.params...)
	for _, l := range outer {
		if !isState[l.name] && !strings.HasPrefix(l.name, "_") {
			caps = append(caps, l)
		}
	}
	var bind, args []string
	seen := map[string]bool{}
	for i := len(caps) - 1; i >= 0; i-- { // drop shadowed duplicates (keep the innermost)
		if seen[caps[i].name] {
			caps = append(caps[:i], caps[i+1:]...)
			continue
		}
		seen[caps[i].name] = true
	}
	for _, c := range caps {
		bind = append(bind, fmt.Sprintf("(%s : %s)", c.name, c.typ))
		args = append(args, c.name)
	}
	resOuter := t.curRes()
	xs := fmt.Sprintf("(List.range' 0 (%s - %s).toNat)", lid(b.Name), lid(a.Name))
	saveScope, saveDepth, saveSt, saveIn := t.scope, t.depth, t.stVars, t.inLoop
	t.frames = append(t.frames, trFrame{loop: true, brk: hasBrk, vs: vs, resTy: "(" + step + " " + tupleType(vs) + " " + resOuter + ")"})
	t.inLoop, t.stVars, t.depth = true, vs, 0
	t.scope = append(copyScope(outer), trLocal{"_i", "Nat", nil}, trLocal{"_x", "Nat", nil})
	body := t.stmts(append(append([]ast.Stmt{}, x.Body.List...), x.Post), func() string { return t.jumpLoop(x, false) })
	t.frames = t.frames[:len(t.frames)-1]
	t.inLoop, t.stVars, t.depth, t.scope = saveIn, saveSt, saveDepth, saveScope
	def := fmt.Sprintf("def %s (E : Env) %s (_i : Nat) (_x : Nat) (st : %s) : Option (%s %s %s) :=\n%s  %s\n",
		name, strings.Join(bind, " "), tupleType(vs), step, tupleType(vs), resOuter, unpack(vs, "st", "  "), body)
	t.defs = append(t.defs, def)
	pat := tuple(vs)
	rest := cont()
	var un string
	if len(vs) > 1 {
		pat = "st"
		un = unpack(vs, "st", t.ind())
	}
	return fmt.Sprintf("after (%s (%s E %s) %s 0 %s) fun %s =>\n%s%s%s", run, name, strings.Join(args, " "), xs, tuple(vs), pat, un, t.ind(), rest)
}

// fiVarDecl: `var x T` (one name, no initial value): the zero value of error, int, string, bool
func (t *translator) fiVarDecl(x *ast.DeclStmt, cont func() string) (string, bool) {
	if !t.fi {
		return "", false
	}
	gd, ok := x.Decl.(*ast.GenDecl)
	if !ok || gd.Tok != token.VAR || len(gd.Specs) != 1 {
		return "", false
	}
	vs, ok := gd.Specs[0].(*ast.ValueSpec)
	if !ok || len(vs.Names) != 1 || len(vs.Values) != 0 || vs.Type == nil || vs.Names[0].Name == "_" {
		return "", false
	}
	ty := t.typeOf(vs.Type)
	typ := t.leanType(x, ty)
	zero := ""
	switch typ {
	case "GoErr":
		zero = "GoErr.nil"
	case "Int":
		zero = "(0 : Int)"
	case "Bytes":
		zero = "([] : Bytes)"
	case "Bool":
		zero = "false"
	default:
		return "", false
	}
	id := vs.Names[0]
	t.declare(lid(id.Name), typ, t.p.info.Defs[id])
	return fmt.Sprintf("let %s : %s := %s\n%s%s", lid(id.Name), typ, zero, t.ind(), cont()), true
}

// fiNilType: the type each `nil` of the function being translated is converted to (the type checker records
// "untyped nil" for the identifier itself): the other operand of a comparison, the result type of the
// function for a returned nil, the type of the variable assigned.  Set by fiPrepass (the translator is
// single-threaded).
var fiNilType map[*ast.Ident]types.Type

// fiNilSubmatch: the `nil`s that are compared with a variable holding the result of a FindSubmatch
var fiNilSubmatch map[*ast.Ident]bool

// fiPrepass: what is checked once per function of group Func
func (t *translator) fiPrepass(fd *ast.FuncDecl) {
	fiNilType = map[*ast.Ident]types.Type{}
	fiNilSubmatch = map[*ast.Ident]bool{}
	// the variables holding the result of a Find… method (as translateGroup computes t.submatch, later)
	submatch := map[types.Object]bool{}
	ast.Inspect(fd.Body, func(n ast.Node) bool {
		if as, ok := n.(*ast.AssignStmt); ok && len(as.Lhs) == 1 && len(as.Rhs) == 1 {
			if c, ok := as.Rhs[0].(*ast.CallExpr); ok {
				if sel, ok := c.Fun.(*ast.SelectorExpr); ok && strings.HasPrefix(sel.Sel.Name, "Find") {
					if id, ok := as.Lhs[0].(*ast.Ident); ok {
						submatch[t.p.info.ObjectOf(id)] = true
					}
				}
			}
		}
		return true
	})
	isSubmatch := func(e ast.Expr) bool {
		id, ok := unparen(e).(*ast.Ident)
		return ok && submatch[t.p.info.Uses[id]]
	}
	if fd.Type.Params != nil {
		for _, fld := range fd.Type.Params.List {
			if b, ok := t.typeOf(fld.Type).Underlying().(*types.Basic); ok && b.Info()&types.IsInteger != 0 && b.Kind() != types.Int && b.Kind() != types.Uint8 {
				t.fail(fld, "parameter of integer type %s (only int and byte)", b.Name())
			}
		}
	}
	isNil := func(e ast.Expr) *ast.Ident {
		id, ok := unparen(e).(*ast.Ident)
		if !ok {
			return nil
		}
		if _, ok := t.p.info.Uses[id].(*types.Nil); !ok {
			return nil
		}
		return id
	}
	var results []types.Type
	if fd.Type.Results != nil {
		for _, rf := range fd.Type.Results.List {
			n := len(rf.Names)
			if n == 0 {
				n = 1
			}
			for ; n > 0; n-- {
				results = append(results, t.typeOf(rf.Type))
			}
		}
	}
	ast.Inspect(fd.Body, func(n ast.Node) bool {
		switch x := n.(type) {
		case *ast.RangeStmt:
			t.fail(n, "range loops are not translated in group Func (the loop combinators count in Nat)")
		case *ast.FuncLit:
			t.fail(n, "function literal")
		case *ast.BinaryExpr:
			if id := isNil(x.X); id != nil && isNil(x.Y) == nil {
				fiNilType[id] = t.typeOf(x.Y)
				fiNilSubmatch[id] = isSubmatch(x.Y)
			}
			if id := isNil(x.Y); id != nil && isNil(x.X) == nil {
				fiNilType[id] = t.typeOf(x.X)
				fiNilSubmatch[id] = isSubmatch(x.X)
			}
		case *ast.SelectorExpr:
			// a field of type int is a Nat in the model's records: neither read nor written in this group
			if sel, ok := t.p.info.Selections[x]; ok && sel.Kind() == types.FieldVal {
				if b, ok := sel.Type().Underlying().(*types.Basic); ok && b.Info()&types.IsInteger != 0 && b.Kind() != types.Uint8 {
					t.fail(x, "field %s of integer type (a Nat in the model's record, an Int in this group)", x.Sel.Name)
				}
			}
		case *ast.KeyValueExpr:
			if id, ok := x.Key.(*ast.Ident); ok {
				if v, ok := t.p.info.Uses[id].(*types.Var); ok && v.IsField() {
					if b, ok := v.Type().Underlying().(*types.Basic); ok && b.Info()&types.IsInteger != 0 && b.Kind() != types.Uint8 {
						t.fail(x, "field %s of integer type (a Nat in the model's record, an Int in this group)", id.Name)
					}
				}
			}
		case *ast.CallExpr:
			if id, ok := x.Fun.(*ast.Ident); ok && t.funcs[id.Name] && t.mutating[id.Name] {
				t.fail(x, "call of %s, which assigns through its first parameter, from inside the group", id.Name)
			}
		case *ast.ReturnStmt:
			if len(x.Results) == len(results) {
				for i, r := range x.Results {
					if id := isNil(r); id != nil {
						fiNilType[id] = results[i]
					}
				}
			}
		case *ast.AssignStmt:
			if len(x.Lhs) == len(x.Rhs) && x.Tok == token.ASSIGN {
				for i, r := range x.Rhs {
					if id := isNil(r); id != nil {
						fiNilType[id] = t.typeOf(x.Lhs[i])
					}
				}
			}
		}
		return true
	})
}
