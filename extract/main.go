// verif-extract regenerates lean/PP/Extracted.lean from /repo's current
// working tree: constants, regexp sources, byte literals, enum orders, the
// transition fingerprint of scan, package-level write sets, the escaper
// pipelines html/template assigns to the holes of the HTML template, and the
// Unicode table the toolchain uses for ToUpper.
//
// It is a fact extractor, not a translator: the Lean model is hand written and
// consumes these facts either as definitions or as pinned proof obligations
// (PP/Tie.lean).
package main

import (
	"bytes"
	"flag"
	"fmt"
	"go/ast"
	"go/constant"
	"go/importer"
	"go/parser"
	"go/token"
	"go/types"
	"os"
	"path/filepath"
	"sort"
	"strconv"
	"strings"
	"unicode"
)

var out bytes.Buffer

func leanBytes(s string) string {
	if len(s) == 0 {
		return "([] : List UInt8)"
	}
	var sb strings.Builder
	sb.WriteString("([")
	for i := 0; i < len(s); i++ {
		if i > 0 {
			sb.WriteString(", ")
		}
		fmt.Fprintf(&sb, "%d", s[i])
	}
	sb.WriteString("] : List UInt8)")
	return sb.String()
}

func leanStr(s string) string { return strconv.Quote(s) }

func die(f string, a ...interface{}) {
	fmt.Fprintf(os.Stderr, "verif-extract: "+f+"\n", a...)
	os.Exit(1)
}

type pkgInfo struct {
	fset  *token.FileSet
	files []*ast.File
	info  *types.Info
	pkg   *types.Package
}

func load(dir, path string) *pkgInfo {
	fset := token.NewFileSet()
	pkgs, err := parser.ParseDir(fset, dir, func(fi os.FileInfo) bool {
		n := fi.Name()
		return !strings.HasSuffix(n, "_test.go") && n != "regen.go" && n != "verif_hooks.go"
	}, parser.ParseComments)
	if err != nil {
		die("parse %s: %v", dir, err)
	}
	var files []*ast.File
	for _, p := range pkgs {
		var names []string
		for n := range p.Files {
			names = append(names, n)
		}
		sort.Strings(names)
		for _, n := range names {
			files = append(files, p.Files[n])
		}
	}
	info := &types.Info{Defs: map[*ast.Ident]types.Object{}, Uses: map[*ast.Ident]types.Object{}, Types: map[ast.Expr]types.TypeAndValue{}, Selections: map[*ast.SelectorExpr]*types.Selection{}}
	conf := types.Config{Importer: importer.ForCompiler(fset, "source", nil), Error: func(error) {}}
	pkg, _ := conf.Check(path, fset, files, info)
	return &pkgInfo{fset: fset, files: files, info: info, pkg: pkg}
}

func (p *pkgInfo) constVal(name string) constant.Value {
	for id, obj := range p.info.Defs {
		if id.Name == name {
			if c, ok := obj.(*types.Const); ok {
				return c.Val()
			}
		}
	}
	die("constant %s not found", name)
	return nil
}

func (p *pkgInfo) funcDecl(recv, name string) *ast.FuncDecl {
	for _, f := range p.files {
		for _, d := range f.Decls {
			fd, ok := d.(*ast.FuncDecl)
			if !ok || fd.Name.Name != name {
				continue
			}
			r := ""
			if fd.Recv != nil && len(fd.Recv.List) == 1 {
				t := fd.Recv.List[0].Type
				if s, ok := t.(*ast.StarExpr); ok {
					t = s.X
				}
				if id, ok := t.(*ast.Ident); ok {
					r = id.Name
				}
			}
			if r == recv {
				return fd
			}
		}
	}
	die("func %s.%s not found", recv, name)
	return nil
}

func strLit(e ast.Expr) (string, bool) {
	switch v := e.(type) {
	case *ast.BasicLit:
		if v.Kind == token.STRING {
			s, err := strconv.Unquote(v.Value)
			return s, err == nil
		}
	case *ast.BinaryExpr:
		if v.Op == token.ADD {
			a, ok1 := strLit(v.X)
			b, ok2 := strLit(v.Y)
			return a + b, ok1 && ok2
		}
	case *ast.ParenExpr:
		return strLit(v.X)
	}
	return "", false
}

// package-level `name = regexp.MustCompile(lit)` and `name = []byte(lit)`.
func (p *pkgInfo) varLiterals() (res map[string]string, byt map[string]string) {
	res, byt = map[string]string{}, map[string]string{}
	for _, f := range p.files {
		for _, d := range f.Decls {
			gd, ok := d.(*ast.GenDecl)
			if !ok || gd.Tok != token.VAR {
				continue
			}
			for _, sp := range gd.Specs {
				vs := sp.(*ast.ValueSpec)
				for i, n := range vs.Names {
					if i >= len(vs.Values) {
						continue
					}
					call, ok := vs.Values[i].(*ast.CallExpr)
					if !ok || len(call.Args) != 1 {
						continue
					}
					lit, ok := strLit(call.Args[0])
					if !ok {
						continue
					}
					switch fn := call.Fun.(type) {
					case *ast.SelectorExpr:
						if x, ok := fn.X.(*ast.Ident); ok && x.Name == "regexp" && fn.Sel.Name == "MustCompile" {
							res[n.Name] = lit
						}
					case *ast.ArrayType:
						byt[n.Name] = lit
					}
				}
			}
		}
	}
	return
}

// enumOrder lists the constants of a named type in value order.
func (p *pkgInfo) enumOrder(typ string) []string {
	type kv struct {
		n string
		v int64
	}
	var l []kv
	for id, obj := range p.info.Defs {
		c, ok := obj.(*types.Const)
		if !ok {
			continue
		}
		if named, ok := c.Type().(*types.Named); ok && named.Obj().Name() == typ && named.Obj().Pkg() == p.pkg {
			v, _ := constant.Int64Val(c.Val())
			l = append(l, kv{id.Name, v})
		}
	}
	sort.Slice(l, func(i, j int) bool { return l[i].v < l[j].v })
	var o []string
	for i, e := range l {
		if int64(i) != e.v {
			die("enum %s is not dense: %s=%d", typ, e.n, e.v)
		}
		o = append(o, e.n)
	}
	return o
}

// transitions: for each `case X:` of the switch on s.state in scan, the targets
// of `s.state = Y`, whether the clause ends in fallthrough and the number of
// explicit panics.
func (p *pkgInfo) transitions() (rows []string, pre []string) {
	fd := p.funcDecl("scanningState", "scan")
	var sw *ast.SwitchStmt
	for _, st := range fd.Body.List {
		if s, ok := st.(*ast.SwitchStmt); ok {
			if sel, ok := s.Tag.(*ast.SelectorExpr); ok && sel.Sel.Name == "state" {
				sw = s
			} 
		} else {
			ast.Inspect(st, func(n ast.Node) bool {
				if as, ok := n.(*ast.AssignStmt); ok && len(as.Lhs) == 1 {
					if sel, ok := as.Lhs[0].(*ast.SelectorExpr); ok && sel.Sel.Name == "state" {
						if id, ok := as.Rhs[0].(*ast.Ident); ok {
							pre = append(pre, id.Name)
						}
					}
				}
				return true
			})
		}
	}
	if sw == nil {
		die("switch s.state not found in scan")
	}
	for _, c := range sw.Body.List {
		cc := c.(*ast.CaseClause)
		label := "default"
		if len(cc.List) > 0 {
			var ls []string
			for _, e := range cc.List {
				ls = append(ls, e.(*ast.Ident).Name)
			}
			label = strings.Join(ls, ",")
		}
		targets := map[string]bool{}
		panics := 0
		ft := false
		for _, st := range cc.Body {
			if b, ok := st.(*ast.BranchStmt); ok && b.Tok == token.FALLTHROUGH {
				ft = true
			}
			ast.Inspect(st, func(n ast.Node) bool {
				switch v := n.(type) {
				case *ast.AssignStmt:
					if len(v.Lhs) == 1 {
						if sel, ok := v.Lhs[0].(*ast.SelectorExpr); ok && sel.Sel.Name == "state" {
							if id, ok := v.Rhs[0].(*ast.Ident); ok {
								targets[id.Name] = true
							}
						}
					}
				case *ast.CallExpr:
					if id, ok := v.Fun.(*ast.Ident); ok && id.Name == "panic" {
						panics++
					}
				}
				return true
			})
		}
		var ts []string
		for t := range targets {
			ts = append(ts, t)
		}
		sort.Strings(ts)
		rows = append(rows, fmt.Sprintf("(%s, [%s], %v, %d)", leanStr(label), quoteAll(ts), ft, panics))
	}
	return
}

// scanSkeleton flattens scan into the ordered list of the things that decide its behaviour: per
// clause of the state switch (and for the statements before it) which classifier is consulted
// (regexp, literal comparison, helper call, emptiness test), which state is assigned, what is
// returned, in source order.  A reordering, a dropped test or an added shortcut changes it.
func (p *pkgInfo) scanSkeleton() []string {
	fd := p.funcDecl("scanningState", "scan")
	tokensOf := func(nodes []ast.Stmt) []string {
		var out []string
		for _, st := range nodes {
			ast.Inspect(st, func(n ast.Node) bool {
				switch v := n.(type) {
				case *ast.SwitchStmt:
					if sel, ok := v.Tag.(*ast.SelectorExpr); ok && sel.Sel.Name == "state" {
						return false
					}
				case *ast.BranchStmt:
					out = append(out, strings.ToLower(v.Tok.String()))
				case *ast.AssignStmt:
					if len(v.Lhs) == 1 {
						if sel, ok := v.Lhs[0].(*ast.SelectorExpr); ok && sel.Sel.Name == "state" {
							if id, ok := v.Rhs[0].(*ast.Ident); ok {
								out = append(out, "->"+id.Name)
							}
						}
					}
				case *ast.ReturnStmt:
					var rs []string
					for _, r := range v.Results {
						switch x := r.(type) {
						case *ast.Ident:
							rs = append(rs, x.Name)
						default:
							rs = append(rs, "expr")
						}
					}
					out = append(out, "ret("+strings.Join(rs, ",")+")")
				case *ast.BinaryExpr:
					if sel, ok := v.X.(*ast.SelectorExpr); ok && sel.Sel.Name == "state" {
						if id, ok := v.Y.(*ast.Ident); ok {
							out = append(out, "state"+v.Op.String()+id.Name)
						}
					}
					if c, ok := v.X.(*ast.CallExpr); ok {
						if id, ok := c.Fun.(*ast.Ident); ok && id.Name == "len" {
							if lit, ok := v.Y.(*ast.BasicLit); ok && lit.Value == "0" {
								if a, ok := c.Args[0].(*ast.Ident); ok {
									out = append(out, "len("+a.Name+")"+v.Op.String()+"0")
								}
							}
						}
					}
				case *ast.CallExpr:
					switch f := v.Fun.(type) {
					case *ast.SelectorExpr:
						if x, ok := f.X.(*ast.Ident); ok {
							switch {
							case strings.HasPrefix(x.Name, "re") && (f.Sel.Name == "FindSubmatch" || f.Sel.Name == "Match"):
								out = append(out, "re:"+x.Name)
							case x.Name == "bytes" && len(v.Args) == 2:
								if b, ok := v.Args[1].(*ast.Ident); ok {
									out = append(out, "bytes."+f.Sel.Name+":"+b.Name)
								} else {
									out = append(out, "bytes."+f.Sel.Name)
								}
							case x.Name == "errors" || x.Name == "fmt":
								out = append(out, "err")
							}
						}
					case *ast.Ident:
						switch f.Name {
						case "parseFunc", "parseFile", "parseArgs", "isFramesElidedLine", "atou", "trimLeftSpace", "panic":
							out = append(out, "call:"+f.Name)
						}
					}
				}
				return true
			})
		}
		return out
	}
	var rows []string
	var pre []ast.Stmt
	var sw *ast.SwitchStmt
	for _, st := range fd.Body.List {
		if s, ok := st.(*ast.SwitchStmt); ok {
			if sel, ok := s.Tag.(*ast.SelectorExpr); ok && sel.Sel.Name == "state" {
				sw = s
				continue
			}
		}
		if sw == nil {
			pre = append(pre, st)
		}
	}
	if sw == nil {
		die("switch s.state not found in scan")
	}
	rows = append(rows, fmt.Sprintf("(%s, [%s])", leanStr("<before the switch>"), quoteAll(tokensOf(pre))))
	for _, c := range sw.Body.List {
		cc := c.(*ast.CaseClause)
		label := "default"
		if len(cc.List) > 0 {
			var ls []string
			for _, e := range cc.List {
				ls = append(ls, e.(*ast.Ident).Name)
			}
			label = strings.Join(ls, ",")
		}
		rows = append(rows, fmt.Sprintf("(%s, [%s])", leanStr(label), quoteAll(tokensOf(cc.Body))))
	}
	return rows
}

func quoteAll(ss []string) string {
	var q []string
	for _, s := range ss {
		q = append(q, leanStr(s))
	}
	return strings.Join(q, ", ")
}

// globalWrites lists assignments to package-level variables outside their
// declaration (and outside init functions).
func (p *pkgInfo) globalWrites() []string {
	globals := map[types.Object]bool{}
	for _, n := range p.pkg.Scope().Names() {
		if v, ok := p.pkg.Scope().Lookup(n).(*types.Var); ok {
			globals[v] = true
		}
	}
	var w []string
	for _, f := range p.files {
		for _, d := range f.Decls {
			fd, ok := d.(*ast.FuncDecl)
			if !ok || fd.Body == nil {
				continue
			}
			ast.Inspect(fd.Body, func(n ast.Node) bool {
				rec := func(e ast.Expr) {
					for {
						switch v := e.(type) {
						case *ast.IndexExpr:
							e = v.X
							continue
						case *ast.SelectorExpr:
							e = v.X
							continue
						case *ast.StarExpr:
							e = v.X
							continue
						case *ast.ParenExpr:
							e = v.X
							continue
						case *ast.Ident:
							if obj := p.info.Uses[v]; obj != nil && globals[obj] {
								w = append(w, fd.Name.Name+":"+v.Name)
							}
						}
						return
					}
				}
				switch v := n.(type) {
				case *ast.AssignStmt:
					if v.Tok != token.DEFINE {
						for _, l := range v.Lhs {
							rec(l)
						}
					}
				case *ast.IncDecStmt:
					rec(v.X)
				}
				return true
			})
		}
	}
	sort.Strings(w)
	return w
}

func toUpperTable() string {
	// code points with unicode.ToUpper(r) != r, as (lo, hi, stride) runs
	var pts []int
	for r := rune(0); r <= unicode.MaxRune; r++ {
		if unicode.ToUpper(r) != r {
			pts = append(pts, int(r))
		}
	}
	var rows []string
	for i := 0; i < len(pts); {
		j := i
		stride := 1
		if i+1 < len(pts) {
			stride = pts[i+1] - pts[i]
			if stride > 2 {
				stride = 1
			} else {
				j = i + 1
				for j+1 < len(pts) && pts[j+1]-pts[j] == stride {
					j++
				}
			}
		}
		rows = append(rows, fmt.Sprintf("(%d, %d, %d)", pts[i], pts[j], stride))
		i = j + 1
	}
	return fmt.Sprintf("def toUpperDiffers : List (Nat × Nat × Nat) := [\n  %s]\ndef toUpperDiffersCount : Nat := %d", strings.Join(rows, ",\n  "), len(pts))
}

func main() {
	repo := flag.String("repo", "/repo", "repository root")
	dst := flag.String("o", "", "output file")
	trDst := flag.String("translated", "", "output file of the translator (default: Translated.lean next to -o)")
	flag.Parse()
	st := load(filepath.Join(*repo, "stack"), "github.com/maruel/panicparse/v2/stack")
	in := load(filepath.Join(*repo, "internal"), "github.com/maruel/panicparse/v2/internal")

	fmt.Fprintf(&out, "/- GENERATED by /verif/extract from %s — do not edit. -/\nnamespace PP.Extracted\n\n", *repo)

	res, byt := st.varLiterals()
	var names []string
	for n := range res {
		names = append(names, n)
	}
	sort.Strings(names)
	for _, n := range names {
		fmt.Fprintf(&out, "/-- %s -/\ndef %s : List UInt8 := %s\n", strings.ReplaceAll(res[n], "-/", "- /"), n, leanBytes(res[n]))
	}
	fmt.Fprintf(&out, "def regexpNames : List String := [%s]\n\n", quoteAll(names))
	names = names[:0]
	for n := range byt {
		names = append(names, n)
	}
	sort.Strings(names)
	for _, n := range names {
		fmt.Fprintf(&out, "def %s : List UInt8 := %s\n", n, leanBytes(byt[n]))
	}
	fmt.Fprintf(&out, "def byteLiteralNames : List String := [%s]\n\n", quoteAll(names))

	// isFramesElidedLine literals
	var elided []string
	ast.Inspect(st.funcDecl("", "isFramesElidedLine"), func(n ast.Node) bool {
		if l, ok := n.(*ast.BasicLit); ok && l.Kind == token.STRING {
			s, _ := strconv.Unquote(l.Value)
			elided = append(elided, s)
		}
		return true
	})
	fmt.Fprintf(&out, "def framesElidedLiterals : List (List UInt8) := [%s]\n\n", func() string {
		var q []string
		for _, s := range elided {
			q = append(q, leanBytes(s))
		}
		return strings.Join(q, ", ")
	}())

	// numeric constants
	u := func(name string) string { v := st.constVal(name); return v.ExactString() }
	fmt.Fprintf(&out, "def pointerFloor : Nat := %s\ndef pointerCeiling : Nat := %s\ndef maxDepth : Nat := %s\ndef lastLocation : Nat := %s\n", u("pointerFloor"), u("pointerCeiling"), u("maxDepth"), u("lastLocation"))
	fmt.Fprintf(&out, "def testMainSrc : List UInt8 := %s\n", leanBytes(constant.StringVal(st.constVal("testMainSrc"))))
	// reader buffer size
	bufSize := ""
	for id, obj := range st.info.Defs {
		if id.Name == "buf" {
			if v, ok := obj.(*types.Var); ok && v.IsField() {
				if a, ok := v.Type().(*types.Array); ok {
					bufSize = fmt.Sprint(a.Len())
				}
			}
		}
	}
	if bufSize == "" {
		die("reader.buf not found")
	}
	fmt.Fprintf(&out, "def readerBufSize : Nat := %s\n", bufSize)
	// retry bound of fill: the number of iterations of the counted loop around
	// the Read call, whichever way it counts
	retry := ""
	ast.Inspect(st.funcDecl("reader", "fill"), func(n ast.Node) bool {
		f, ok := n.(*ast.ForStmt)
		if !ok || f.Init == nil || f.Cond == nil || f.Post == nil {
			return true
		}
		hasRead := false
		ast.Inspect(f.Body, func(m ast.Node) bool {
			if c, ok := m.(*ast.CallExpr); ok {
				if sel, ok := c.Fun.(*ast.SelectorExpr); ok && sel.Sel.Name == "Read" {
					hasRead = true
				}
			}
			return true
		})
		as, ok1 := f.Init.(*ast.AssignStmt)
		cond, ok2 := f.Cond.(*ast.BinaryExpr)
		post, ok3 := f.Post.(*ast.IncDecStmt)
		if !hasRead || !ok1 || !ok2 || !ok3 || len(as.Rhs) != 1 {
			return true
		}
		val := func(e ast.Expr) (int64, bool) {
			if tv, ok := st.info.Types[e]; ok && tv.Value != nil {
				return constant.Int64Val(tv.Value)
			}
			return 0, false
		}
		a, okA := val(as.Rhs[0])
		bnd, okB := val(cond.Y)
		if !okA || !okB {
			return true
		}
		var cnt int64 = -1
		switch {
		case post.Tok == token.DEC && cond.Op == token.GTR:
			cnt = a - bnd
		case post.Tok == token.DEC && cond.Op == token.GEQ:
			cnt = a - bnd + 1
		case post.Tok == token.INC && cond.Op == token.LSS:
			cnt = bnd - a
		case post.Tok == token.INC && cond.Op == token.LEQ:
			cnt = bnd - a + 1
		}
		if cnt >= 0 {
			retry = fmt.Sprint(cnt)
		}
		return true
	})
	if retry == "" {
		die("retry bound of fill not found: no counted loop with constant bounds around the Read call")
	}
	fmt.Fprintf(&out, "def readerRetry : Nat := %s\n", retry)
	// atou length bound on 64 bit: the largest constant compared with l
	atouMax := int64(0)
	ast.Inspect(st.funcDecl("", "atou"), func(n ast.Node) bool {
		if b, ok := n.(*ast.BinaryExpr); ok && b.Op == token.LSS {
			if tv, ok := st.info.Types[b.Y]; ok && tv.Value != nil {
				if v, ok := constant.Int64Val(tv.Value); ok && v > atouMax {
					atouMax = v
				}
			}
		}
		return true
	})
	fmt.Fprintf(&out, "def atouMaxLen : Nat := %d\n\n", atouMax)

	fmt.Fprintf(&out, "def stateOrder : List String := [%s]\n", quoteAll(st.enumOrder("state")))
	fmt.Fprintf(&out, "def similarityOrder : List String := [%s]\n", quoteAll(st.enumOrder("Similarity")))
	fmt.Fprintf(&out, "def locationOrder : List String := [%s]\n", quoteAll(st.enumOrder("Location")))
	fmt.Fprintf(&out, "def pathFormatOrder : List String := [%s]\n\n", quoteAll(in.enumOrder("pathFormat")))

	rows, pre := st.transitions()
	fmt.Fprintf(&out, "/-- (case labels, targets of `s.state = …`, ends in fallthrough, explicit panics) per clause of scan's switch -/\ndef scanTransitions : List (String × List String × Bool × Nat) := [\n  %s]\n", strings.Join(rows, ",\n  "))
	fmt.Fprintf(&out, "/-- `s.state = …` assignments of scan before the switch -/\ndef scanPreSwitchTargets : List String := [%s]\n\n", quoteAll(pre))
	fmt.Fprintf(&out, "/-- per clause of scan's switch (and for the code before it): classifiers consulted, states assigned, returns, in source order -/\ndef scanSkeleton : List (String × List String) := [\n  %s]\n\n", strings.Join(st.scanSkeleton(), ",\n  "))

	fmt.Fprintf(&out, "/-- assignments to package-level variables inside function bodies, as func:var -/\ndef stackGlobalWrites : List String := [%s]\ndef internalGlobalWrites : List String := [%s]\n\n", quoteAll(st.globalWrites()), quoteAll(in.globalWrites()))

	fmt.Fprintf(&out, "/-- functions containing a `go` statement -/\ndef stackGoStmts : List String := [%s]\ndef internalGoStmts : List String := [%s]\n\n", quoteAll(st.goStmts()), quoteAll(in.goStmts()))
	// the functions reachable (by calls or references) from Aggregate, ToHTML,
	// the methods the HTML template calls by name, and the console writers: a new
	// helper added to a merge or render path is covered automatically, a helper
	// of the scanner is not.
	stackFns := st.reachable([]string{"Snapshot.Aggregate", "Aggregated.ToHTML", "Snapshot.ToHTML", "Snapshot.IsRace",
		"Arg.String", "Args.String", "Signature.SleepString", "Func.String", "Location.String"})
	internalFns := in.reachable([]string{"writeBucketsToConsole", "writeGoroutinesToConsole", "Palette.BucketHeader", "Palette.GoroutineHeader",
		"Palette.StackLines", "Palette.callLine", "calcBucketsLengths", "calcGoroutinesLengths"})
	var reach []string
	for n := range stackFns {
		reach = append(reach, n)
	}
	sort.Strings(reach)
	fmt.Fprintf(&out, "/-- functions of package stack reachable from Aggregate / ToHTML / String methods -/\ndef stackRenderReachable : List String := [%s]\n", quoteAll(reach))
	fmt.Fprintf(&out, "/-- writes through anything but a plain local in the functions reachable from Aggregate / ToHTML / the console writers: func | expression | origin of the root variable -/\ndef stackWriteSet : List String := [%s]\ndef internalWriteSet : List String := [%s]\n", quoteAll(st.writeSet(stackFns)), quoteAll(in.writeSet(internalFns)))
	fmt.Fprintf(&out, "/-- every package-level variable (name and type): the only storage that outlives a call -/\ndef stackGlobalVars : List String := [%s]\ndef internalGlobalVars : List String := [%s]\n\n", quoteAll(st.globalVars()), quoteAll(in.globalVars()))
	fmt.Fprintf(&out, "/-- statements that write into, permute, copy over or append to the slice Opts.LocalGOPATHs / Snapshot.LocalGOPATHs (shared with the caller's Opts): func | expression -/\ndef stackGopathsWrites : List String := [%s]\n\n", quoteAll(st.sharedSliceWrites("LocalGOPATHs")))
	fmt.Fprintf(&out, "/-- the same, reduced to what matters: (func | origin) of every write whose root is NOT a value created in that call -/\ndef stackNonFreshWrites : List String := [%s]\ndef internalNonFreshWrites : List String := [%s]\n\n", quoteAll(nonFresh(st.writeSet(stackFns))), quoteAll(nonFresh(in.writeSet(internalFns))))

	webFacts(*repo)
	templateFacts(*repo)

	fmt.Fprintf(&out, "%s\n\nend PP.Extracted\n", toUpperTable())

	if *dst == "" {
		os.Stdout.Write(out.Bytes())
		return
	}
	// the translator's output (tie A, second half): written only when it changed
	if *trDst == "" {
		*trDst = filepath.Join(filepath.Dir(*dst), "Translated.lean")
	}
	for _, g := range []struct{ path, text string }{
		{*trDst, st.translate()},
		{strings.TrimSuffix(*trDst, ".lean") + "Scan.lean", st.translateScan()},
		{strings.TrimSuffix(*trDst, ".lean") + "Html.lean", st.translateHtml()},
		{strings.TrimSuffix(*trDst, ".lean") + "Ui.lean", translateUi(loadUi(*repo))},
		{strings.TrimSuffix(*trDst, ".lean") + "Roots.lean", st.translateRoots()},
		{strings.TrimSuffix(*trDst, ".lean") + "ScanSM.lean", st.translateScanSM()},
		{strings.TrimSuffix(*trDst, ".lean") + "Agg.lean", st.translateAgg()},
		{strings.TrimSuffix(*trDst, ".lean") + "Web.lean", translateWeb(loadWeb(*repo))},
		{strings.TrimSuffix(*trDst, ".lean") + "Func.lean", st.translateFunc()},
		{strings.TrimSuffix(*trDst, ".lean") + "Args.lean", st.translateArgs()},
		{strings.TrimSuffix(*trDst, ".lean") + "Cli.lean", translateCli(loadUi(*repo))},
		{strings.TrimSuffix(*trDst, ".lean") + "Misc.lean", st.translateMisc()},
		{strings.TrimSuffix(*trDst, ".lean") + "Aug.lean", st.translateAug()},
		{strings.TrimSuffix(*trDst, ".lean") + "Reader.lean", st.translateReader()},
		{strings.TrimSuffix(*trDst, ".lean") + "Names.lean", st.translateNames()},
		{strings.TrimSuffix(*trDst, ".lean") + "Glue.lean", st.translateGlue()},
	} {
		if old, err := os.ReadFile(g.path); err != nil || !bytes.Equal(old, []byte(g.text)) {
			if err := os.WriteFile(g.path, []byte(g.text), 0o644); err != nil {
				die("%v", err)
			}
		}
	}
	if old, err := os.ReadFile(*dst); err == nil && bytes.Equal(old, out.Bytes()) {
		return
	}
	if err := os.WriteFile(*dst, out.Bytes(), 0o644); err != nil {
		die("%v", err)
	}
}
