// translate_glue.go — the group `Glue`: the source-analysis glue of stack/source.go around augmentCall:
// (*parsedFile).getFuncAST, (*cacheAST).loadFile, (*cacheAST).augmentGoroutine, and (*Snapshot).augment of
// stack/context.go.
//
// Generated file: lean/PP/TranslatedGlue.lean (namespace PP.TrG, its own Env); run-time support:
// lean/PP/Go/PreludeGlue.lean; agreement with the hand-written models PP/Model/FuncAt.lean and
// PP/Model/AugmentGlue.lean: lean/PP/Tie/TranslatedGlue.lean.
//
// Like groups ScanSM and Aug this group has its OWN statement/expression translator (type glT): a whitelist that
// shares only spelling helpers (lid, leanBytes, leanStr, atom, unparen, smIndent, trFail, pkgInfo.funcDecl) with the
// other groups; there is no hook in translate.go.  Everything that is not listed here makes the translation of the
// group fail by name (`translation_failed`).  A Go function is a non-recursive `def f (E : Env) args : Option τ`
// (`none` = a Go run-time panic); calls of the group's functions and of the environment go through `E`.
//
// What is translated, and what each construct ASSUMES (sound or refuse):
//
//   - Values.  bool = Bool, string = []byte = Bytes, []int = List Nat, error = Option AugGlue.ErrKind (nil = none).
//     int = Nat: ASSUMES the int parameters are not negative (`l` of getFuncAST is Call.Line, which the scanner
//     only produces as a natural; PP/Model/AugmentGlue.lean makes the same assumption) and that the elements of a
//     []int are not negative (they are produced by lineToByteOffsets only).  The only int operations translated are
//     decimal literals, `len`, `a + b` (ASSUMES no overflow: the one use is `l+1` behind `len(xs) <= l` being false),
//     comparisons, and indexing `xs[i]` (`xs[i]?`: out of range = panic = `none`).  A subtraction is accepted only
//     inside an operand of fmt.Errorf, which is dropped.
//   - `x := math.MaxInt` makes x an "int with top": `Option Nat`, `none` = math.MaxInt; `x = e` is `some e`; the only
//     use allowed is `e <= x` (`goLeTop e x`, true when x is the top: every int is <= math.MaxInt).
//   - Pointers.  The pointer receiver `p *parsedFile` is a VALUE `GParsedFile` (field for field): ASSUMES a non-nil
//     receiver (the one caller calls it under `p != nil`; the translated call site matches on the pointer, nil =
//     `none`).  `*parsedFile` elsewhere is `Option GParsedFile` (nil = none).  Sound as values because NO field of a
//     parsedFile is ever assigned in this group (the only assignments accepted are to locals and to `c.m[k]` on the
//     receiver) and a parsedFile is only created by a composite literal stored directly into the map.
//     `*ast.File` is the tree `FA.Node` (ASSUMES non-nil: only what parser.ParseFile returned without error is
//     stored), `ast.Node` is `Option FA.Node` (nil interface = none), `*ast.FuncDecl` is `Option Nat`: the
//     declaration's identity `FA.Node.decl` (nil = none).  `n.Pos()` is `goPos n` (nil interface = panic),
//     `f, ok := n.(*ast.FuncDecl)` is `goAsFuncDecl n`, `goIsFuncDecl n` (comma-ok: no panic, nil = false).
//   - The receiver `c *cacheAST` of a method that assigns `c.m[k] = v` is threaded as a value `GCache` and returned
//     with the result (`Option (GCache × result)`).  Maps are association lists with distinct keys (PreludeGlue:
//     goMapSet overwrites in place or appends, goMapHas, goMapGet = zero value when absent); ASSUMES the two maps are
//     not nil (they are made by the composite literal in (*Snapshot).augment).  No map is ever ranged over.
//   - Local function literal passed to ast.Inspect: a definition of its own `f_litN (E) captured… state… n` with
//     EXPLICIT STATE: captured variables that the literal only reads are parameters, those it assigns are the state,
//     returned with the result (`Option (σ × Bool)`); `ast.Inspect(root, lit)` is `goInspect` (PreludeGlue: pre-order,
//     `f(node)`, if true the children then `f(nil)`), after which the state variables are rebound.  Checked: the
//     literal has one `ast.Node` parameter and a bool result, contains no other literal, no loop, no call of the
//     group; it is used nowhere else (it is an argument, not a variable).
//   - Statements: `var x T`, `x := e`, `x = e` (locals only), `if [init;] cond {…} [else …]` (the rest of the block is
//     translated again inside every branch that falls through: no join points; a function literal in such a copy is
//     emitted once if the copies are identical; `if cond { x = y }` with cond free of panics is
//     `let x := if cond then y else x`), `return`, bare `return` with named results.  `&&` short-circuits; operands
//     that can panic are bound left to right (every panic is `none`, no expression has a side effect).
//   - `for i, x := range PATH { … }` with `continue` (no return/break/nested loop/literal inside): the body is a
//     definition of its own `f_loopN (E) readonly… i state…`, the outer variables the body assigns being the state;
//     the loop is `goForN body len(PATH) state` (PreludeGlue), the length taken before the loop.  The element is read
//     from the CURRENT value of PATH at the start of each iteration — what Go does, the range copy of the slice
//     header sharing its backing array — sound because the slice header itself is never assigned in the body (the
//     only writes to the path accepted are the element write-backs below).  Over `g.Stack.Calls` ([]Call) the value
//     variable is a COPY (a Lean value; what augmentCall later writes to the element does not reach it, and the
//     memory the copy shares with the element — the backing arrays of Args.Values — is not written by augmentCall:
//     checked in group Aug).  Over `s.Goroutines` ([]*Goroutine) the value variable is an ALIAS of the element:
//     ASSUMES the pointers are not nil and pairwise distinct.
//   - The `*Goroutine` parameter and the `*Snapshot` receiver are the model's records (PP/Model/Types.lean,
//     Roots.lean) as values, threaded and returned with the result (ASSUMES non-nil).  Calls:
//     `err1 := c.loadFile(e)` (the receiver is written back), `f, err1 := p.getFuncAST(a, b)` with p a nilable
//     pointer (nil = `none`: the callee dereferences it first), `augmentCall(&g.Stack.Calls[i], f)` =
//     `E.augmentCall` of the element and the declaration's identity, the result written back to element i
//     (`goSetCall`; a nil f is `none`: augmentCall dereferences it first), `err1 := c.augmentGoroutine(g)` with g
//     the alias of `s.Goroutines[i]` (cache and element written back, `goSetGoroutine`).
//     `c := cacheAST{files: map…{}, parsed: map…{}}` (both maps, empty) is a local cache whose methods are called
//     on its address.
//   - Names.  A Go local keeps its name in Lean (an assignment is a shadowing `let`); every use is checked to
//     resolve to the innermost Lean binding of that name being the same Go variable (types.Object identity) —
//     bindings of an `if` init stay in scope in the emitted term for the inlined rest of the block, so a later use
//     of a variable they hide is refused, not mis-translated.  Refused: names starting with `_`, containing `__`, or
//     used by the generated terms (glReserved).
//   - Errors are tags of the model's `AugGlue.ErrKind`, pinned to their format strings by the table glErrTag; the
//     table as read from the source is emitted as `errorSites` and pinned in the Tie file.  The operands of
//     fmt.Errorf are DROPPED (they must be free of panics and effects: variables, len, + and - of those).
//   - Environment (oracles of Env): `src, err := os.ReadFile(name)` = `E.readFile name : Option Bytes` (none = an
//     error, tag `.read`), `parsed, err := parser.ParseFile(fset, name, src, 0)` with `fset := token.NewFileSet()`
//     = `E.parseFile name src : Option FA.Node` (none = an error).  Both only in the idiom
//     `x, err := …; if err != nil { …return… }` where the body does not mention x (what the call returns next to a
//     non-nil error is not modelled) and, for ParseFile, mentions err only as an operand of fmt.Errorf.
//     lineToByteOffsets (group Misc) = `E.lineToByteOffsets`, strings.HasSuffix = hasSuffix.
package main

import (
	"fmt"
	"go/ast"
	"go/token"
	"go/types"
	"sort"
	"strconv"
	"strings"
)

var trFuncsGlue = [][2]string{{"parsedFile", "getFuncAST"}, {"cacheAST", "loadFile"}, {"cacheAST", "augmentGoroutine"}, {"Snapshot", "augment"}}

// format string -> constructor of AugGlue.ErrKind
var glErrTag = map[string]string{
	"cannot load non-go file %q":       "nonGo",
	"failed to parse %w":               "parse",
	"line %d is over line count of %d": "lineOver",
	"<the error of os.ReadFile>":       "read",
	"<the error of parser.ParseFile>":  "parse",
}

var glReserved = map[string]bool{"E": true, "some": true, "none": true, "decide": true, "true": true, "false": true,
	"hasSuffix": true, "goInspect": true, "goPos": true, "goIsFuncDecl": true, "goAsFuncDecl": true, "goLeTop": true,
	"goMapHas": true, "goForN": true, "goSetGoroutine": true, "Snapshot": true, "goSetCall": true, "Stack": true, "Args": true, "Func": true, "goMapGet": true, "goMapSet": true, "Option": true, "Nat": true, "List": true, "Bytes": true,
	"Bool": true, "GParsedFile": true, "GCache": true, "FA": true, "AugGlue": true, "default": true, "Unit": true,
	"forIdxG": true, "Call": true, "Goroutine": true, "PP": true, "Go": true}

type glVar struct {
	obj  types.Object
	name string
	typ  string // Lean type
	top  bool   // an int initialised with math.MaxInt: Option Nat, none = math.MaxInt
	// the value variable of a range over a slice of pointers: an alias of ROOT.goroutines[idx]
	aliasRoot types.Object
	aliasIdx  string
}

type glT struct {
	p       *pkgInfo
	fn      string
	scope   []*glVar
	defs    *[]string
	tmp     *int
	nlit    *int
	sites   *[][2]string
	ret     func(n *ast.ReturnStmt) string
	inLit   bool
	lits    map[string]string       // text of a literal's definition -> its name
	recvObj types.Object            // the threaded receiver (GCache), nil if none
	thr     []types.Object          // the threaded variables (receiver, *Goroutine parameter), returned with the result
	cont    func(n ast.Node) string // `continue`; nil = refused here
}

// Go field -> Lean field and Lean type, for the records of the model (PP/Model/Types.lean)
var glFields = map[string][2]string{
	"Snapshot.Goroutines": {"goroutines", "List Goroutine"},
	"Goroutine.Stack":     {"sig.stack", "Stack"}, "Stack.Calls": {"calls", "List Call"},
	"Call.LocalSrcPath": {"localSrcPath", "Bytes"}, "Call.Args": {"args", "Args"}, "Args.Values": {"values", "List Arg"},
	"Call.Func": {"fn", "Func"}, "Func.Name": {"name", "Bytes"}, "Call.Line": {"line", "Nat"},
}

// path: a chain of field selections rooted at a local variable or at an element PATH[i] of a []Call:
// (term, Lean type, pure); an element read can panic
func (t *glT) path(e ast.Expr) (string, string, bool) {
	switch x := unparen(e).(type) {
	case *ast.Ident:
		if _, isVar := t.p.info.ObjectOf(x).(*types.Var); isVar {
			v := t.use(x)
			return v.name, v.typ, true
		}
	case *ast.SelectorExpr:
		b, ty, pure := t.path(x.X)
		f, ok := glFields[ty+"."+x.Sel.Name]
		sel := t.p.info.Selections[x]
		if !ok || sel == nil || sel.Kind() != types.FieldVal {
			t.fail(x, "field %s of a %s", x.Sel.Name, ty)
		}
		depth := 1
		if ty == "Goroutine" {
			depth = 2 // promoted through the embedded Signature
		}
		if len(sel.Index()) != depth {
			t.fail(x, "field %s of a %s: unexpected embedding", x.Sel.Name, ty)
		}
		if pure {
			return b + "." + f[0], f[1], true
		}
		v := t.fresh()
		return "match " + glScrut(b) + " with\n| none => none\n| some " + v + " =>\nsome " + v + "." + f[0], f[1], false
	case *ast.IndexExpr:
		b, ty, pure := t.path(x.X)
		i, pi := t.expr(x.Index, "")
		if ty != "List Call" || !pure || !pi || !t.isInt(x.Index) {
			t.fail(x, "element of a %s", ty)
		}
		return b + "[" + atom(i) + "]?", "Call", false
	}
	t.fail(e, "path %s", types.ExprString(e))
	return "", "", false
}

func (t *glT) fail(n ast.Node, f string, a ...interface{}) {
	pos := t.p.fset.Position(n.Pos())
	panic(trFail{fmt.Sprintf("%s:%d: %s", pos.Filename[strings.LastIndex(pos.Filename, "/")+1:], pos.Line, fmt.Sprintf(f, a...))})
}

func (t *glT) fresh() string {
	*t.tmp++
	return fmt.Sprintf("t__%d", *t.tmp)
}

func glTypeStr(ty types.Type) string {
	return types.TypeString(ty, func(p *types.Package) string { return p.Name() })
}

// leanType: the Lean type of a Go type (local variables, parameters, results)
func (t *glT) leanType(n ast.Node, ty types.Type) string {
	switch glTypeStr(ty) {
	case "int":
		return "Nat"
	case "string", "[]byte":
		return "Bytes"
	case "bool":
		return "Bool"
	case "error":
		return "Option AugGlue.ErrKind"
	case "[]int":
		return "List Nat"
	case "*ast.FuncDecl":
		return "Option Nat"
	case "ast.Node":
		return "Option FA.Node"
	case "*ast.File":
		return "FA.Node"
	case "*stack.parsedFile":
		return "Option GParsedFile"
	case "stack.Call":
		return "Call"
	}
	t.fail(n, "type %s is not translated in group Glue", glTypeStr(ty))
	return ""
}

func glZero(typ string) string {
	switch {
	case strings.HasPrefix(typ, "Option "):
		return "none"
	case typ == "Nat":
		return "0"
	case typ == "Bool":
		return "false"
	case typ == "Bytes" || strings.HasPrefix(typ, "List "):
		return "[]"
	}
	return ""
}

func (t *glT) checkName(n ast.Node, name string) {
	if strings.HasPrefix(name, "_") || strings.Contains(name, "__") || glReserved[name] || strings.HasPrefix(name, t.fn+"_") {
		t.fail(n, "local name %s could capture a name of the generated term", name)
	}
	for _, f := range trFuncsGlue {
		if f[1] == name {
			t.fail(n, "local name %s hides a function of the group", name)
		}
	}
}

// declare pushes a new Lean binding of the Go variable of id
func (t *glT) declare(id *ast.Ident, typ string) *glVar {
	t.checkName(id, id.Name)
	obj := t.p.info.ObjectOf(id)
	if obj == nil {
		t.fail(id, "no object for %s", id.Name)
	}
	v := &glVar{obj: obj, name: lid(id.Name), typ: typ}
	t.scope = append(t.scope, v)
	return v
}

// use: the innermost Lean binding called like id must be the Go variable id denotes
func (t *glT) use(id *ast.Ident) *glVar {
	obj := t.p.info.ObjectOf(id)
	for i := len(t.scope) - 1; i >= 0; i-- {
		if t.scope[i].name == lid(id.Name) {
			if t.scope[i].obj != obj {
				t.fail(id, "%s: the Lean binding in scope is another variable of the same name (shadowing)", id.Name)
			}
			return t.scope[i]
		}
	}
	t.fail(id, "%s is not a local variable in scope", id.Name)
	return nil
}

// need: the variable v (by object) must be what its name resolves to now
func (t *glT) need(n ast.Node, obj types.Object) *glVar {
	for i := len(t.scope) - 1; i >= 0; i-- {
		if t.scope[i].obj == obj {
			for j := len(t.scope) - 1; j > i; j-- {
				if t.scope[j].name == t.scope[i].name && t.scope[j].obj != obj {
					t.fail(n, "%s is hidden by another variable of the same name here", t.scope[i].name)
				}
			}
			return t.scope[i]
		}
	}
	t.fail(n, "variable %s is not in scope here", obj.Name())
	return nil
}

func (t *glT) isNil(e ast.Expr) bool {
	id, ok := unparen(e).(*ast.Ident)
	if !ok {
		return false
	}
	_, isNil := t.p.info.ObjectOf(id).(*types.Nil)
	return isNil
}

func (t *glT) isInt(e ast.Expr) bool {
	b, ok := t.p.info.TypeOf(e).Underlying().(*types.Basic)
	return ok && (b.Kind() == types.Int || b.Kind() == types.UntypedInt)
}

// pkgFunc: "pkgpath.Name" of a call of a package-level function of another package, "pkg.Name" of this package
func (t *glT) callee(x *ast.CallExpr) string {
	switch f := unparen(x.Fun).(type) {
	case *ast.Ident:
		switch o := t.p.info.ObjectOf(f).(type) {
		case *types.Builtin:
			return "builtin." + o.Name()
		case *types.Func:
			if o.Pkg() == t.p.pkg {
				return "pkg." + o.Name()
			}
		case *types.TypeName:
			return "conv." + glTypeStr(o.Type())
		}
	case *ast.SelectorExpr:
		if id, ok := f.X.(*ast.Ident); ok {
			if pn, ok := t.p.info.ObjectOf(id).(*types.PkgName); ok {
				return pn.Imported().Path() + "." + f.Sel.Name
			}
		}
		if sel := t.p.info.Selections[f]; sel != nil && sel.Kind() == types.MethodVal {
			// a method called on an addressable value of type T is called on its address
			return "method.*" + strings.TrimPrefix(glTypeStr(sel.Recv()), "*") + "." + f.Sel.Name
		}
	}
	return "?"
}

// bindE translates e and hands its (atomic, pure) value to k; an operand that can panic is matched on
func (t *glT) bindE(e ast.Expr, want string, k func(v string) string) string {
	s, pure := t.expr(e, want)
	if pure {
		return k(atom(s))
	}
	v := t.fresh()
	return "match " + glScrut(s) + " with\n| none => none\n| some " + v + " =>\n" + k(v)
}

// glScrut parenthesises a scrutinee that is itself a match or an if
func glScrut(s string) string {
	if strings.Contains(s, "\n") {
		return "(" + s + ")"
	}
	return s
}

// opt: a term of type Option T
func (t *glT) opt(e ast.Expr, want string) string {
	s, pure := t.expr(e, want)
	if pure {
		return "some " + atom(s)
	}
	return s
}

// errOperand: an operand of fmt.Errorf, which is dropped: it must be free of panics and effects
func (t *glT) errOperand(e ast.Expr) {
	switch x := unparen(e).(type) {
	case *ast.Ident:
		t.use(x)
		return
	case *ast.BasicLit:
		return
	case *ast.BinaryExpr:
		if (x.Op == token.ADD || x.Op == token.SUB) && t.isInt(x.X) && t.isInt(x.Y) {
			t.errOperand(x.X)
			t.errOperand(x.Y)
			return
		}
	case *ast.CallExpr:
		if t.callee(x) == "builtin.len" {
			if _, pure := t.expr(x.Args[0], ""); pure {
				return
			}
		}
	}
	t.fail(e, "an operand of fmt.Errorf that is not a variable, a literal, len, + or -")
}

// field: `X.f` of a record value
func (t *glT) field(x *ast.SelectorExpr) (string, string, bool) {
	id, ok := unparen(x.X).(*ast.Ident)
	if !ok {
		return "", "", false
	}
	if _, isVar := t.p.info.ObjectOf(id).(*types.Var); !isVar {
		return "", "", false
	}
	v := t.use(id)
	switch v.typ + "." + x.Sel.Name {
	case "GParsedFile.lineToByteOffset":
		return v.name + ".lineToByteOffset", "List Nat", true
	case "GParsedFile.parsed":
		return v.name + ".parsed", "FA.Node", true
	case "GCache.parsed":
		return v.name + ".parsed", "map:Option GParsedFile", true
	case "GCache.files":
		return v.name + ".files", "map:Bytes", true
	}
	return "", "", false
}

// expr: (term, pure).  pure: the term has the Lean type of the value; otherwise it has type Option of it
// (`none` = panic).  want is the Lean type expected (for `nil`), "" if unknown.
func (t *glT) expr(e ast.Expr, want string) (string, bool) {
	e = unparen(e)
	switch x := e.(type) {
	case *ast.Ident:
		if t.isNil(x) {
			if !strings.HasPrefix(want, "Option ") {
				t.fail(x, "nil where the Lean type is %q", want)
			}
			return "none", true
		}
		if c, ok := t.p.info.ObjectOf(x).(*types.Const); ok && c.Parent() == types.Universe && (x.Name == "true" || x.Name == "false") {
			return x.Name, true
		}
		v := t.use(x)
		if v.top {
			t.fail(x, "%s (initialised with math.MaxInt) may only be used as the right operand of <=", x.Name)
		}
		return v.name, true
	case *ast.BasicLit:
		switch x.Kind {
		case token.INT:
			if n, err := strconv.ParseUint(x.Value, 10, 62); err == nil {
				return strconv.FormatUint(n, 10), true
			}
		case token.STRING:
			if s, err := strconv.Unquote(x.Value); err == nil {
				return leanBytes(s), true
			}
		}
		t.fail(x, "literal %s", x.Value)
	case *ast.SelectorExpr:
		if s, ty, ok := t.field(x); ok && !strings.HasPrefix(ty, "map:") {
			return s, true
		}
		ps, _, pure := t.path(x)
		return ps, pure
	case *ast.IndexExpr:
		xt := glTypeStr(t.p.info.TypeOf(x.X))
		if xt == "[]int" {
			return t.bindE(x.X, "", func(xs string) string {
				return t.bindE(x.Index, "", func(i string) string { return xs + "[" + i + "]?" })
			}), false
		}
		if strings.HasPrefix(xt, "map[string]") {
			// m[k]: the zero value when absent
			if sel, ok := unparen(x.X).(*ast.SelectorExpr); ok {
				if m, ty, ok := t.field(sel); ok && ty == "map:Option GParsedFile" {
					k, pure := t.expr(x.Index, "")
					if !pure {
						t.fail(x, "map key that can panic")
					}
					return "goMapGet " + m + " " + atom(k) + " none", true
				}
			}
		}
		t.fail(x, "index expression %s", types.ExprString(x))
	case *ast.UnaryExpr:
		if x.Op == token.AND && want == "Option GParsedFile" {
			return t.composite(x)
		}
		if x.Op == token.NOT {
			s, pure := t.expr(x.X, "")
			if pure {
				return "!" + atom(s), true
			}
			return t.bindE(x.X, "", func(v string) string { return "some (!" + v + ")" }), false
		}
		t.fail(x, "unary %s", x.Op)
	case *ast.BinaryExpr:
		return t.binary(x)
	case *ast.CallExpr:
		return t.call(x)
	}
	t.fail(e, "expression %s is not translated in group Glue", types.ExprString(e))
	return "", false
}

func (t *glT) binary(x *ast.BinaryExpr) (string, bool) {
	switch x.Op {
	case token.LAND:
		a, pa := t.expr(x.X, "")
		// the scope is unchanged by expressions
		b, pb := t.expr(x.Y, "")
		if pa && pb {
			return atom(a) + " && " + atom(b), true
		}
		bo := b
		if pb {
			bo = "some " + atom(b)
		}
		if pa {
			return "if " + a + " then\n" + atom(bo) + "\nelse some false", false
		}
		v := t.fresh()
		return "match " + glScrut(a) + " with\n| none => none\n| some " + v + " =>\nif " + v + " then\n" + atom(bo) + "\nelse some false", false
	case token.EQL, token.NEQ:
		if t.isNil(x.Y) {
			id, ok := unparen(x.X).(*ast.Ident)
			if !ok {
				t.fail(x, "comparison with nil of something that is not a variable")
			}
			v := t.use(id)
			if !strings.HasPrefix(v.typ, "Option ") || v.top {
				t.fail(x, "comparison with nil of a %s", v.typ)
			}
			if x.Op == token.EQL {
				return v.name + ".isNone", true
			}
			return v.name + ".isSome", true
		}
		tx := glTypeStr(t.p.info.TypeOf(x.X))
		if !(t.isInt(x.X) && t.isInt(x.Y)) && !(tx == "string" && glTypeStr(t.p.info.TypeOf(x.Y)) == "string") {
			t.fail(x, "== on %s", tx)
		}
		op := " = "
		if x.Op == token.NEQ {
			op = " ≠ "
		}
		return t.bindE(x.X, "", func(a string) string {
			return t.bindE(x.Y, "", func(b string) string { return t.wrap2(x, "decide ("+a+op+b+")") })
		}), t.pure2(x)
	case token.LSS, token.LEQ, token.GTR, token.GEQ:
		if !(t.isInt(x.X) && t.isInt(x.Y)) {
			t.fail(x, "comparison of values that are not int")
		}
		if id, ok := unparen(x.Y).(*ast.Ident); ok {
			if v := t.use(id); v.top {
				if x.Op != token.LEQ {
					t.fail(x, "%s (math.MaxInt) on the right of %s", id.Name, x.Op)
				}
				_, pa := t.expr(x.X, "")
				r := t.bindE(x.X, "", func(a string) string {
					if pa {
						return "goLeTop " + a + " " + v.name
					}
					return "some (goLeTop " + a + " " + v.name + ")"
				})
				return r, pa
			}
		}
		op := map[token.Token]string{token.LSS: " < ", token.LEQ: " ≤ ", token.GTR: " > ", token.GEQ: " ≥ "}[x.Op]
		return t.bindE(x.X, "", func(a string) string {
			return t.bindE(x.Y, "", func(b string) string { return t.wrap2(x, "decide ("+a+op+b+")") })
		}), t.pure2(x)
	case token.ADD:
		if t.isInt(x.X) && t.isInt(x.Y) {
			// ASSUMES no overflow
			return t.bindE(x.X, "", func(a string) string {
				return t.bindE(x.Y, "", func(b string) string { return t.wrap2(x, a+" + "+b) })
			}), t.pure2(x)
		}
	}
	t.fail(x, "operator %s is not translated in group Glue", x.Op)
	return "", false
}

func (t *glT) pure2(x *ast.BinaryExpr) bool {
	sc := t.scope
	tmp := *t.tmp
	_, pa := t.expr(x.X, "")
	_, pb := t.expr(x.Y, "")
	t.scope = sc
	*t.tmp = tmp
	return pa && pb
}

func (t *glT) wrap2(x *ast.BinaryExpr, s string) string {
	if t.pure2(x) {
		return s
	}
	return "some (" + s + ")"
}

func (t *glT) call(x *ast.CallExpr) (string, bool) {
	name := t.callee(x)
	switch name {
	case "builtin.len":
		ty := glTypeStr(t.p.info.TypeOf(x.Args[0]))
		if ty != "[]int" && ty != "string" && ty != "[]byte" && ty != "[]stack.Arg" {
			t.fail(x, "len of a %s", ty)
		}
		s, pure := t.expr(x.Args[0], "")
		if !pure {
			return t.bindE(x.Args[0], "", func(v string) string { return "some " + v + ".length" }), false
		}
		return atom(s) + ".length", true
	case "conv.int":
		// int(n.Pos()) with n an ast.Node: token.Pos is an int, never negative
		if c, ok := unparen(x.Args[0]).(*ast.CallExpr); ok && len(c.Args) == 0 {
			if sel, ok := unparen(c.Fun).(*ast.SelectorExpr); ok && sel.Sel.Name == "Pos" {
				if id, ok := unparen(sel.X).(*ast.Ident); ok && glTypeStr(t.p.info.TypeOf(id)) == "ast.Node" {
					return "goPos " + t.use(id).name, false
				}
			}
		}
		t.fail(x, "conversion to int of something that is not n.Pos() of an ast.Node")
	case "strings.HasSuffix":
		a, pa := t.expr(x.Args[0], "")
		b, pb := t.expr(x.Args[1], "")
		if !pa || !pb {
			t.fail(x, "strings.HasSuffix of operands that can panic")
		}
		return "hasSuffix " + atom(a) + " " + atom(b), true
	case "fmt.Errorf":
		bl, ok := unparen(x.Args[0]).(*ast.BasicLit)
		if !ok || bl.Kind != token.STRING {
			t.fail(x, "fmt.Errorf with a format that is not a literal")
		}
		f, _ := strconv.Unquote(bl.Value)
		tag, ok := glErrTag[f]
		if !ok {
			t.fail(x, "error format %q has no tag in AugGlue.ErrKind (glErrTag)", f)
		}
		for _, a := range x.Args[1:] {
			t.errOperand(a)
		}
		*t.sites = append(*t.sites, [2]string{f, tag})
		return "some AugGlue.ErrKind." + tag, true
	case "pkg.lineToByteOffsets":
		return t.bindE(x.Args[0], "", func(a string) string { return "E.lineToByteOffsets " + a }), false
	}
	t.fail(x, "call of %s (%s), which is not translated in group Glue", types.ExprString(x.Fun), name)
	return "", false
}

// ---- statements ----

func (t *glT) block(list []ast.Stmt, k func() string) string {
	sc := t.scope
	s := t.stmts(list, k)
	t.scope = sc
	return s
}

func (t *glT) let(v *glVar, val string) string {
	return "let " + v.name + " : " + v.typ + " := " + val + "\n"
}

func mentions(p *pkgInfo, n ast.Node, obj types.Object) bool {
	found := false
	ast.Inspect(n, func(m ast.Node) bool {
		if id, ok := m.(*ast.Ident); ok && p.info.ObjectOf(id) == obj {
			found = true
		}
		return true
	})
	return found
}

// oracleIdiom: `x, err := ORACLE(…)` must be followed by `if err != nil { … return }` whose body does not mention x
func (t *glT) oracleIdiom(s *ast.AssignStmt, rest []ast.Stmt, errOnlyInErrorf bool) {
	if len(rest) == 0 {
		t.fail(s, "the result of the oracle is not tested")
	}
	is, ok := rest[0].(*ast.IfStmt)
	xid, errid := s.Lhs[0].(*ast.Ident), s.Lhs[1].(*ast.Ident)
	if !ok || is.Init != nil || is.Else != nil || len(is.Body.List) == 0 {
		t.fail(s, "the statement after the oracle call is not `if %s != nil {…}`", errid.Name)
	}
	c, ok := unparen(is.Cond).(*ast.BinaryExpr)
	if !ok || c.Op != token.NEQ || !t.isNil(c.Y) {
		t.fail(is, "the statement after the oracle call is not `if %s != nil {…}`", errid.Name)
	}
	if cid, ok := unparen(c.X).(*ast.Ident); !ok || t.p.info.ObjectOf(cid) != t.p.info.ObjectOf(errid) {
		t.fail(is, "the statement after the oracle call is not `if %s != nil {…}`", errid.Name)
	}
	if _, ok := is.Body.List[len(is.Body.List)-1].(*ast.ReturnStmt); !ok {
		t.fail(is, "the error branch of an oracle call does not end in return")
	}
	if mentions(t.p, is.Body, t.p.info.ObjectOf(xid)) {
		t.fail(is, "the error branch of an oracle call uses %s, whose value is not modelled there", xid.Name)
	}
	if errOnlyInErrorf {
		// every mention of err in the body is a direct operand of fmt.Errorf
		n := 0
		ast.Inspect(is.Body, func(m ast.Node) bool {
			if ce, ok := m.(*ast.CallExpr); ok && t.callee(ce) == "fmt.Errorf" {
				for _, a := range ce.Args[1:] {
					if id, ok := unparen(a).(*ast.Ident); ok && t.p.info.ObjectOf(id) == t.p.info.ObjectOf(errid) {
						n--
					}
				}
			}
			if id, ok := m.(*ast.Ident); ok && t.p.info.ObjectOf(id) == t.p.info.ObjectOf(errid) {
				n++
			}
			return true
		})
		if n != 0 {
			t.fail(is, "the parser's error is used other than as an operand of fmt.Errorf")
		}
	}
}

func (t *glT) stmts(list []ast.Stmt, k func() string) string {
	if len(list) == 0 {
		return k()
	}
	rest := func() string { return t.stmts(list[1:], k) }
	switch s := list[0].(type) {
	case *ast.ReturnStmt:
		if t.ret == nil {
			t.fail(s, "return here")
		}
		return t.ret(s)
	case *ast.DeclStmt:
		gd, ok := s.Decl.(*ast.GenDecl)
		if !ok || gd.Tok != token.VAR || len(gd.Specs) != 1 {
			t.fail(s, "declaration")
		}
		vs := gd.Specs[0].(*ast.ValueSpec)
		if len(vs.Names) != 1 || len(vs.Values) != 0 {
			t.fail(s, "var declaration with a value or several names")
		}
		typ := t.leanType(s, t.p.info.TypeOf(vs.Names[0]))
		z := glZero(typ)
		if z == "" {
			t.fail(s, "no zero value for %s", typ)
		}
		v := t.declare(vs.Names[0], typ)
		return t.let(v, z) + rest()
	case *ast.AssignStmt:
		return t.assign(s, list[1:], rest)
	case *ast.IfStmt:
		return t.ifStmt(s, rest)
	case *ast.ExprStmt:
		if c, ok := s.X.(*ast.CallExpr); ok && t.callee(c) == "go/ast.Inspect" {
			return t.inspect(c, rest)
		}
		if c, ok := s.X.(*ast.CallExpr); ok && t.callee(c) == "pkg.augmentCall" {
			return t.augmentCallStmt(c, rest)
		}
		t.fail(s, "expression statement %s", types.ExprString(s.X))
	case *ast.BranchStmt:
		if s.Tok == token.CONTINUE && s.Label == nil && t.cont != nil {
			return t.cont(s)
		}
		t.fail(s, "%s here", s.Tok)
	case *ast.RangeStmt:
		return t.rangeStmt(s, rest)
	case *ast.BlockStmt:
		t.fail(s, "nested block")
	}
	t.fail(list[0], "statement %T is not translated in group Glue", list[0])
	return ""
}

func (t *glT) ifStmt(s *ast.IfStmt, rest func() string) string {
	sc := t.scope
	defer func() { t.scope = sc }()
	body := func() string {
		if out, ok := t.condAssign(s); ok {
			return out + rest()
		}
		return t.bindE(s.Cond, "", func(c string) string {
			th := t.block(s.Body.List, rest)
			var el string
			switch e := s.Else.(type) {
			case nil:
				el = t.block(nil, rest)
			case *ast.BlockStmt:
				el = t.block(e.List, rest)
			case *ast.IfStmt:
				el = t.ifStmt(e, rest)
			default:
				t.fail(s, "else")
			}
			return "if " + c + " then\n" + smIndent(th) + "\nelse\n" + smIndent(el)
		})
	}
	if s.Init != nil {
		// the bindings of the init statement stay in scope (in the emitted term too) for the rest of the block:
		// `use` refuses any later identifier they would capture
		return t.stmts([]ast.Stmt{s.Init}, body)
	}
	return body()
}

// condAssign: `if cond { x = e; … }` without else, cond and every e free of panics, every x a local variable:
// `let t := cond; let x := if t then e else x; …` (the condition is evaluated once, before the assignments; an e is
// evaluated in the scope where the earlier assignments have been made, which matters only when t is true).  This
// avoids a copy of the rest of the block.
func (t *glT) condAssign(s *ast.IfStmt) (string, bool) {
	if s.Else != nil || len(s.Body.List) == 0 {
		return "", false
	}
	sc, tmp := t.scope, *t.tmp
	undo := func() (string, bool) { t.scope = sc; *t.tmp = tmp; return "", false }
	for _, b := range s.Body.List {
		a, ok := b.(*ast.AssignStmt)
		if !ok || a.Tok != token.ASSIGN || len(a.Lhs) != 1 || len(a.Rhs) != 1 {
			return undo()
		}
		id, ok := a.Lhs[0].(*ast.Ident)
		if !ok {
			return undo()
		}
		if _, isVar := t.p.info.ObjectOf(id).(*types.Var); !isVar {
			return undo()
		}
		if _, ok := unparen(a.Rhs[0]).(*ast.Ident); !ok {
			return undo() // only a variable or nil on the right: nothing to evaluate
		}
	}
	c, pure := t.expr(s.Cond, "")
	if !pure {
		return undo()
	}
	cv := t.fresh()
	out := "let " + cv + " : Bool := " + c + "\n"
	for _, b := range s.Body.List {
		a := b.(*ast.AssignStmt)
		id := a.Lhs[0].(*ast.Ident)
		old := t.use(id)
		if old.top || old.typ == "GParsedFile" || old.typ == "GCache" || old.typ == "<fileset>" || old.typ == "Goroutine" || old.typ == "Call" {
			return undo()
		}
		val, pv := t.expr(a.Rhs[0], old.typ)
		if !pv {
			return undo()
		}
		nv := &glVar{obj: old.obj, name: old.name, typ: old.typ}
		t.scope = append(t.scope, nv)
		out += t.let(nv, "if "+cv+" then "+atom(val)+" else "+old.name)
	}
	return out, true
}

func (t *glT) assign(s *ast.AssignStmt, after []ast.Stmt, rest func() string) string {
	// x, ok := n.(*ast.FuncDecl)
	if len(s.Lhs) == 2 && len(s.Rhs) == 1 && s.Tok == token.DEFINE {
		a, aok := s.Lhs[0].(*ast.Ident)
		b, bok := s.Lhs[1].(*ast.Ident)
		if !aok || !bok {
			t.fail(s, "assignment")
		}
		switch r := unparen(s.Rhs[0]).(type) {
		case *ast.TypeAssertExpr:
			id, ok := unparen(r.X).(*ast.Ident)
			if !ok || glTypeStr(t.p.info.TypeOf(id)) != "ast.Node" || glTypeStr(t.p.info.TypeOf(r.Type)) != "*ast.FuncDecl" {
				t.fail(s, "type assertion other than n.(*ast.FuncDecl) of an ast.Node")
			}
			n := t.use(id)
			out := ""
			if a.Name != "_" {
				out += t.let(t.declare(a, "Option Nat"), "goAsFuncDecl "+n.name)
			}
			if b.Name != "_" {
				out += t.let(t.declare(b, "Bool"), "goIsFuncDecl "+n.name)
			}
			return out + rest()
		case *ast.IndexExpr:
			// _, ok := c.m[k]
			if sel, ok := unparen(r.X).(*ast.SelectorExpr); ok && a.Name == "_" && b.Name != "_" {
				if m, ty, ok := t.field(sel); ok && strings.HasPrefix(ty, "map:") {
					return t.bindE(r.Index, "", func(kx string) string {
						return t.let(t.declare(b, "Bool"), "goMapHas "+m+" "+kx) + rest()
					})
				}
			}
			t.fail(s, "comma-ok form")
		case *ast.CallExpr:
			name := t.callee(r)
			switch name {
			case "os.ReadFile", "go/parser.ParseFile":
				if a.Name == "_" || b.Name == "_" || glTypeStr(t.p.info.TypeOf(b)) != "error" {
					t.fail(s, "results of %s", name)
				}
				var call, typ, zero, tag string
				if name == "os.ReadFile" {
					t.oracleIdiom(s, after, false)
					call = t.bindE(r.Args[0], "", func(x string) string { return "E.readFile " + x })
					typ, zero, tag = "Bytes", "[]", "<the error of os.ReadFile>"
				} else {
					t.oracleIdiom(s, after, true)
					// parser.ParseFile(fset, name, src, 0) with fset := token.NewFileSet() (a fresh file set: base 1)
					fs, ok := unparen(r.Args[0]).(*ast.Ident)
					if !ok || len(r.Args) != 4 {
						t.fail(s, "arguments of parser.ParseFile")
					}
					if v := t.use(fs); v.typ != "<fileset>" {
						t.fail(s, "the file set of parser.ParseFile is not a fresh token.NewFileSet()")
					}
					if m, ok := unparen(r.Args[3]).(*ast.BasicLit); !ok || m.Value != "0" {
						t.fail(s, "parser.ParseFile with a mode other than 0")
					}
					if glTypeStr(t.p.info.TypeOf(r.Args[2])) != "[]byte" {
						t.fail(s, "parser.ParseFile with a source that is not a []byte")
					}
					call = t.bindE(r.Args[1], "", func(x string) string {
						return t.bindE(r.Args[2], "", func(y string) string { return "E.parseFile " + x + " " + y })
					})
					typ, zero, tag = "FA.Node", "default", "<the error of parser.ParseFile>"
				}
				*t.sites = append(*t.sites, [2]string{tag, glErrTag[tag]})
				r := t.fresh()
				out := "let " + r + " := " + call + "\n"
				out += t.let(t.declare(a, typ), r+".getD "+zero)
				out += t.let(t.declare(b, "Option AugGlue.ErrKind"), "if "+r+".isSome then none else some AugGlue.ErrKind."+glErrTag[tag])
				return out + rest()
			}
			if name == "method.*stack.parsedFile.getFuncAST" && a.Name != "_" && b.Name != "_" {
				// f, err := p.getFuncAST(x, y) with p a nilable pointer: a nil receiver panics in the callee (its
				// first statement reads a field of it); every panic is `none`, so the order does not matter
				pid, ok := unparen(r.Fun.(*ast.SelectorExpr).X).(*ast.Ident)
				if !ok {
					t.fail(s, "receiver of getFuncAST")
				}
				pv := t.use(pid)
				if pv.typ != "Option GParsedFile" {
					t.fail(s, "receiver of getFuncAST: %s", pv.typ)
				}
				return t.bindE(r.Args[0], "", func(x string) string {
					return t.bindE(r.Args[1], "", func(y string) string {
						v, q := t.fresh(), t.fresh()
						out := "match " + pv.name + " with\n| none => none\n| some " + v + " =>\nmatch E.getFuncAST " + v + " " + x + " " + y + " with\n| none => none\n| some " + q + " =>\n"
						out += t.let(t.declare(a, "Option Nat"), q+".1")
						out += t.let(t.declare(b, "Option AugGlue.ErrKind"), q+".2")
						return out + rest()
					})
				})
			}
			t.fail(s, "two results of %s", name)
		}
		t.fail(s, "assignment with two variables")
	}
	if len(s.Lhs) != 1 || len(s.Rhs) != 1 || (s.Tok != token.DEFINE && s.Tok != token.ASSIGN) {
		t.fail(s, "assignment form")
	}
	// c.m[k] = v on the threaded receiver
	if ix, ok := s.Lhs[0].(*ast.IndexExpr); ok && s.Tok == token.ASSIGN {
		sel, ok := unparen(ix.X).(*ast.SelectorExpr)
		if !ok {
			t.fail(s, "assignment to an element")
		}
		m, ty, ok := t.field(sel)
		cid, _ := unparen(sel.X).(*ast.Ident)
		if !ok || !strings.HasPrefix(ty, "map:") || t.recvObj == nil || t.p.info.ObjectOf(cid) != t.recvObj {
			t.fail(s, "assignment to an element that is not a map of the receiver")
		}
		c := t.use(cid)
		vt := strings.TrimPrefix(ty, "map:")
		return t.bindE(ix.Index, "", func(kx string) string {
			return t.bindE(s.Rhs[0], vt, func(v string) string {
				nv := &glVar{obj: c.obj, name: c.name, typ: c.typ}
				t.scope = append(t.scope, nv)
				return t.let(nv, "{ "+c.name+" with "+sel.Sel.Name+" := goMapSet "+m+" "+kx+" "+v+" }") + rest()
			})
		})
	}
	id, ok := s.Lhs[0].(*ast.Ident)
	if !ok {
		t.fail(s, "assignment to something that is not a local variable")
	}
	if s.Tok == token.DEFINE {
		// x := math.MaxInt
		if sel, ok := unparen(s.Rhs[0]).(*ast.SelectorExpr); ok {
			if pk, ok := sel.X.(*ast.Ident); ok {
				if pn, ok := t.p.info.ObjectOf(pk).(*types.PkgName); ok && pn.Imported().Path() == "math" && sel.Sel.Name == "MaxInt" {
					v := t.declare(id, "Option Nat")
					v.top = true
					return t.let(v, "none") + rest()
				}
			}
		}
		// fset := token.NewFileSet(): only usable as the first argument of parser.ParseFile
		if c, ok := unparen(s.Rhs[0]).(*ast.CallExpr); ok && t.callee(c) == "go/token.NewFileSet" {
			v := t.declare(id, "<fileset>")
			_ = v
			return rest()
		}
		// c := cacheAST{files: map[string][]byte{}, parsed: map[string]*parsedFile{}}: a local cache with two empty,
		// non-nil maps; its methods are called on its address: it plays the part of the receiver
		if cl, ok := unparen(s.Rhs[0]).(*ast.CompositeLit); ok && glTypeStr(t.p.info.TypeOf(cl)) == "stack.cacheAST" {
			seen := map[string]bool{}
			for _, e := range cl.Elts {
				kv, ok := e.(*ast.KeyValueExpr)
				if !ok {
					t.fail(s, "cacheAST literal without field names")
				}
				m, ok := kv.Value.(*ast.CompositeLit)
				if _, isMap := t.p.info.TypeOf(kv.Value).Underlying().(*types.Map); !ok || !isMap || len(m.Elts) != 0 {
					t.fail(s, "cacheAST literal with a field that is not an empty map literal")
				}
				seen[kv.Key.(*ast.Ident).Name] = true
			}
			if len(cl.Elts) != 2 || !seen["files"] || !seen["parsed"] || t.recvObj != nil {
				t.fail(s, "cacheAST literal")
			}
			v := t.declare(id, "GCache")
			t.recvObj = v.obj
			return t.let(v, "{ files := [], parsed := [] }") + rest()
		}
		// x := c.augmentGoroutine(g) with g the pointer element of the range: the cache and the element are written back
		if c, ok := unparen(s.Rhs[0]).(*ast.CallExpr); ok && t.callee(c) == "method.*stack.cacheAST.augmentGoroutine" {
			rid, ok := unparen(c.Fun.(*ast.SelectorExpr).X).(*ast.Ident)
			if !ok || t.recvObj == nil || t.p.info.ObjectOf(rid) != t.recvObj {
				t.fail(s, "augmentGoroutine on something that is not the cache")
			}
			cv := t.use(rid)
			gid, ok := unparen(c.Args[0]).(*ast.Ident)
			if !ok {
				t.fail(s, "augmentGoroutine of something that is not a variable")
			}
			gv := t.use(gid)
			if gv.aliasRoot == nil || gv.typ != "Goroutine" {
				t.fail(s, "augmentGoroutine of something that is not the pointer element of the range")
			}
			root := t.need(s, gv.aliasRoot)
			r := t.fresh()
			out := "match E.augmentGoroutine " + cv.name + " " + gv.name + " with\n| none => none\n| some " + r + " =>\n"
			nc := &glVar{obj: cv.obj, name: cv.name, typ: cv.typ}
			t.scope = append(t.scope, nc)
			out += t.let(nc, r+".1")
			ng := &glVar{obj: gv.obj, name: gv.name, typ: gv.typ, aliasRoot: gv.aliasRoot, aliasIdx: gv.aliasIdx}
			t.scope = append(t.scope, ng)
			out += t.let(ng, r+".2.1")
			ns := &glVar{obj: root.obj, name: root.name, typ: root.typ}
			t.scope = append(t.scope, ns)
			out += t.let(ns, "goSetGoroutine "+root.name+" "+gv.aliasIdx+" "+gv.name)
			out += t.let(t.declare(id, "Option AugGlue.ErrKind"), r+".2.2")
			return out + rest()
		}
		// x := c.loadFile(arg) on the threaded receiver: the receiver is written back
		if c, ok := unparen(s.Rhs[0]).(*ast.CallExpr); ok && t.callee(c) == "method.*stack.cacheAST.loadFile" {
			rid, ok := unparen(c.Fun.(*ast.SelectorExpr).X).(*ast.Ident)
			if !ok || t.recvObj == nil || t.p.info.ObjectOf(rid) != t.recvObj {
				t.fail(s, "loadFile on something that is not the receiver")
			}
			cv := t.use(rid)
			return t.bindE(c.Args[0], "", func(a string) string {
				r := t.fresh()
				nv := &glVar{obj: cv.obj, name: cv.name, typ: cv.typ}
				out := "match E.loadFile " + cv.name + " " + a + " with\n| none => none\n| some " + r + " =>\n"
				t.scope = append(t.scope, nv)
				out += t.let(nv, r+".1")
				out += t.let(t.declare(id, "Option AugGlue.ErrKind"), r+".2")
				return out + rest()
			})
		}
		typ := t.leanType(s, t.p.info.TypeOf(id))
		return t.bindE(s.Rhs[0], typ, func(val string) string {
			return t.let(t.declare(id, typ), val) + rest()
		})
	}
	old := t.use(id)
	if _, isVar := old.obj.(*types.Var); !isVar || old.typ == "GParsedFile" || old.typ == "GCache" || old.typ == "<fileset>" || old.typ == "Goroutine" || old.typ == "Call" {
		t.fail(s, "assignment to %s", id.Name)
	}
	return t.bindE(s.Rhs[0], old.typ, func(val string) string {
		nv := &glVar{obj: old.obj, name: old.name, typ: old.typ, top: old.top}
		t.scope = append(t.scope, nv)
		if old.top {
			return t.let(nv, "some "+val) + rest()
		}
		return t.let(nv, val) + rest()
	})
}

// the p.parsed[k] = &parsedFile{…} value
func (t *glT) composite(x *ast.UnaryExpr) (string, bool) {
	cl, ok := x.X.(*ast.CompositeLit)
	if x.Op != token.AND || !ok || glTypeStr(t.p.info.TypeOf(cl)) != "stack.parsedFile" || len(cl.Elts) != 2 {
		t.fail(x, "address of something that is not a parsedFile literal with both fields")
	}
	vals := map[string]ast.Expr{}
	for _, e := range cl.Elts {
		kv, ok := e.(*ast.KeyValueExpr)
		if !ok {
			t.fail(x, "parsedFile literal without field names")
		}
		vals[kv.Key.(*ast.Ident).Name] = kv.Value
	}
	if vals["lineToByteOffset"] == nil || vals["parsed"] == nil {
		t.fail(x, "parsedFile literal without both fields")
	}
	// fields are evaluated in source order; the only one that can panic is a call, and every panic is `none`
	return t.bindE(vals["lineToByteOffset"], "", func(a string) string {
		return t.bindE(vals["parsed"], "", func(b string) string {
			return "some (some { lineToByteOffset := " + a + ", parsed := " + b + " })"
		})
	}), false
}

// ast.Inspect(root, func(n ast.Node) bool {…})
func (t *glT) inspect(c *ast.CallExpr, rest func() string) string {
	if t.inLit {
		t.fail(c, "ast.Inspect inside a function literal")
	}
	lit, ok := c.Args[1].(*ast.FuncLit)
	if !ok {
		t.fail(c, "ast.Inspect with a callback that is not a function literal")
	}
	if glTypeStr(t.p.info.TypeOf(c.Args[0])) != "*ast.File" {
		t.fail(c, "ast.Inspect of something that is not a *ast.File")
	}
	ps := lit.Type.Params.List
	if len(ps) != 1 || len(ps[0].Names) != 1 || glTypeStr(t.p.info.TypeOf(ps[0].Type)) != "ast.Node" ||
		lit.Type.Results == nil || len(lit.Type.Results.List) != 1 || len(lit.Type.Results.List[0].Names) != 0 ||
		glTypeStr(t.p.info.TypeOf(lit.Type.Results.List[0].Type)) != "bool" {
		t.fail(lit, "the callback of ast.Inspect is not func(n ast.Node) bool")
	}
	// captured variables: read-only ones are parameters, assigned ones are the state
	captured := map[types.Object]bool{}
	assigned := map[types.Object]bool{}
	ast.Inspect(lit.Body, func(m ast.Node) bool {
		switch y := m.(type) {
		case *ast.FuncLit:
			t.fail(y, "function literal inside a function literal")
		case *ast.ForStmt, *ast.RangeStmt, *ast.GoStmt, *ast.DeferStmt, *ast.IncDecStmt:
			t.fail(y, "statement %T inside a function literal", y)
		case *ast.UnaryExpr:
			if y.Op == token.AND {
				t.fail(y, "address taken inside a function literal")
			}
		case *ast.Ident:
			if v, ok := t.p.info.Uses[y].(*types.Var); ok && !v.IsField() && v.Parent() != t.p.pkg.Scope() &&
				(v.Pos() < lit.Pos() || v.Pos() >= lit.End()) {
				captured[v] = true
			}
		case *ast.AssignStmt:
			if y.Tok != token.DEFINE {
				for _, l := range y.Lhs {
					if id, ok := l.(*ast.Ident); ok {
						if v, ok := t.p.info.Uses[id].(*types.Var); ok && (v.Pos() < lit.Pos() || v.Pos() >= lit.End()) {
							assigned[v] = true
						}
					}
				}
			}
		}
		return true
	})
	var ro, mut []*glVar
	seen := map[types.Object]bool{}
	for _, v := range t.scope {
		if captured[v.obj] && !seen[v.obj] {
			seen[v.obj] = true
			cur := t.need(c, v.obj)
			if cur.typ == "<fileset>" {
				t.fail(c, "a file set captured by a function literal")
			}
			if assigned[v.obj] {
				if cur.typ == "GParsedFile" || cur.typ == "GCache" {
					t.fail(c, "the receiver assigned inside a function literal")
				}
				mut = append(mut, cur)
			} else {
				ro = append(ro, cur)
			}
		}
	}
	for o := range captured {
		if !seen[o] {
			t.fail(c, "captured variable %s is not in scope", o.Name())
		}
	}
	def := "DEF__"
	tmp2 := 0
	nsites := len(*t.sites)
	t2 := &glT{p: t.p, fn: t.fn, defs: t.defs, tmp: &tmp2, nlit: t.nlit, sites: t.sites, inLit: true}
	var params, stTypes, args []string
	for _, v := range ro {
		t2.scope = append(t2.scope, &glVar{obj: v.obj, name: v.name, typ: v.typ, top: v.top})
		params = append(params, "("+v.name+" : "+v.typ+")")
		args = append(args, v.name)
	}
	proj := func(i int) string {
		s := "st__"
		if len(mut) == 1 {
			return s
		}
		for j := 0; j < i; j++ {
			s += ".2"
		}
		if i < len(mut)-1 {
			s += ".1"
		}
		return s
	}
	for i, v := range mut {
		t2.scope = append(t2.scope, &glVar{obj: v.obj, name: v.name, typ: v.typ, top: v.top})
		params = append(params, "("+v.name+" : "+v.typ+")")
		stTypes = append(stTypes, atom(v.typ))
		args = append(args, proj(i))
	}
	sigma := "Unit"
	if len(mut) > 0 {
		sigma = strings.Join(stTypes, " × ")
	}
	pv := t2.declare(ps[0].Names[0], "Option FA.Node")
	params = append(params, "("+pv.name+" : Option FA.Node)")
	state := func(n ast.Node, t3 *glT) string {
		var xs []string
		for _, v := range mut {
			xs = append(xs, t3.need(n, v.obj).name)
		}
		if len(xs) == 0 {
			return "()"
		}
		return "(" + strings.Join(xs, ", ") + ")"
	}
	t2.ret = func(r *ast.ReturnStmt) string {
		if len(r.Results) != 1 {
			t2.fail(r, "return in the callback of ast.Inspect")
		}
		b, pure := t2.expr(r.Results[0], "Bool")
		if !pure {
			t2.fail(r, "a returned value that can panic")
		}
		return "some (" + state(r, t2) + ", " + b + ")"
	}
	body := t2.stmts(lit.Body.List, func() string { t2.fail(lit, "the callback falls off its end"); return "" })
	pos := t.p.fset.Position(lit.Pos())
	var roN, mutN []string
	for _, v := range ro {
		roN = append(roN, v.name)
	}
	for _, v := range mut {
		mutN = append(mutN, v.name)
	}
	// the literal is translated once for every copy of the rest of a block it is in; copies that came out identical
	// (same captured variables, same types, same body) share one definition
	text := fmt.Sprintf("/-- the function literal of %s passed to ast.Inspect (line %d); captured: %s; assigned (the state): %s -/\ndef DEF__ (E : Env) %s : Option ((%s) × Bool) :=\n%s\n",
		t.fn, pos.Line, strings.Join(roN, ", "), strings.Join(mutN, ", "), strings.Join(params, " "), sigma, smIndent(body))
	if t.lits == nil {
		t.fail(c, "internal: no literal table")
	}
	if name, ok := t.lits[text]; ok {
		def = name
		*t.sites = (*t.sites)[:nsites]
	} else {
		*t.nlit++
		def = fmt.Sprintf("%s_lit%d", t.fn, *t.nlit)
		t.lits[text] = def
		*t.defs = append(*t.defs, strings.Replace(text, "DEF__", def, 1))
	}
	// the call
	return t.bindE(c.Args[0], "", func(root string) string {
		out := "match goInspect (fun st__ n__ => " + def + " E " + strings.Join(append(args, "n__"), " ") + ") " + state(c, t) + " " + root + " with\n| none => none\n| some st__ =>\n"
		for i, v := range mut {
			nv := &glVar{obj: v.obj, name: v.name, typ: v.typ, top: v.top}
			t.scope = append(t.scope, nv)
			out += t.let(nv, proj(i))
		}
		return out + rest()
	})
}

// augmentCall(&g.Stack.Calls[i], f): group Aug's function through E, the element written back
func (t *glT) augmentCallStmt(c *ast.CallExpr, rest func() string) string {
	u, ok := unparen(c.Args[0]).(*ast.UnaryExpr)
	if !ok || u.Op != token.AND {
		t.fail(c, "augmentCall of something that is not &g.Stack.Calls[i]")
	}
	ix, ok := unparen(u.X).(*ast.IndexExpr)
	if !ok {
		t.fail(c, "augmentCall of something that is not &g.Stack.Calls[i]")
	}
	gid := glRoot(ix.X)
	if gid == nil || len(t.thr) == 0 || types.ExprString(ix.X) != gid.Name+".Stack.Calls" {
		t.fail(c, "augmentCall of something that is not &g.Stack.Calls[i]")
	}
	g := t.use(gid)
	if g.typ != "Goroutine" {
		t.fail(c, "augmentCall of an element of a %s", g.typ)
	}
	isThr := false
	for _, o := range t.thr {
		if o == g.obj {
			isThr = true
		}
	}
	if !isThr {
		t.fail(c, "augmentCall through a pointer that is not threaded")
	}
	fid, ok := unparen(c.Args[1]).(*ast.Ident)
	if !ok {
		t.fail(c, "the declaration given to augmentCall is not a variable")
	}
	f := t.use(fid)
	if f.typ != "Option Nat" {
		t.fail(c, "the declaration given to augmentCall is a %s", f.typ)
	}
	elem, _, _ := t.path(ix)
	i, _ := t.expr(ix.Index, "")
	cv, fv, c2 := t.fresh(), t.fresh(), t.fresh()
	// a nil f panics in augmentCall (its first statement reads f.Recv): `none`
	out := "match " + elem + " with\n| none => none\n| some " + cv + " =>\nmatch " + f.name + " with\n| none => none\n| some " + fv + " =>\nmatch E.augmentCall " + cv + " " + fv + " with\n| none => none\n| some " + c2 + " =>\n"
	nv := &glVar{obj: g.obj, name: g.name, typ: g.typ}
	t.scope = append(t.scope, nv)
	out += t.let(nv, "goSetCall "+g.name+" "+atom(i)+" "+c2)
	return out + rest()
}

func glRoot(e ast.Expr) *ast.Ident {
	for {
		switch x := unparen(e).(type) {
		case *ast.Ident:
			return x
		case *ast.SelectorExpr:
			e = x.X
		default:
			return nil
		}
	}
}

// for i, x := range PATH { … }: a definition of its own for the body, the outer variables it assigns being the state
func (t *glT) rangeStmt(rs *ast.RangeStmt, rest func() string) string {
	if t.inLit || t.cont != nil {
		t.fail(rs, "loop inside a loop or a function literal")
	}
	ki, ok1 := rs.Key.(*ast.Ident)
	vi, ok2 := rs.Value.(*ast.Ident)
	if !ok1 || !ok2 || rs.Tok != token.DEFINE || vi.Name == "_" {
		t.fail(rs, "range form")
	}
	// the outer variables the body assigns: `x = e`, the receiver of c.loadFile, the root of &g.Stack.Calls[i]
	assigned := map[types.Object]bool{}
	used := map[types.Object]bool{}
	outer := func(o types.Object) bool { return o.Pos() < rs.Pos() || o.Pos() >= rs.End() }
	ast.Inspect(rs.Body, func(m ast.Node) bool {
		switch y := m.(type) {
		case *ast.FuncLit, *ast.ForStmt, *ast.RangeStmt, *ast.GoStmt, *ast.DeferStmt, *ast.IncDecStmt, *ast.ReturnStmt:
			t.fail(y, "statement %T inside a loop", y)
		case *ast.Ident:
			if v, ok := t.p.info.Uses[y].(*types.Var); ok && !v.IsField() && v.Parent() != t.p.pkg.Scope() && outer(v) {
				used[v] = true
			}
		case *ast.AssignStmt:
			if y.Tok != token.DEFINE {
				for _, l := range y.Lhs {
					if id, ok := l.(*ast.Ident); ok {
						if v, ok := t.p.info.Uses[id].(*types.Var); ok && outer(v) {
							assigned[v] = true
						}
					}
				}
			}
		case *ast.CallExpr:
			switch t.callee(y) {
			case "method.*stack.cacheAST.loadFile":
				if id := glRoot(y.Fun.(*ast.SelectorExpr).X); id != nil {
					assigned[t.p.info.ObjectOf(id)] = true
				}
			case "method.*stack.cacheAST.augmentGoroutine":
				if id := glRoot(y.Fun.(*ast.SelectorExpr).X); id != nil {
					assigned[t.p.info.ObjectOf(id)] = true
				}
				if id := glRoot(rs.X); id != nil {
					assigned[t.p.info.ObjectOf(id)] = true // written through the pointer element
				}
			case "pkg.augmentCall":
				if u, ok := unparen(y.Args[0]).(*ast.UnaryExpr); ok {
					if ix, ok := unparen(u.X).(*ast.IndexExpr); ok {
						if id := glRoot(ix.X); id != nil {
							assigned[t.p.info.ObjectOf(id)] = true
						}
					}
				}
			}
		}
		return true
	})
	// the range expression is evaluated once, before the loop: only its length is kept; the elements are read from
	// the current value of the path at the start of every iteration, which is what Go does (the copy of the slice
	// header shares the backing array), PROVIDED the slice header itself is not assigned in the body: the only
	// write to the path accepted in this group is the write-back of element i by augmentCallStmt
	rng, rty, rpure := t.path(rs.X)
	if (rty != "List Call" && rty != "List Goroutine") || !rpure {
		t.fail(rs, "range over a %s", rty)
	}
	// []*Goroutine: ASSUMES the pointers are not nil and pairwise distinct (held nowhere else): the value variable
	// is an alias of the element, written back by the call that writes through it
	rootID := glRoot(rs.X)
	if rootID == nil {
		t.fail(rs, "range over something that is not a path")
	}
	var ro, mut []*glVar
	seen := map[types.Object]bool{}
	for _, v := range t.scope {
		if (used[v.obj] || assigned[v.obj]) && !seen[v.obj] {
			seen[v.obj] = true
			cur := t.need(rs, v.obj)
			if cur.typ == "<fileset>" || cur.top {
				t.fail(rs, "variable %s used in a loop", cur.name)
			}
			if assigned[v.obj] {
				mut = append(mut, cur)
			} else {
				ro = append(ro, cur)
			}
		}
	}
	for o := range used {
		if !seen[o] {
			t.fail(rs, "variable %s used in the loop is not in scope", o.Name())
		}
	}
	if len(mut) < 2 {
		t.fail(rs, "a loop with fewer than two state variables")
	}
	*t.nlit++
	def := fmt.Sprintf("%s_loop%d", t.fn, *t.nlit)
	tmp2 := 0
	t2 := &glT{p: t.p, fn: t.fn, defs: t.defs, tmp: &tmp2, nlit: t.nlit, sites: t.sites, lits: t.lits, recvObj: t.recvObj, thr: t.thr}
	var params, stTypes, args []string
	for _, v := range ro {
		t2.scope = append(t2.scope, &glVar{obj: v.obj, name: v.name, typ: v.typ})
		params = append(params, "("+v.name+" : "+v.typ+")")
		args = append(args, v.name)
	}
	proj := func(i int) string {
		s := "st__"
		for j := 0; j < i; j++ {
			s += ".2"
		}
		if i < len(mut)-1 {
			s += ".1"
		}
		return s
	}
	kv := &glVar{name: "i__", typ: "Nat"}
	if ki.Name != "_" {
		kv = t2.declare(ki, "Nat")
	}
	params = append(params, "("+kv.name+" : Nat)")
	for i, v := range mut {
		t2.scope = append(t2.scope, &glVar{obj: v.obj, name: v.name, typ: v.typ})
		params = append(params, "("+v.name+" : "+v.typ+")")
		stTypes = append(stTypes, atom(v.typ))
		args = append(args, proj(i))
	}
	sigma := strings.Join(stTypes, " × ")
	state := func(n ast.Node, t3 *glT) string {
		var xs []string
		for _, v := range mut {
			xs = append(xs, t3.need(n, v.obj).name)
		}
		return "(" + strings.Join(xs, ", ") + ")"
	}
	t2.cont = func(n ast.Node) string { return "some " + state(n, t2) }
	rng2, _, _ := t2.path(rs.X)
	el := t2.fresh()
	body := "match " + rng2 + "[" + kv.name + "]? with\n| none => none\n| some " + el + " =>\n"
	ev := t2.declare(vi, strings.TrimPrefix(rty, "List "))
	if rty == "List Goroutine" {
		ev.aliasRoot, ev.aliasIdx = t.p.info.ObjectOf(rootID), kv.name
	}
	body += t2.let(ev, el)
	body += t2.stmts(rs.Body.List, func() string { return "some " + state(rs, t2) })
	pos := t.p.fset.Position(rs.Pos())
	*t.defs = append(*t.defs, fmt.Sprintf("/-- the body of the loop of %s at line %d, iteration %s; the state: %s -/\ndef %s (E : Env) %s : Option (%s) :=\n%s\n",
		t.fn, pos.Line, kv.name, state(rs, t), def, strings.Join(params, " "), sigma, smIndent(body)))
	idx := len(args) - len(mut)
	call := def + " E " + strings.Join(append(append(append([]string{}, args[:idx]...), "i__"), args[idx:]...), " ")
	out := "match goForN (fun i__ st__ => " + call + ") " + rng + ".length " + state(rs, t) + " with\n| none => none\n| some st__ =>\n"
	for i, v := range mut {
		nv := &glVar{obj: v.obj, name: v.name, typ: v.typ}
		t.scope = append(t.scope, nv)
		out += t.let(nv, proj(i))
	}
	return out + rest()
}

func (p *pkgInfo) translateGlue() string {
	ns := "PP.TrG"
	var sb strings.Builder
	fmt.Fprintf(&sb, "/- GENERATED by /verif/extract (translate_glue.go) from stack/source.go, stack/context.go — do not edit. -/\nimport PP.Go.PreludeGlue\nset_option linter.unusedVariables false\nnamespace %s\nopen PP PP.Go PP.Bytes\n\n", ns)
	var failed, bodies []string
	var sites [][2]string
	for _, f := range trFuncsGlue {
		func() {
			defer func() {
				if r := recover(); r != nil {
					if tf, ok := r.(trFail); ok {
						failed = append(failed, fmt.Sprintf("%s.%s: %s", f[0], f[1], tf.msg))
						return
					}
					panic(r)
				}
			}()
			fd := p.funcDecl(f[0], f[1])
			var defs []string
			tmp, nlit := 0, 0
			t := &glT{p: p, fn: f[1], defs: &defs, tmp: &tmp, nlit: &nlit, sites: &sites, lits: map[string]string{}}
			var params []string
			// the receiver
			if fd.Recv == nil || len(fd.Recv.List) != 1 || len(fd.Recv.List[0].Names) != 1 {
				t.fail(fd, "receiver")
			}
			rid := fd.Recv.List[0].Names[0]
			var recv *glVar
			switch glTypeStr(p.info.TypeOf(rid)) {
			case "*stack.parsedFile":
				recv = t.declare(rid, "GParsedFile") // ASSUMES a non-nil receiver
			case "*stack.cacheAST":
				recv = t.declare(rid, "GCache") // ASSUMES a non-nil receiver with non-nil maps
				t.recvObj = recv.obj
				t.thr = append(t.thr, recv.obj)
			case "*stack.Snapshot":
				// ASSUMES a non-nil receiver; threaded: what is written through the pointers of s.Goroutines is returned
				recv = t.declare(rid, "Snapshot")
				t.thr = append(t.thr, recv.obj)
			default:
				t.fail(fd, "receiver type")
			}
			params = append(params, "("+recv.name+" : "+recv.typ+")")
			for _, fld := range fd.Type.Params.List {
				if len(fld.Names) == 0 {
					t.fail(fd, "unnamed parameter")
				}
				for _, n := range fld.Names {
					if glTypeStr(p.info.TypeOf(n)) == "*stack.Goroutine" {
						// ASSUMES a non-nil pointer; threaded: what is written through it is returned
						v := t.declare(n, "Goroutine")
						t.thr = append(t.thr, v.obj)
						params = append(params, "("+v.name+" : Goroutine)")
						continue
					}
					v := t.declare(n, t.leanType(n, p.info.TypeOf(n)))
					params = append(params, "("+v.name+" : "+v.typ+")")
				}
			}
			var resTypes []string
			var named []*glVar
			pre := ""
			if fd.Type.Results != nil {
				for _, fld := range fd.Type.Results.List {
					typ := t.leanType(fld, p.info.TypeOf(fld.Type))
					if len(fld.Names) == 0 {
						resTypes = append(resTypes, typ)
					}
					for _, n := range fld.Names {
						v := t.declare(n, typ)
						z := glZero(typ)
						if z == "" {
							t.fail(fld, "no zero value for %s", typ)
						}
						pre += t.let(v, z)
						named = append(named, v)
						resTypes = append(resTypes, typ)
					}
				}
			}
			if len(named) != 0 && len(named) != len(resTypes) {
				t.fail(fd, "named and unnamed results")
			}
			if len(resTypes) == 0 {
				t.fail(fd, "function without results")
			}
			withRecv := func(n ast.Node, vals []string) string {
				var pre []string
				for _, o := range t.thr {
					pre = append(pre, t.need(n, o).name)
				}
				vals = append(pre, vals...)
				if len(vals) == 1 {
					return "some " + atom(vals[0])
				}
				return "some (" + strings.Join(vals, ", ") + ")"
			}
			t.ret = func(r *ast.ReturnStmt) string {
				var vals []string
				if len(r.Results) == 0 {
					if len(named) == 0 {
						t.fail(r, "bare return without named results")
					}
					for _, v := range named {
						vals = append(vals, t.need(r, v.obj).name)
					}
					return withRecv(r, vals)
				}
				if len(r.Results) != len(resTypes) {
					t.fail(r, "return of a call with several results")
				}
				for i, e := range r.Results {
					s, pure := t.expr(e, resTypes[i])
					if !pure {
						t.fail(r, "a returned value that can panic")
					}
					vals = append(vals, s)
				}
				return withRecv(r, vals)
			}
			body := t.stmts(fd.Body.List, func() string { t.fail(fd, "the function falls off its end"); return "" })
			pos := p.fset.Position(fd.Pos())
			var out strings.Builder
			for _, d := range defs {
				out.WriteString(d + "\n")
			}
			rt := resTypes
			for i := len(t.thr) - 1; i >= 0; i-- {
				rt = append([]string{t.need(fd, t.thr[i]).typ}, rt...)
			}
			for i := range rt {
				rt[i] = atom(rt[i])
			}
			fmt.Fprintf(&out, "/-- %s.%s (%s:%d) -/\ndef %s (E : Env) %s : Option (%s) :=\n%s\n", f[0], f[1], pos.Filename[strings.LastIndex(pos.Filename, "/")+1:], pos.Line, f[1], strings.Join(params, " "), strings.Join(rt, " × "), smIndent(pre+body))
			bodies = append(bodies, out.String())
		}()
	}
	if len(failed) != 0 {
		sort.Strings(failed)
		fmt.Fprintf(&sb, "/-- The translator could not handle the current source. -/\ntheorem translation_failed : %s = \"\" := rfl\n", leanStr(strings.Join(failed, "; ")))
		fmt.Fprintf(&sb, "\nend %s\n", ns)
		return sb.String()
	}
	sb.WriteString(`/-- the translated functions as callees, and the oracles of the environment:
` + "`readFile name`" + ` = os.ReadFile(name) (` + "`none`" + ` = an error),
` + "`parseFile name src`" + ` = parser.ParseFile(token.NewFileSet(), name, src, 0) (` + "`none`" + ` = an error),
` + "`lineToByteOffsets`" + ` (stack/source.go, translated and tied in group Misc),
` + "`augmentCall call k`" + ` = augmentCall(call, f) (stack/source.go, translated and tied in group Aug) for the
declaration f whose identity (` + "`FA.Node.decl`" + `) is k; the call afterwards -/
structure Env where
  getFuncAST : GParsedFile → Bytes → Nat → Option (Option Nat × Option AugGlue.ErrKind)
  loadFile : GCache → Bytes → Option (GCache × Option AugGlue.ErrKind)
  augmentGoroutine : GCache → Goroutine → Option (GCache × Goroutine × Option AugGlue.ErrKind)
  augment : Snapshot → Option (Snapshot × Option AugGlue.ErrKind)
  augmentCall : Call → Nat → Option Call
  readFile : Bytes → Option Bytes
  parseFile : Bytes → Bytes → Option FA.Node
  lineToByteOffsets : Bytes → Option (List Nat)

/-- the error values: format string (or origin) and tag, as read from the source -/
def errorSites : List (String × AugGlue.ErrKind) := [`)
	for i, s := range sites {
		if i > 0 {
			sb.WriteString(", ")
		}
		fmt.Fprintf(&sb, "(%s, .%s)", leanStr(s[0]), s[1])
	}
	sb.WriteString("]\n\n")
	for _, b := range bodies {
		sb.WriteString(b + "\n")
	}
	fmt.Fprintf(&sb, "end %s\n", ns)
	return sb.String()
}
