// translate_ui.go — the fourth translated group: the console renderer internal/ui.go and the three
// functions of stack/stack.go it calls (Signature.SleepString, Arg.String, Args.String).
//
// Generated file: lean/PP/TranslatedUi.lean (namespace PP.TrU, its own Env); run-time support:
// lean/PP/Go/PreludeUi.lean; agreement with the hand-written model PP/Model/Console.lean:
// lean/PP/Tie/TranslatedUi.lean.
//
// Everything here is reached from translate.go through small hooks (t.ui…); each hook is the
// identity on the Go the three older groups use (their generated files stay byte-identical).
// New constructs, each sound-or-refuse (what each assumes is said at its definition):
//   - a group that takes functions from two packages (uiPkgOf),
//   - per-group names of types / fields / enumeration constants (trGroupTypes, trGroupFields, uiEnumConst,
//     package-qualified constants stack.GoMod …),
//   - promoted fields and methods of embedded structs (uiPromoted, uiRewriteCall),
//   - switch with fallthrough, default anywhere (uiNoFallthrough),
//   - fmt.Sprintf verbs %-*s, %08x, %x and %s of an operand with a String method (uiSprintfVerb, uiRewriteCall),
//   - append / make([]T, 0, n) / strings.Join / var v []T (uiBuiltin, uiCheckAppend, uiVarDecl),
//   - uint64 addition (uiUnsignedOp),
//   - a loop inside a loop body, a loop inside a branch of an if (trGroupNested, uiHasLoop).
package main

import (
	"fmt"
	"go/ast"
	"go/constant"
	"go/importer"
	"go/parser"
	"go/token"
	"go/types"
	"os"
	"path/filepath"
	"sort"
	"strings"
)

// the functions of the console group, in emission order; the first column says which package
var trFuncsUi = [][3]string{
	{"stack", "Signature", "SleepString"}, {"stack", "Arg", "String"}, {"stack", "Args", "String"},
	{"internal", "pathFormat", "formatCall"}, {"internal", "pathFormat", "createdByString"},
	{"internal", "", "calcBucketsLengths"}, {"internal", "", "calcGoroutinesLengths"},
	{"internal", "Palette", "funcColor"}, {"internal", "Palette", "functionColor"}, {"internal", "Palette", "routineColor"},
	{"internal", "Palette", "BucketHeader"}, {"internal", "Palette", "GoroutineHeader"},
	{"internal", "Palette", "callLine"}, {"internal", "Palette", "StackLines"},
}

// Per-group overrides, set while a group that needs them is being translated and nil otherwise
// (the translator is single-threaded).
var (
	// Go type name -> Lean type (consulted before the built-in table of leanType)
	trGroupTypes map[string]string
	// "Struct.Field" -> Lean field name (consulted after trFieldRename)
	trGroupFields map[string]string
	// Go type name -> (Go constant name -> Lean constructor), for enumerations other than Similarity / Location
	trGroupEnums map[string]map[string]string
	// Go type name -> name of the package it must come from (types are matched by name: in a group that spans
	// two packages a type of the same name declared in the other package must not be mistaken for it)
	trGroupTypePkg map[string]string
	// Lean function name -> the package its Go function is declared in, when it is not the group's own
	trGroupPkg map[string]*pkgInfo
	// may a loop body contain a loop?
	trGroupNested bool
)

// translateUi: the console group.  Types of package internal map to the model's (PP.Console.Palette,
// PP.Console.PathFormat); stack.Bucket is the model's Bucket here (not the Bkt of Aggregate's sort closure);
// stack.Aggregated is the record of PreludeUi.lean; stack.Snapshot the model's Snapshot (PP/Model/Roots.lean).
func translateUi(st, in *pkgInfo) string {
	trGroupTypes = map[string]string{"Palette": "Console.Palette", "pathFormat": "Console.PathFormat", "Bucket": "Bucket",
		"Aggregated": "Aggregated", "Snapshot": "Snapshot"}
	trGroupFields = map[string]string{"Palette.Package": "pkg", "Bucket.Signature": "sig"}
	trGroupEnums = map[string]map[string]string{"pathFormat": {"fullPath": "Console.PathFormat.fullPath",
		"relPath": "Console.PathFormat.relPath", "basePath": "Console.PathFormat.basePath"}}
	trGroupTypePkg = map[string]string{"Palette": "internal", "pathFormat": "internal"}
	for _, n := range []string{"Arg", "Args", "Call", "Stack", "Signature", "Func", "Goroutine", "Bucket", "Aggregated", "Snapshot", "Similarity", "Location"} {
		trGroupTypePkg[n] = "stack"
	}
	trGroupPkg = map[string]*pkgInfo{}
	trGroupNested = true
	defer func() {
		trGroupTypes, trGroupFields, trGroupEnums, trGroupTypePkg, trGroupPkg, trGroupNested = nil, nil, nil, nil, nil, false
	}()
	var fns [][2]string
	for _, f := range trFuncsUi {
		fns = append(fns, [2]string{f[1], f[2]})
		if f[0] == "stack" {
			trGroupPkg[trName(f[1], f[2])] = st
		}
	}
	return in.translateGroup("PP.TrU", "internal/ui.go, stack/stack.go", fns, false, []string{"PP.Go.PreludeUi"}, nil)
}

// loadUi type-checks package stack and package internal for the console group.  The source importer
// main.go's load uses cannot resolve the module's own import path from the extractor's directory, so that
// every stack.T seen from package internal is an invalid type there (harmless for the syntactic facts of
// Extracted.lean, fatal for a translation).  Here package internal is checked against the package stack
// checked just before, with one importer for the standard library.  Imports that stay unresolved
// (third-party packages used by internal/main.go only) leave invalid types behind, which the translator
// refuses by name wherever a translated function would touch one.
func loadUi(repo string) (st, in *pkgInfo) {
	fset := token.NewFileSet()
	base := importer.ForCompiler(fset, "source", nil)
	const stackPath = "github.com/maruel/panicparse/v2/stack"
	parse := func(dir string) []*ast.File {
		pkgs, err := parser.ParseDir(fset, dir, func(fi os.FileInfo) bool {
			n := fi.Name()
			return !strings.HasSuffix(n, "_test.go") && n != "regen.go" && n != "verif_hooks.go"
		}, parser.ParseComments)
		if err != nil {
			die("parse %s: %v", dir, err)
		}
		var files []*ast.File
		for _, p := range pkgs {
			var names []string
			for n := range p.Files {
				names = append(names, n)
			}
			sort.Strings(names)
			for _, n := range names {
				files = append(files, p.Files[n])
			}
		}
		return files
	}
	check := func(dir, path string, imp types.Importer) *pkgInfo {
		files := parse(dir)
		info := &types.Info{Defs: map[*ast.Ident]types.Object{}, Uses: map[*ast.Ident]types.Object{}, Types: map[ast.Expr]types.TypeAndValue{}, Selections: map[*ast.SelectorExpr]*types.Selection{}}
		conf := types.Config{Importer: imp, Error: func(error) {}}
		pkg, _ := conf.Check(path, fset, files, info)
		return &pkgInfo{fset: fset, files: files, info: info, pkg: pkg}
	}
	st = check(filepath.Join(repo, "stack"), stackPath, base)
	in = check(filepath.Join(repo, "internal"), "github.com/maruel/panicparse/v2/internal", uiImporter{base, map[string]*types.Package{stackPath: st.pkg}})
	return st, in
}

// uiImporter: an importer that knows some packages already
type uiImporter struct {
	base  types.Importer
	known map[string]*types.Package
}

func (u uiImporter) Import(path string) (*types.Package, error) {
	if p, ok := u.known[path]; ok {
		return p, nil
	}
	return u.base.Import(path)
}

func (u uiImporter) ImportFrom(path, dir string, mode types.ImportMode) (*types.Package, error) {
	if p, ok := u.known[path]; ok {
		return p, nil
	}
	if f, ok := u.base.(types.ImporterFrom); ok {
		return f.ImportFrom(path, dir, mode)
	}
	return u.base.Import(path)
}

// uiNamedType: the group's own Lean name of a Go named type, after checking that the type comes from the
// package the group expects a type of that name from.
func (t *translator) uiNamedType(n ast.Node, x *types.Named) (string, bool) {
	name := x.Obj().Name()
	if want, ok := trGroupTypePkg[name]; ok && (x.Obj().Pkg() == nil || x.Obj().Pkg().Name() != want) {
		t.fail(n, "type %s is not the %s of package %s", x, name, want)
	}
	r, ok := trGroupTypes[name]
	return r, ok
}

// uiPkgOf: the package the Go function with this Lean name is declared in (p unless the group says otherwise).
// The two packages are type-checked separately; types are matched by name (stack.Call seen from package
// internal is the Call of package stack), which leanType does anyway.
func (p *pkgInfo) uiPkgOf(name string) *pkgInfo {
	if q, ok := trGroupPkg[name]; ok {
		return q
	}
	return p
}

// uiEnumConst: a constant of one of the group's enumeration types, named by an identifier (`relPath`) or by
// a package-qualified identifier.  Any other constant expression of such a type is refused (its Lean
// spelling would be a number).
func (t *translator) uiEnumConst(e ast.Expr, ty types.Type) (string, bool) {
	n, ok := ty.(*types.Named)
	if !ok {
		return "", false
	}
	m, ok := trGroupEnums[n.Obj().Name()]
	if !ok {
		return "", false
	}
	name := ""
	switch x := e.(type) {
	case *ast.Ident:
		name = x.Name
	case *ast.SelectorExpr:
		if pk, ok := x.X.(*ast.Ident); ok {
			if _, isPkg := t.p.info.Uses[pk].(*types.PkgName); isPkg {
				name = x.Sel.Name
			}
		}
	}
	if c, ok := m[name]; ok {
		// the identifier must denote the package-level constant, not a local of the same name
		if id, isId := e.(*ast.Ident); isId {
			if c2, isConst := t.p.info.Uses[id].(*types.Const); !isConst || c2.Parent() != c2.Pkg().Scope() {
				t.fail(e, "%s is not the package-level constant", name)
			}
		}
		return c, true
	}
	t.fail(e, "enum constant expression of type %s", n.Obj().Name())
	return "", false
}

// uiQualifiedEnum: stack.LocationUnknown, stack.GoMod, … seen from another package: the same Lean
// constructors as the unqualified names inside package stack.
func (t *translator) uiQualifiedEnum(e ast.Expr) (string, bool) {
	sel, ok := e.(*ast.SelectorExpr)
	if !ok {
		return "", false
	}
	pk, ok := sel.X.(*ast.Ident)
	if !ok {
		return "", false
	}
	pn, isPkg := t.p.info.Uses[pk].(*types.PkgName)
	if !isPkg || pn.Imported().Name() != "stack" {
		return "", false
	}
	c, ok := trEnumConst[sel.Sel.Name]
	return c, ok
}

// uiPromoted: x.f where f is a field promoted from an embedded struct (b.Locked for b *stack.Bucket, which
// embeds Signature): the selector with the embedded fields written out (b.Signature.Locked), as the type
// checker resolved it (types.Info.Selections).  Refused when an embedded field on the way is a pointer (a nil
// dereference the value translation cannot express).  Anything else is returned unchanged.
func (t *translator) uiPromoted(x *ast.SelectorExpr) ast.Expr {
	if y, ok := t.uiSel[x]; ok {
		return y
	}
	sel := t.p.info.Selections[x]
	if sel == nil || sel.Kind() != types.FieldVal || len(sel.Index()) < 2 {
		return x
	}
	cur := t.uiEmbeddedPath(x, x.X, sel)
	y := &ast.SelectorExpr{X: cur, Sel: x.Sel}
	if tv, ok := t.p.info.Types[x]; ok {
		t.p.info.Types[y] = tv
	}
	if t.uiSel == nil {
		t.uiSel = map[*ast.SelectorExpr]ast.Expr{}
	}
	t.uiSel[x] = y
	return y
}

// uiEmbeddedPath: base.E1.E2… for the embedded fields a selection goes through (all but the last index).
func (t *translator) uiEmbeddedPath(at ast.Node, base ast.Expr, sel *types.Selection) ast.Expr {
	cur := base
	ty := sel.Recv()
	for _, idx := range sel.Index()[:len(sel.Index())-1] {
		if p, ok := ty.Underlying().(*types.Pointer); ok {
			ty = p.Elem()
		}
		s, ok := ty.Underlying().(*types.Struct)
		if !ok {
			t.fail(at, "promoted selector through a type that is not a struct")
		}
		f := s.Field(idx)
		if !f.Embedded() {
			t.fail(at, "promoted selector through a field that is not embedded")
		}
		if _, isPtr := f.Type().Underlying().(*types.Pointer); isPtr {
			t.fail(at, "promoted selector through an embedded pointer (%s)", f.Name())
		}
		next := &ast.SelectorExpr{X: cur, Sel: &ast.Ident{NamePos: at.Pos(), Name: f.Name()}}
		t.p.info.Types[next] = types.TypeAndValue{Type: f.Type()}
		cur = next
		ty = f.Type()
	}
	return cur
}

// uiRewriteCall makes two implicit things of a call explicit (the result is cached, and is the call itself
// when there is nothing to do):
//
//  1. x.m(…) where m is a method promoted from an embedded struct (b.SleepString() for b *stack.Bucket):
//     the receiver becomes the embedded field (b.Signature.SleepString()), as in uiPromoted.
//
//  2. fmt.Sprintf(format, …) where the operand of a plain %s is not a string but has a method
//     String() string (and neither Error() nor Format(), which fmt would prefer): the operand becomes the
//     call operand.String(), which is what fmt's handleMethods does.  ASSUMES the String method does not
//     panic: fmt recovers such a panic and prints "%!s(PANIC=String method: …)", whereas the translation
//     propagates it (`none`); the tie theorem of the callee shows it is `some` for every input.  A nil
//     pointer operand (fmt prints "<nil>") is excluded like every nil pointer: pointers are values here.
func (t *translator) uiRewriteCall(x *ast.CallExpr) *ast.CallExpr {
	if y, ok := t.uiCall[x]; ok {
		return y
	}
	y := x
	if sel, ok := x.Fun.(*ast.SelectorExpr); ok {
		if s := t.p.info.Selections[sel]; s != nil && s.Kind() == types.MethodVal && len(s.Index()) > 1 {
			recv := t.uiEmbeddedPath(sel, sel.X, s)
			c := *x
			c.Fun = &ast.SelectorExpr{X: recv, Sel: sel.Sel}
			y = &c
			if tv, ok := t.p.info.Types[x]; ok {
				t.p.info.Types[y] = tv
			}
		} else if t.uiIsPkgFunc(sel, "fmt", "Sprintf") && len(x.Args) > 0 {
			if tv, ok := t.p.info.Types[x.Args[0]]; ok && tv.Value != nil && tv.Value.Kind() == constant.String {
				y = t.uiSprintfStringers(x, constant.StringVal(tv.Value))
			}
		}
	}
	if t.uiCall == nil {
		t.uiCall = map[*ast.CallExpr]*ast.CallExpr{}
	}
	t.uiCall[x] = y
	t.uiCall[y] = y
	return y
}

func (t *translator) uiIsPkgFunc(sel *ast.SelectorExpr, pkg, name string) bool {
	pk, ok := sel.X.(*ast.Ident)
	if !ok || sel.Sel.Name != name {
		return false
	}
	pn, isPkg := t.p.info.Uses[pk].(*types.PkgName)
	return isPkg && pn.Imported().Path() == pkg
}

// uiVerbs: the verbs of a format string in order: for each, the text after '%' up to and including the verb
// letter and the number of operands it takes.  `%%` is skipped.  ok=false for a format this scanner does not
// understand (then nothing is rewritten and the Sprintf translation itself refuses it).
func uiVerbs(f string) (verbs []string, ok bool) {
	for i := 0; i < len(f); i++ {
		if f[i] != '%' {
			continue
		}
		i++
		if i == len(f) {
			return nil, false
		}
		if f[i] == '%' {
			continue
		}
		j := i
		for j < len(f) && strings.IndexByte("+-# 0123456789*.", f[j]) >= 0 {
			j++
		}
		if j == len(f) {
			return nil, false
		}
		verbs = append(verbs, f[i:j+1])
		i = j
	}
	return verbs, true
}

func (t *translator) uiSprintfStringers(x *ast.CallExpr, f string) *ast.CallExpr {
	verbs, ok := uiVerbs(f)
	if !ok {
		return x
	}
	var args []ast.Expr
	changed := false
	ai := 1
	args = append(args, x.Args[0])
	for _, v := range verbs {
		n := 1 + strings.Count(v, "*")
		for k := 0; k < n && ai < len(x.Args); k++ {
			a := x.Args[ai]
			ai++
			if k == n-1 && v == "s" && t.uiIsStringer(a) {
				call := &ast.CallExpr{Fun: &ast.SelectorExpr{X: a, Sel: &ast.Ident{NamePos: a.Pos(), Name: "String"}}, Lparen: a.End(), Rparen: a.End()}
				t.p.info.Types[call] = types.TypeAndValue{Type: types.Typ[types.String]}
				a = call
				changed = true
			}
			args = append(args, a)
		}
	}
	if !changed {
		return x
	}
	args = append(args, x.Args[ai:]...)
	c := *x
	c.Args = args
	if tv, ok := t.p.info.Types[x]; ok {
		t.p.info.Types[&c] = tv
	}
	return &c
}

// uiIsStringer: the static type of a is not a string type and its method set has String() string but neither
// Error nor Format (fmt tries Formatter, then error, then Stringer).  The operand must have a concrete
// (non-interface) type: its dynamic type is then its static type.
func (t *translator) uiIsStringer(a ast.Expr) bool {
	ty := t.typeOf(a)
	if b, ok := ty.Underlying().(*types.Basic); ok && b.Info()&types.IsString != 0 {
		return false
	}
	if _, isIface := ty.Underlying().(*types.Interface); isIface {
		return false
	}
	ms := types.NewMethodSet(ty)
	var str *types.Func
	for i := 0; i < ms.Len(); i++ {
		switch ms.At(i).Obj().Name() {
		case "Error", "Format":
			return false
		case "String":
			str, _ = ms.At(i).Obj().(*types.Func)
		}
	}
	if str == nil {
		return false
	}
	sig := str.Type().(*types.Signature)
	if sig.Params().Len() != 0 || sig.Results().Len() != 1 {
		return false
	}
	b, ok := sig.Results().At(0).Type().Underlying().(*types.Basic)
	return ok && b.Kind() == types.String
}

// uiSprintfVerb: the verbs the console code adds to the %s / %d of the older groups.  rest is the format
// after a '%'; returns how many bytes of it were consumed (0 = not one of these) and the Lean term.
//
//	%-*s  two operands, an `int` width and a string: the model's Console.fmtPadRight (fmt.padString pads
//	      with width - RuneCountInString(s) spaces on the right; a width above 10^6 is rejected by fmt, which
//	      then writes "%!(BADWIDTH)" and formats without width).  ASSUMES the width is not negative, like
//	      every Go int of the translated code (ints are Nat); for a negative width fmt pads to -width.
//	%08x  an unsigned integer, lower-case hexadecimal, zero padded on the left to 8 digits: Console.fmtHex08
//	%x    an unsigned integer, lower-case hexadecimal: Console.fmtHex
func (t *translator) uiSprintfVerb(x *ast.CallExpr, rest string, ai *int, sub func(ast.Expr) string) (int, string) {
	arg := func() ast.Expr {
		if *ai >= len(x.Args) {
			t.fail(x, "fmt.Sprintf: missing argument")
		}
		a := x.Args[*ai]
		*ai++
		return a
	}
	kind := func(a ast.Expr) *types.Basic {
		b, _ := t.typeOf(a).Underlying().(*types.Basic)
		return b
	}
	switch {
	case strings.HasPrefix(rest, "-*s"):
		w, s := arg(), arg()
		if b, ok := t.typeOf(w).(*types.Basic); !ok || b.Kind() != types.Int {
			t.fail(x, "fmt.Sprintf: the width of %%-*s must be an int, not %s", t.typeOf(w))
		}
		if b := kind(s); b == nil || b.Info()&types.IsString == 0 {
			t.fail(x, "fmt.Sprintf: verb %%-*s with an operand of type %s", t.typeOf(s))
		}
		return 3, fmt.Sprintf("Console.fmtPadRight %s %s", atom(sub(w)), atom(sub(s)))
	case strings.HasPrefix(rest, "08x"), strings.HasPrefix(rest, "x"):
		a := arg()
		if b := kind(a); b == nil || b.Info()&types.IsUnsigned == 0 || b.Kind() == types.Uint8 {
			t.fail(x, "fmt.Sprintf: verb %%x with an operand of type %s (only unsigned integers wider than a byte)", t.typeOf(a))
		}
		if rest[0] == 'x' {
			return 1, "Console.fmtHex " + atom(sub(a))
		}
		return 3, "Console.fmtHex08 " + atom(sub(a))
	}
	return 0, ""
}

// uiBuiltin: library functions and built-ins of the console group.
//
//	strings.Join(v, sep)       the model's Bytes.join
//	make([]T, 0, n)            the empty list (n is evaluated: it is an operand like any other; a negative n
//	                           would panic in Go - ints are Nat here)
//	append(v, x)               v ++ [x]; only as `v = append(v, x)` on a local slice that is never copied
//	                           (uiCheckAppend): value semantics is then exact
func (t *translator) uiBuiltin(name string, x *ast.CallExpr, sub func(ast.Expr) string) (string, bool) {
	isBuiltin := func() bool {
		id, ok := x.Fun.(*ast.Ident)
		if !ok {
			return false
		}
		_, ok = t.p.info.Uses[id].(*types.Builtin)
		return ok
	}
	switch name {
	case "strings.Join":
		if len(x.Args) != 2 {
			return "", false
		}
		return fmt.Sprintf("(Bytes.join %s %s)", atom(sub(x.Args[1])), atom(sub(x.Args[0]))), true
	case "make":
		if !isBuiltin() || len(x.Args) != 3 {
			return "", false
		}
		sl, ok := t.typeOf(x.Args[0]).(*types.Slice)
		if !ok {
			return "", false
		}
		if tv, ok := t.p.info.Types[x.Args[1]]; !ok || tv.Value == nil || tv.Value.ExactString() != "0" {
			t.fail(x, "make([]T, n, m) with a length that is not the constant 0")
		}
		_ = sub(x.Args[2])
		return fmt.Sprintf("([] : %s)", t.leanType(x, sl)), true
	case "append":
		if !isBuiltin() {
			return "", false
		}
		if len(x.Args) != 2 || x.Ellipsis.IsValid() {
			t.fail(x, "append with other than one element")
		}
		t.uiCheckAppend(x)
		first := x.Args[0]
		if id := t.uiCapped(first); id != nil {
			first = id
		}
		return fmt.Sprintf("(%s ++ [%s])", sub(first), sub(x.Args[1])), true
	}
	return "", false
}

// uiCheckAppend: `v = append(v, x)` is translated as v ++ [x].  Go's append may write into the backing array
// v shares with other slices, so value semantics is exact only when no other slice value of the function can
// observe that array.  Accepted when
//   - v is a local variable of the function (not a parameter, not a field), and the result is assigned to v itself;
//   - v is never copied: every other occurrence of v in the function body is the left-hand side of an
//     assignment (v = …, v[i] = …), an index read v[i], len(v), the range expression of a loop, or the first
//     operand of strings.Join.
//
// What v was assigned from (a field of a parameter: v = a.Processed) can share the array, but append only
// writes beyond that slice's length, which no value reachable from the parameters observes as long as the
// parameters are trees (no two slices of the parameters share an array: the standing assumption of the
// translation, Prelude.lean).
// uiCapped: e is v[:len(v):len(v)] for a variable v (the full slice expression that sets the capacity to
// the length, so that a following append copies): returns v.  The value is v's, and the expression cannot
// panic (0 <= len(v) <= len(v) <= cap(v)).
func (t *translator) uiCapped(e ast.Expr) *ast.Ident {
	sl, ok := e.(*ast.SliceExpr)
	if !ok || !sl.Slice3 || sl.Low != nil {
		return nil
	}
	v, ok := sl.X.(*ast.Ident)
	if !ok {
		return nil
	}
	obj := t.p.info.Uses[v]
	isLenV := func(x ast.Expr) bool {
		c, ok := x.(*ast.CallExpr)
		if !ok || len(c.Args) != 1 {
			return false
		}
		f, ok := c.Fun.(*ast.Ident)
		if !ok || f.Name != "len" {
			return false
		}
		if _, isB := t.p.info.Uses[f].(*types.Builtin); !isB {
			return false
		}
		a, ok := c.Args[0].(*ast.Ident)
		return ok && obj != nil && t.p.info.Uses[a] == obj
	}
	if !isLenV(sl.High) || !isLenV(sl.Max) {
		return nil
	}
	return v
}

func (t *translator) uiCheckAppend(call *ast.CallExpr) {
	if t.uiAppend[call] {
		return
	}
	if t.body == nil {
		t.fail(call, "append outside a function body")
	}
	// the assignment the call is the right-hand side of
	var as *ast.AssignStmt
	ast.Inspect(t.body, func(n ast.Node) bool {
		if a, ok := n.(*ast.AssignStmt); ok && len(a.Lhs) == 1 && len(a.Rhs) == 1 && a.Rhs[0] == ast.Expr(call) && a.Tok == token.ASSIGN {
			as = a
		}
		return as == nil
	})
	if as == nil {
		t.fail(call, "append other than `v = append(v, x)`")
	}
	dst, ok1 := as.Lhs[0].(*ast.Ident)
	src, ok2 := call.Args[0].(*ast.Ident)
	if c := t.uiCapped(call.Args[0]); c != nil {
		src, ok2 = c, true
	}
	if !ok1 || !ok2 {
		t.fail(as, "append other than `v = append(v, x)` on a local variable")
	}
	obj, isVar := t.p.info.Uses[dst].(*types.Var)
	if !isVar || t.p.info.Uses[src] != types.Object(obj) {
		t.fail(as, "append whose result is not assigned to the slice it extends")
	}
	for _, p := range t.params {
		if p.obj == types.Object(obj) {
			t.fail(as, "append to a parameter")
		}
	}
	if obj.Parent() == nil || obj.Parent() == t.p.pkg.Scope() || obj.IsField() {
		t.fail(as, "append to something other than a local variable")
	}
	if bad := t.uiSliceCopied(t.body, obj); bad != nil {
		t.fail(bad, "%s is extended by append and used here in a way that may share its backing array", dst.Name)
	}
	if t.uiAppend == nil {
		t.uiAppend = map[*ast.CallExpr]bool{}
	}
	t.uiAppend[call] = true
}

// uiSliceCopied: the first occurrence of the variable in body that is not one of the uses listed at
// uiCheckAppend (nil if there is none).
func (t *translator) uiSliceCopied(body *ast.BlockStmt, obj *types.Var) ast.Node {
	allowed := map[*ast.Ident]bool{}
	is := func(e ast.Expr) (*ast.Ident, bool) {
		id, ok := e.(*ast.Ident)
		if ok && (t.p.info.Uses[id] == types.Object(obj) || t.p.info.Defs[id] == types.Object(obj)) {
			return id, true
		}
		return nil, false
	}
	ast.Inspect(body, func(n ast.Node) bool {
		switch x := n.(type) {
		case *ast.AssignStmt:
			for i, l := range x.Lhs {
				if id, ok := is(l); ok {
					allowed[id] = true
					// v = append(v, …): the operand too
					if i < len(x.Rhs) && len(x.Lhs) == len(x.Rhs) {
						if c, ok := x.Rhs[i].(*ast.CallExpr); ok && len(c.Args) > 0 {
							if f, ok := c.Fun.(*ast.Ident); ok && f.Name == "append" {
								if _, isB := t.p.info.Uses[f].(*types.Builtin); isB {
									if a, ok := is(c.Args[0]); ok {
										allowed[a] = true
									}
									if cv := t.uiCapped(c.Args[0]); cv != nil {
										if a, ok := is(cv); ok {
											allowed[a] = true
										}
									}
								}
							}
						}
					}
				}
			}
		case *ast.ValueSpec:
			for _, nm := range x.Names {
				if _, ok := is(nm); ok {
					allowed[nm] = true
				}
			}
		case *ast.IndexExpr:
			if id, ok := is(x.X); ok {
				allowed[id] = true
			}
		case *ast.RangeStmt:
			if id, ok := is(x.X); ok {
				allowed[id] = true
			}
		case *ast.CallExpr:
			if f, ok := x.Fun.(*ast.Ident); ok && f.Name == "len" && len(x.Args) == 1 {
				if _, isB := t.p.info.Uses[f].(*types.Builtin); isB {
					if id, ok := is(x.Args[0]); ok {
						allowed[id] = true
					}
				}
			}
			if sel, ok := x.Fun.(*ast.SelectorExpr); ok && t.uiIsPkgFunc(sel, "strings", "Join") && len(x.Args) == 2 {
				if id, ok := is(x.Args[0]); ok {
					allowed[id] = true
				}
			}
		}
		return true
	})
	var bad ast.Node
	ast.Inspect(body, func(n ast.Node) bool {
		if id, ok := n.(*ast.Ident); ok && bad == nil {
			if _, mine := is(id); mine && !allowed[id] {
				bad = id
			}
		}
		return bad == nil
	})
	return bad
}

// uiVarDecl: `var v []T` (one name, no initial value, a slice type): the nil slice, the empty list.
func (t *translator) uiVarDecl(x *ast.DeclStmt, cont func() string) (string, bool) {
	gd, ok := x.Decl.(*ast.GenDecl)
	if !ok || gd.Tok != token.VAR || len(gd.Specs) != 1 {
		return "", false
	}
	vs, ok := gd.Specs[0].(*ast.ValueSpec)
	if !ok || len(vs.Names) != 1 || len(vs.Values) != 0 || vs.Type == nil || vs.Names[0].Name == "_" {
		return "", false
	}
	ty := t.typeOf(vs.Type)
	if _, isSlice := ty.Underlying().(*types.Slice); !isSlice {
		return "", false
	}
	typ := t.leanType(x, ty)
	id := vs.Names[0]
	t.declare(lid(id.Name), typ, t.p.info.Defs[id])
	return fmt.Sprintf("let %s : %s := []\n%s%s", lid(id.Name), typ, t.ind(), cont()), true
}

// uiUnsignedOp: arithmetic on unsigned integers wraps in Go and does not in Lean's Nat.  uint64 addition is
// translated modulo 2^64 (ASSUMES both operands are below 2^64, as every uint64 value of the model is);
// uint8 is Lean's UInt8, which wraps by itself; any other unsigned arithmetic is refused.
func (t *translator) uiUnsignedOp(x *ast.BinaryExpr) (string, bool) {
	b, ok := t.typeOf(x.X).Underlying().(*types.Basic)
	if !ok || b.Info()&types.IsUnsigned == 0 || b.Kind() == types.Uint8 {
		return "", false
	}
	if b.Kind() == types.Uint64 && x.Op == token.ADD {
		return "18446744073709551616", true
	}
	t.fail(x, "%s on %s (wraps around in Go)", x.Op, b.Name())
	return "", false
}

// uiHasLoop: does the statement contain a loop?
func uiHasLoop(n ast.Node) bool {
	found := false
	ast.Inspect(n, func(m ast.Node) bool {
		switch m.(type) {
		case *ast.RangeStmt, *ast.ForStmt:
			found = true
		}
		return !found
	})
	return found
}

// uiNoFallthrough: a switch some of whose clauses end in `fallthrough` becomes the switch in which such a
// clause is followed by the statements of the clause after it (textually - `default` may stand anywhere and
// is still chosen last): Go transfers control to the first statement of the next clause without evaluating
// its case expressions.  The language only allows `fallthrough` as the last statement of a clause that is
// not the last one, so none is left afterwards (the older check for break/fallthrough still runs on the
// result).  Each clause is a block of its own in Go and a flat statement list here: an identifier of the
// next clause captured by a declaration of the clause before is caught by checkBinding.
func (t *translator) uiNoFallthrough(x *ast.SwitchStmt) *ast.SwitchStmt {
	ends := func(cc *ast.CaseClause) bool {
		if len(cc.Body) == 0 {
			return false
		}
		b, ok := cc.Body[len(cc.Body)-1].(*ast.BranchStmt)
		return ok && b.Tok == token.FALLTHROUGH
	}
	any := false
	for _, c := range x.Body.List {
		if ends(c.(*ast.CaseClause)) {
			any = true
		}
	}
	if !any {
		return x
	}
	n := len(x.Body.List)
	bodies := make([][]ast.Stmt, n)
	for i := n - 1; i >= 0; i-- {
		cc := x.Body.List[i].(*ast.CaseClause)
		if ends(cc) {
			if i == n-1 {
				t.fail(cc, "fallthrough in the last clause")
			}
			bodies[i] = append(append([]ast.Stmt{}, cc.Body[:len(cc.Body)-1]...), bodies[i+1]...)
		} else {
			bodies[i] = cc.Body
		}
	}
	y := *x
	blk := *x.Body
	blk.List = nil
	for i, c := range x.Body.List {
		cc := *c.(*ast.CaseClause)
		cc.Body = bodies[i]
		blk.List = append(blk.List, &cc)
	}
	y.Body = &blk
	return &y
}
