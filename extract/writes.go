package main

import (
	"fmt"
	"go/ast"
	"go/printer"
	"go/token"
	"go/types"
	"sort"
	"strings"
)

// writeSet lists, for the functions reachable from Aggregate / ToHTML / the
// console writers, every statement that writes through something other than a
// plain local variable: assignments whose left side is an index, selector or
// dereference expression, inc/dec of such, and calls to sort.* (which permute
// their argument).  Each entry is "func | expression | origin of its root
// variable", origin being one of
//   fresh   - a local initialised in this function from make / a composite
//             literal / & of one / new / append to nil / a call result
//   param, receiver, range (a range variable), global, local (other local)
func (p *pkgInfo) writeSet(funcs map[string]bool) []string {
	var out []string
	for _, f := range p.files {
		for _, d := range f.Decls {
			fd, ok := d.(*ast.FuncDecl)
			if !ok || fd.Body == nil {
				continue
			}
			name := fd.Name.Name
			if fd.Recv != nil && len(fd.Recv.List) == 1 {
				t := fd.Recv.List[0].Type
				if s, ok := t.(*ast.StarExpr); ok {
					t = s.X
				}
				if id, ok := t.(*ast.Ident); ok {
					name = id.Name + "." + name
				}
			}
			if !funcs[name] {
				continue
			}
			origin := map[types.Object]string{}
			if fd.Recv != nil {
				for _, fl := range fd.Recv.List {
					for _, n := range fl.Names {
						origin[p.info.Defs[n]] = "receiver"
					}
				}
			}
			for _, fl := range fd.Type.Params.List {
				for _, n := range fl.Names {
					origin[p.info.Defs[n]] = "param"
				}
			}
			if fd.Type.Results != nil {
				for _, fl := range fd.Type.Results.List {
					for _, n := range fl.Names {
						origin[p.info.Defs[n]] = "fresh" // named results are owned by the call
					}
				}
			}
			// originOf: where the storage an expression designates comes from. A
			// local initialised from (a part of) something inherits its origin, so
			// `out := a.Values; out[i] = x` is a write through the receiver.
			var originOf func(e ast.Expr) string
			originOf = func(e ast.Expr) string {
				switch v := e.(type) {
				case *ast.CallExpr:
					if id, ok := v.Fun.(*ast.Ident); ok {
						switch id.Name {
						case "make", "new":
							return "fresh"
						case "append":
							if len(v.Args) > 0 {
								return originOf(v.Args[0])
							}
						}
					}
					return "fresh" // a call result
				case *ast.CompositeLit, *ast.BasicLit, *ast.FuncLit:
					return "fresh"
				case *ast.UnaryExpr:
					return originOf(v.X)
				case *ast.StarExpr:
					return originOf(v.X)
				case *ast.ParenExpr:
					return originOf(v.X)
				case *ast.IndexExpr:
					return originOf(v.X)
				case *ast.SliceExpr:
					return originOf(v.X)
				case *ast.SelectorExpr:
					return originOf(v.X)
				case *ast.TypeAssertExpr:
					return originOf(v.X)
				case *ast.Ident:
					if v.Name == "nil" {
						return "fresh"
					}
					obj := p.info.Uses[v]
					if obj == nil {
						obj = p.info.Defs[v]
					}
					if o, ok := origin[obj]; ok {
						return o
					}
					if obj != nil && obj.Parent() == p.pkg.Scope() {
						return "global"
					}
					return "fresh" // constants, builtins
				}
				return "local"
			}
			classify := originOf
			ast.Inspect(fd.Body, func(n ast.Node) bool {
				switch v := n.(type) {
				case *ast.AssignStmt:
					if v.Tok == token.DEFINE {
						for i, l := range v.Lhs {
							if id, ok := l.(*ast.Ident); ok && p.info.Defs[id] != nil {
								o := "local"
								if len(v.Rhs) == len(v.Lhs) {
									o = classify(v.Rhs[i])
								}
								origin[p.info.Defs[id]] = o
							}
						}
					}
				case *ast.RangeStmt:
					for _, e := range []ast.Expr{v.Key, v.Value} {
						if id, ok := e.(*ast.Ident); ok && p.info.Defs[id] != nil {
							origin[p.info.Defs[id]] = "range"
						}
					}
				case *ast.ValueSpec:
					for i, id := range v.Names {
						o := "fresh" // var x T : zero value owned by this function
						if i < len(v.Values) {
							o = classify(v.Values[i])
						}
						origin[p.info.Defs[id]] = o
					}
				}
				return true
			})
			// rootOf: the origin of the root variable of a write target, and whether
			// the written storage is reached through an indirection (slice or map
			// element, pointer dereference - explicit or implied by a selector on a
			// pointer). Without an indirection the write only changes the local
			// variable itself (e.g. a field of a struct copy) and is not a write
			// into anything the caller can see, unless the root is a package-level
			// variable.
			rootOf := func(e ast.Expr) (string, bool) {
				through := false
				under := func(x ast.Expr) types.Type {
					if t := p.info.TypeOf(x); t != nil {
						return t.Underlying()
					}
					return nil
				}
				for {
					switch v := e.(type) {
					case *ast.IndexExpr:
						switch t := under(v.X).(type) {
						case *types.Slice, *types.Map:
							through = true
						case *types.Pointer:
							through = true
							_ = t
						case nil:
							through = true
						}
						e = v.X
						continue
					case *ast.SelectorExpr:
						switch under(v.X).(type) {
						case *types.Pointer, nil:
							through = true
						}
						e = v.X
						continue
					case *ast.StarExpr:
						e, through = v.X, true
						continue
					case *ast.ParenExpr:
						e = v.X
						continue
					case *ast.SliceExpr:
						e, through = v.X, true
						continue
					case *ast.Ident:
						obj := p.info.Uses[v]
						if obj == nil {
							obj = p.info.Defs[v]
						}
						if obj != nil && obj.Parent() == p.pkg.Scope() {
							return "global", true
						}
						if o, ok := origin[obj]; ok {
							return o, through
						}
						return "local", through
					}
					return "other", through
				}
			}
			show := func(e ast.Expr) string {
				var sb strings.Builder
				printer.Fprint(&sb, p.fset, e)
				return sb.String()
			}
			ast.Inspect(fd.Body, func(n ast.Node) bool {
				switch v := n.(type) {
				case *ast.AssignStmt:
					if v.Tok == token.DEFINE {
						return true
					}
					for _, l := range v.Lhs {
						if o, through := rootOf(l); through || o == "global" {
							out = append(out, fmt.Sprintf("%s | %s | %s", name, show(l), o))
						}
					}
				case *ast.IncDecStmt:
					if o, through := rootOf(v.X); through || o == "global" {
						out = append(out, fmt.Sprintf("%s | %s | %s", name, show(v.X), o))
					}
				case *ast.CallExpr:
					if sel, ok := v.Fun.(*ast.SelectorExpr); ok {
						if x, ok := sel.X.(*ast.Ident); ok && x.Name == "sort" && len(v.Args) > 0 {
							o, _ := rootOf(v.Args[0])
							out = append(out, fmt.Sprintf("%s | sort.%s(%s) | %s", name, sel.Sel.Name, show(v.Args[0]), o))
						}
					}
				}
				return true
			})
		}
	}
	sort.Strings(out)
	return out
}

// goStmts lists the functions that start goroutines.
func (p *pkgInfo) goStmts() []string {
	var out []string
	for _, f := range p.files {
		for _, d := range f.Decls {
			fd, ok := d.(*ast.FuncDecl)
			if !ok || fd.Body == nil {
				continue
			}
			ast.Inspect(fd.Body, func(n ast.Node) bool {
				if _, ok := n.(*ast.GoStmt); ok {
					out = append(out, fd.Name.Name)
				}
				return true
			})
		}
	}
	sort.Strings(out)
	return out
}

// nonFresh reduces a write set to the deduplicated "func | origin" pairs whose
// origin is not a value created inside the call.
func nonFresh(ws []string) []string {
	seen := map[string]bool{}
	var out []string
	for _, w := range ws {
		parts := strings.Split(w, " | ")
		if len(parts) != 3 || parts[2] == "fresh" {
			continue
		}
		k := parts[0] + " | " + parts[2]
		if !seen[k] {
			seen[k] = true
			out = append(out, k)
		}
	}
	sort.Strings(out)
	return out
}

// funcNames lists every function and method of the package as Recv.Name.
func (p *pkgInfo) funcNames() []string {
	var out []string
	for _, f := range p.files {
		for _, d := range f.Decls {
			fd, ok := d.(*ast.FuncDecl)
			if !ok || fd.Body == nil {
				continue
			}
			name := fd.Name.Name
			if fd.Recv != nil && len(fd.Recv.List) == 1 {
				t := fd.Recv.List[0].Type
				if s, ok := t.(*ast.StarExpr); ok {
					t = s.X
				}
				if id, ok := t.(*ast.Ident); ok {
					name = id.Name + "." + name
				}
			}
			out = append(out, name)
		}
	}
	sort.Strings(out)
	return out
}

// reachable returns the functions of the package reachable from the roots by
// calls or references to package-level functions and methods (Recv.Name keys).
func (p *pkgInfo) reachable(roots []string) map[string]bool {
	key := func(fn *types.Func) string {
		sig, _ := fn.Type().(*types.Signature)
		if sig != nil && sig.Recv() != nil {
			t := sig.Recv().Type()
			if pt, ok := t.(*types.Pointer); ok {
				t = pt.Elem()
			}
			if n, ok := t.(*types.Named); ok {
				return n.Obj().Name() + "." + fn.Name()
			}
		}
		return fn.Name()
	}
	edges := map[string][]string{}
	for _, f := range p.files {
		for _, d := range f.Decls {
			fd, ok := d.(*ast.FuncDecl)
			if !ok || fd.Body == nil {
				continue
			}
			fobj, _ := p.info.Defs[fd.Name].(*types.Func)
			if fobj == nil {
				continue
			}
			from := key(fobj)
			ast.Inspect(fd.Body, func(n ast.Node) bool {
				id, ok := n.(*ast.Ident)
				if !ok {
					return true
				}
				if callee, ok := p.info.Uses[id].(*types.Func); ok && callee.Pkg() == p.pkg {
					edges[from] = append(edges[from], key(callee))
				}
				return true
			})
		}
	}
	seen := map[string]bool{}
	var visit func(n string)
	visit = func(n string) {
		if seen[n] {
			return
		}
		seen[n] = true
		for _, m := range edges[n] {
			visit(m)
		}
	}
	for _, r := range roots {
		visit(r)
	}
	return seen
}

// sharedSliceWrites lists every statement, in any function of the package, that
// writes into (or permutes, or copies over) a slice reached through the named
// field: element assignments, inc/dec, sort.* / slices.* calls and copy() whose
// first argument is (a slice of) that field.  Opts.LocalGOPATHs is handed to the
// Snapshot by reference, so such a statement modifies the caller's Opts, which
// may be shared between goroutines.
func (p *pkgInfo) sharedSliceWrites(field string) []string {
	var out []string
	show := func(e ast.Expr) string {
		var sb strings.Builder
		printer.Fprint(&sb, p.fset, e)
		return sb.String()
	}
	// mentions: e is field itself, or an index/slice of it
	var through func(e ast.Expr) bool
	through = func(e ast.Expr) bool {
		switch v := e.(type) {
		case *ast.SelectorExpr:
			return v.Sel.Name == field
		case *ast.IndexExpr:
			return through(v.X)
		case *ast.SliceExpr:
			return through(v.X)
		case *ast.ParenExpr:
			return through(v.X)
		}
		return false
	}
	for _, f := range p.files {
		for _, d := range f.Decls {
			fd, ok := d.(*ast.FuncDecl)
			if !ok || fd.Body == nil {
				continue
			}
			name := fd.Name.Name
			// locals that alias the field: x := s.LocalGOPATHs / x := s.LocalGOPATHs[a:b]
			alias := map[types.Object]bool{}
			isAlias := func(e ast.Expr) bool {
				for {
					switch v := e.(type) {
					case *ast.IndexExpr:
						e = v.X
						continue
					case *ast.SliceExpr:
						e = v.X
						continue
					case *ast.ParenExpr:
						e = v.X
						continue
					case *ast.Ident:
						obj := p.info.Uses[v]
						if obj == nil {
							obj = p.info.Defs[v]
						}
						return alias[obj]
					}
					return through(e)
				}
			}
			ast.Inspect(fd.Body, func(n ast.Node) bool {
				if v, ok := n.(*ast.AssignStmt); ok && len(v.Lhs) == len(v.Rhs) {
					for i, l := range v.Lhs {
						if id, ok := l.(*ast.Ident); ok {
							if _, isIdx := v.Rhs[i].(*ast.IndexExpr); !isIdx && isAlias(v.Rhs[i]) {
								obj := p.info.Defs[id]
								if obj == nil {
									obj = p.info.Uses[id]
								}
								if obj != nil {
									alias[obj] = true
								}
							}
						}
					}
				}
				return true
			})
			ast.Inspect(fd.Body, func(n ast.Node) bool {
				switch v := n.(type) {
				case *ast.AssignStmt:
					if v.Tok == token.DEFINE {
						return true
					}
					for _, l := range v.Lhs {
						if ix, ok := l.(*ast.IndexExpr); ok && isAlias(ix.X) {
							out = append(out, fmt.Sprintf("%s | %s", name, show(l)))
						}
					}
				case *ast.IncDecStmt:
					if ix, ok := v.X.(*ast.IndexExpr); ok && isAlias(ix.X) {
						out = append(out, fmt.Sprintf("%s | %s", name, show(v.X)))
					}
				case *ast.CallExpr:
					if len(v.Args) == 0 {
						return true
					}
					switch fn := v.Fun.(type) {
					case *ast.SelectorExpr:
						if x, ok := fn.X.(*ast.Ident); ok && (x.Name == "sort" || x.Name == "slices") && isAlias(v.Args[0]) {
							out = append(out, fmt.Sprintf("%s | %s.%s(%s)", name, x.Name, fn.Sel.Name, show(v.Args[0])))
						}
					case *ast.Ident:
						if (fn.Name == "copy" || fn.Name == "clear") && isAlias(v.Args[0]) {
							out = append(out, fmt.Sprintf("%s | %s(%s)", name, fn.Name, show(v.Args[0])))
						}
						if fn.Name == "append" && isAlias(v.Args[0]) {
							// append may write into the shared backing array
							out = append(out, fmt.Sprintf("%s | append(%s)", name, show(v.Args[0])))
						}
					}
				}
				return true
			})
		}
	}
	sort.Strings(out)
	return out
}

// globalVars lists the package-level variables with their types: the only
// places where state can survive from one call to the next.
func (p *pkgInfo) globalVars() []string {
	var out []string
	for _, n := range p.pkg.Scope().Names() {
		if v, ok := p.pkg.Scope().Lookup(n).(*types.Var); ok {
			out = append(out, n+" "+types.TypeString(v.Type(), func(q *types.Package) string {
				if q == p.pkg {
					return ""
				}
				return q.Name()
			}))
		}
	}
	sort.Strings(out)
	return out
}
