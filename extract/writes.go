package main

import (
	"fmt"
	"go/ast"
	"go/printer"
	"go/token"
	"go/types"
	"sort"
	"strings"
)

// writeSet lists, for the functions reachable from Aggregate / ToHTML / the
// console writers, every statement that writes through something other than a
// plain local variable: assignments whose left side is an index, selector or
// dereference expression, inc/dec of such, and calls to sort.* (which permute
// their argument).  Each entry is "func | expression | origin of its root
// variable", origin being one of
//   fresh   - a local initialised in this function from make / a composite
//             literal / & of one / new / append to nil / a call result
//   param, receiver, range (a range variable), global, local (other local)
func (p *pkgInfo) writeSet(funcs map[string]bool) []string {
	var out []string
	for _, f := range p.files {
		for _, d := range f.Decls {
			fd, ok := d.(*ast.FuncDecl)
			if !ok || fd.Body == nil {
				continue
			}
			name := fd.Name.Name
			if fd.Recv != nil && len(fd.Recv.List) == 1 {
				t := fd.Recv.List[0].Type
				if s, ok := t.(*ast.StarExpr); ok {
					t = s.X
				}
				if id, ok := t.(*ast.Ident); ok {
					name = id.Name + "." + name
				}
			}
			if !funcs[name] {
				continue
			}
			origin := map[types.Object]string{}
			if fd.Recv != nil {
				for _, fl := range fd.Recv.List {
					for _, n := range fl.Names {
						origin[p.info.Defs[n]] = "receiver"
					}
				}
			}
			for _, fl := range fd.Type.Params.List {
				for _, n := range fl.Names {
					origin[p.info.Defs[n]] = "param"
				}
			}
			classify := func(e ast.Expr) string {
				switch v := e.(type) {
				case *ast.CallExpr:
					if id, ok := v.Fun.(*ast.Ident); ok && (id.Name == "make" || id.Name == "new") {
						return "fresh"
					}
					if id, ok := v.Fun.(*ast.Ident); ok && id.Name == "append" {
						return "local"
					}
					return "fresh"
				case *ast.CompositeLit:
					return "fresh"
				case *ast.UnaryExpr:
					if v.Op == token.AND {
						if _, ok := v.X.(*ast.CompositeLit); ok {
							return "fresh"
						}
					}
				}
				return "local"
			}
			ast.Inspect(fd.Body, func(n ast.Node) bool {
				switch v := n.(type) {
				case *ast.AssignStmt:
					if v.Tok == token.DEFINE {
						for i, l := range v.Lhs {
							if id, ok := l.(*ast.Ident); ok && p.info.Defs[id] != nil {
								o := "local"
								if len(v.Rhs) == len(v.Lhs) {
									o = classify(v.Rhs[i])
								}
								origin[p.info.Defs[id]] = o
							}
						}
					}
				case *ast.RangeStmt:
					for _, e := range []ast.Expr{v.Key, v.Value} {
						if id, ok := e.(*ast.Ident); ok && p.info.Defs[id] != nil {
							origin[p.info.Defs[id]] = "range"
						}
					}
				case *ast.ValueSpec:
					for i, id := range v.Names {
						o := "fresh" // var x T : zero value owned by this function
						if i < len(v.Values) {
							o = classify(v.Values[i])
						}
						origin[p.info.Defs[id]] = o
					}
				}
				return true
			})
			rootOf := func(e ast.Expr) (string, bool) {
				through := false
				for {
					switch v := e.(type) {
					case *ast.IndexExpr:
						e, through = v.X, true
						continue
					case *ast.SelectorExpr:
						e, through = v.X, true
						continue
					case *ast.StarExpr:
						e, through = v.X, true
						continue
					case *ast.ParenExpr:
						e = v.X
						continue
					case *ast.SliceExpr:
						e, through = v.X, true
						continue
					case *ast.Ident:
						obj := p.info.Uses[v]
						if obj == nil {
							obj = p.info.Defs[v]
						}
						if o, ok := origin[obj]; ok {
							return o, through
						}
						if obj != nil && obj.Parent() == p.pkg.Scope() {
							return "global", through
						}
						return "local", through
					}
					return "other", through
				}
			}
			show := func(e ast.Expr) string {
				var sb strings.Builder
				printer.Fprint(&sb, p.fset, e)
				return sb.String()
			}
			ast.Inspect(fd.Body, func(n ast.Node) bool {
				switch v := n.(type) {
				case *ast.AssignStmt:
					if v.Tok == token.DEFINE {
						return true
					}
					for _, l := range v.Lhs {
						if o, through := rootOf(l); through || o == "global" {
							out = append(out, fmt.Sprintf("%s | %s | %s", name, show(l), o))
						}
					}
				case *ast.IncDecStmt:
					if o, through := rootOf(v.X); through || o == "global" {
						out = append(out, fmt.Sprintf("%s | %s | %s", name, show(v.X), o))
					}
				case *ast.CallExpr:
					if sel, ok := v.Fun.(*ast.SelectorExpr); ok {
						if x, ok := sel.X.(*ast.Ident); ok && x.Name == "sort" && len(v.Args) > 0 {
							o, _ := rootOf(v.Args[0])
							out = append(out, fmt.Sprintf("%s | sort.%s(%s) | %s", name, sel.Sel.Name, show(v.Args[0]), o))
						}
					}
				}
				return true
			})
		}
	}
	sort.Strings(out)
	return out
}

// goStmts lists the functions that start goroutines.
func (p *pkgInfo) goStmts() []string {
	var out []string
	for _, f := range p.files {
		for _, d := range f.Decls {
			fd, ok := d.(*ast.FuncDecl)
			if !ok || fd.Body == nil {
				continue
			}
			ast.Inspect(fd.Body, func(n ast.Node) bool {
				if _, ok := n.(*ast.GoStmt); ok {
					out = append(out, fd.Name.Name)
				}
				return true
			})
		}
	}
	sort.Strings(out)
	return out
}

// nonFresh reduces a write set to the deduplicated "func | origin" pairs whose
// origin is not a value created inside the call.
func nonFresh(ws []string) []string {
	seen := map[string]bool{}
	var out []string
	for _, w := range ws {
		parts := strings.Split(w, " | ")
		if len(parts) != 3 || parts[2] == "fresh" {
			continue
		}
		k := parts[0] + " | " + parts[2]
		if !seen[k] {
			seen[k] = true
			out = append(out, k)
		}
	}
	sort.Strings(out)
	return out
}

// funcNames lists every function and method of the package as Recv.Name.
func (p *pkgInfo) funcNames() []string {
	var out []string
	for _, f := range p.files {
		for _, d := range f.Decls {
			fd, ok := d.(*ast.FuncDecl)
			if !ok || fd.Body == nil {
				continue
			}
			name := fd.Name.Name
			if fd.Recv != nil && len(fd.Recv.List) == 1 {
				t := fd.Recv.List[0].Type
				if s, ok := t.(*ast.StarExpr); ok {
					t = s.X
				}
				if id, ok := t.(*ast.Ident); ok {
					name = id.Name + "." + name
				}
			}
			out = append(out, name)
		}
	}
	sort.Strings(out)
	return out
}
