// translate_web.go — the translated group Web: the web handler stack/webstack/webstack.go
// (SnapshotHandler, snapshot) and stack.DefaultOpts (stack/context.go), which it calls.
//
// Generated file: lean/PP/TranslatedWeb.lean (namespace PP.TrW, its own Env); run-time support:
// lean/PP/Go/PreludeWeb.lean; agreement with the hand-written model PP/Model/Web.lean:
// lean/PP/Tie/TranslatedWeb.lean.
//
// The group runs on the statement translator of group Roots (t.roots is set: break, join blocks, frames,
// identity-based `assigned`) and is reached from translate.go through a handful of hooks (t.web…), each of
// which does nothing for the older groups (their generated files stay byte-identical).
//
// What is added, and what each construct assumes (sound or refuse):
//
//   - the WORLD.  Every function of the group takes the world `wld : World` as its first argument and returns
//     it with its result (the mechanism of a pointer receiver that is assigned through: t.recvMut).  A call
//     with an effect (http.Error, w.Header().Set, runtime.Stack, stack.ScanSnapshot, (*Snapshot).Aggregate,
//     (*Aggregated).ToHTML, a call of a function of the group) rebinds `wld`; such a call is only translated
//     as a whole statement, as the whole right-hand side of an assignment, or as the receiver of such a call
//     (webTop), and its arguments must be free of effects and panics: the events are then in statement order.
//     `wld` counts as assigned by every statement that contains such a call (webAssigned), so that loops and
//     join blocks carry it.  A Go identifier spelled `wld` (or like a temporary, t1 t2 …) is refused.
//   - `int` is Lean's `Int` (webPure renders constants as `(n : Int)`, `len(x)` as `lenI x`); any other integer
//     type is refused; `>=` / `<=` on ints are added; `-` stays refused (group Roots), so are `/ % << >>`;
//     indexing is refused (the older groups' index is a Nat).  ASSUMES no overflow of 64 bits.
//   - parameters may be assigned (`maxmem = len(buf)`): they are locals of the translation.  Assigning THROUGH a
//     parameter (p.f = …, p[i] = …, *p = …) is refused: the caller would see it.
//   - `error`: the type GoErr; `nil` of type error, `io.EOF`, `==` / `!=`; `var err error`.
//     `var s T` for an enumeration T of package stack is its constant of value 0.
//   - a function without result (the handler) returns `()`.
//   - `_ = e`: e is evaluated (effects, panics), its value dropped.
//   - `for … range` and `for` with a condition are refused (their loop variables are Nat in the older groups).
//   - `for init; ; post { body }` without condition: `init; for { body; post }` — refused when the body has a
//     `continue` (which would skip the post statement here) — and `for { body }` is `forFuel` (PreludeWeb.lean)
//     with the oracle `E.fuel`: `none` when the fuel runs out, monotone in the fuel.
//   - `make([]byte, n)` (makeBytes: a panic for n < 0), `s[lo:hi]` with int bounds (goSliceI).
//   - `n := runtime.Stack(buf, true)`: buf is written; the translation rebinds buf.  Sound only if no other
//     slice shares buf's array: buf must be a local []byte all of whose uses are listed in webBufGuard.
//   - `opts := stack.DefaultOpts(); … opts.F = v …; f(opts)`: a pointer to a fresh struct, as a value.  Sound
//     only if nobody else holds the pointer while it is written through: every write through a pointer-typed
//     local must come (in source order, outside any loop) before the first use that hands the pointer on, and
//     the local must be initialised by stack.DefaultOpts() (webPtrGuard).
//   - stack.DefaultOpts itself is a function of the group (declared in package stack): `return &Opts{…}` is the
//     record (a pointer to a new struct that only the caller gets); runtime.GOROOT() and getGOPATHs() are the
//     oracles E.goroot / E.gopaths; `if runtime.GOOS == "windows" { … }` is dropped as in group Roots.
//   - library: strconv.Atoi (the model's atoi + an oracle for the int returned with an error),
//     req.Method / req.FormValue (the request record), http.StatusX constants (folded by the type checker).
//     *stack.Snapshot / *stack.Aggregated are opaque: selecting a field of one is refused.
package main

import (
	"fmt"
	"go/ast"
	"go/constant"
	"go/importer"
	"go/parser"
	"go/token"
	"go/types"
	"os"
	"path/filepath"
	"regexp"
	"sort"
	"strings"
)

// the functions of group Web, in emission order; the first column says which package
var trFuncsWeb = [][3]string{{"stack", "", "DefaultOpts"}, {"webstack", "", "SnapshotHandler"}, {"webstack", "", "snapshot"}}

// the oracles of the environment of group Web
var trOraclesWeb = []string{
	"fuel : Nat",
	"stackDump : Nat → Bytes",
	"atoiErrVal : Bytes → Int",
	"goroot : Bytes",
	"gopaths : List Bytes",
	"scanSnapshot : Bytes → Cli.Opts → SnapRef × Bytes × GoErr",
	"aggregate : SnapRef → Lvl → Option Aggregated",
	"toHTML : Aggregated → Bytes → GoErr",
}

const webWorld = "wld"

func translateWeb(st, ws *pkgInfo) string {
	trGroupTypes = map[string]string{"error": "GoErr", "ResponseWriter": "ResponseWriter", "Request": "Request",
		"Opts": "Cli.Opts", "Snapshot": "SnapRef", "Aggregated": "Aggregated"}
	trGroupTypePkg = map[string]string{"ResponseWriter": "http", "Request": "http", "Opts": "stack", "Snapshot": "stack",
		"Aggregated": "stack", "Similarity": "stack"}
	trGroupPkg = map[string]*pkgInfo{}
	defer func() { trGroupTypes, trGroupTypePkg, trGroupPkg = nil, nil, nil }()
	var fns [][2]string
	for _, f := range trFuncsWeb {
		fns = append(fns, [2]string{f[1], f[2]})
		if f[0] == "stack" {
			trGroupPkg[trName(f[1], f[2])] = st
		}
	}
	return ws.translateGroup("PP.TrW", "stack/webstack/webstack.go, stack/context.go", fns, false, []string{"PP.Go.PreludeWeb"}, trOraclesWeb)
}

// loadWeb type-checks package stack and package webstack against it (see loadUi for why main.go's load is not
// enough: the source importer cannot resolve the module's own import path).
func loadWeb(repo string) (st, ws *pkgInfo) {
	fset := token.NewFileSet()
	base := importer.ForCompiler(fset, "source", nil)
	const stackPath = "github.com/maruel/panicparse/v2/stack"
	check := func(dir, path string, imp types.Importer) *pkgInfo {
		pkgs, err := parser.ParseDir(fset, dir, func(fi os.FileInfo) bool {
			n := fi.Name()
			return !strings.HasSuffix(n, "_test.go") && n != "regen.go" && n != "verif_hooks.go"
		}, parser.ParseComments)
		if err != nil {
			die("parse %s: %v", dir, err)
		}
		var files []*ast.File
		for _, p := range pkgs {
			var names []string
			for n := range p.Files {
				names = append(names, n)
			}
			sort.Strings(names)
			for _, n := range names {
				files = append(files, p.Files[n])
			}
		}
		info := &types.Info{Defs: map[*ast.Ident]types.Object{}, Uses: map[*ast.Ident]types.Object{}, Types: map[ast.Expr]types.TypeAndValue{}, Selections: map[*ast.SelectorExpr]*types.Selection{}}
		conf := types.Config{Importer: imp, Error: func(error) {}}
		pkg, _ := conf.Check(path, fset, files, info)
		return &pkgInfo{fset: fset, files: files, info: info, pkg: pkg}
	}
	st = check(filepath.Join(repo, "stack"), stackPath, base)
	ws = check(filepath.Join(repo, "stack", "webstack"), stackPath+"/webstack", uiImporter{base, map[string]*types.Package{stackPath: st.pkg}})
	return st, ws
}

// ---------------------------------------------------------------- set-up (called from translateGroup)

// webInit: group Web runs on the statement translator of group Roots
func (t *translator) webInit(ns string) {
	if ns != "PP.TrW" {
		return
	}
	t.web, t.roots = true, true
	t.webW = types.NewVar(token.NoPos, nil, webWorld, nil)
}

// webWorldParam: the first parameter of every function of the group
func (t *translator) webWorldParam() trLocal { return trLocal{webWorld, "World", t.webW} }

// webSetup: after the parameters are known.  Parameters are locals (Go passes by value: assigning one is
// invisible to the caller), the world is threaded like a receiver that is assigned through.
func (t *translator) webSetup(fd *ast.FuncDecl) {
	if fd.Recv != nil {
		t.fail(fd, "a method in group Web")
	}
	t.scope = append(t.scope, t.params...)
	t.webPrepass(fd)
}

// webRet: the result type, with the world
func (t *translator) webRet() {
	t.recvMut = webWorld
	t.ret = "(World × " + t.ret + ")"
}

var webTmpName = regexp.MustCompile(`^t[0-9]+$`)

// webPrepass: what is checked once per function
func (t *translator) webPrepass(fd *ast.FuncDecl) {
	isParam := func(o types.Object) bool {
		for _, p := range t.params {
			if p.obj == o && o != nil {
				return true
			}
		}
		return false
	}
	// `return &T{…}`: a pointer to a new struct, which only the caller gets.  A function of the group that
	// returns a *stack.Opts (translated as the value) must return nothing else: its callers rely on the pointer
	// being fresh (webPtrGuard).
	freshRet := map[*ast.UnaryExpr]bool{}
	ast.Inspect(fd.Body, func(n ast.Node) bool {
		r, ok := n.(*ast.ReturnStmt)
		if !ok {
			return true
		}
		for _, e := range r.Results {
			u, isU := unparen(e).(*ast.UnaryExpr)
			if isU && u.Op == token.AND {
				if _, isLit := unparen(u.X).(*ast.CompositeLit); isLit {
					freshRet[u] = true
					continue
				}
			}
			if pt, isPtr := t.typeOf(e).Underlying().(*types.Pointer); isPtr && structName(pt) == "Opts" {
				t.fail(r, "a *Opts result that is not `&Opts{…}` (callers rely on a fresh pointer)")
			}
		}
		return true
	})
	t.webTop = map[*ast.CallExpr]bool{}
	t.webNil = map[*ast.Ident]types.Type{}
	nilCtx := func(e ast.Expr, ty types.Type) {
		if id, ok := unparen(e).(*ast.Ident); ok && id.Name == "nil" {
			if _, isNil := t.p.info.Uses[id].(*types.Nil); isNil {
				t.webNil[id] = ty
			}
		}
	}
	markTop := func(e ast.Expr) {
		for {
			c, ok := unparen(e).(*ast.CallExpr)
			if !ok {
				return
			}
			t.webTop[c] = true
			sel, ok := c.Fun.(*ast.SelectorExpr)
			if !ok {
				return
			}
			e = sel.X // the receiver of a call in statement position is evaluated first
		}
	}
	ast.Inspect(fd.Body, func(n ast.Node) bool {
		switch x := n.(type) {
		case *ast.FuncLit:
			t.fail(x, "function literal")
		case *ast.GoStmt, *ast.DeferStmt, *ast.SelectStmt, *ast.SendStmt, *ast.LabeledStmt, *ast.TypeSwitchStmt:
			t.fail(x, "unsupported statement %T", x)
		case *ast.Ident:
			if x.Name == webWorld || webTmpName.MatchString(x.Name) {
				t.fail(x, "the identifier %s is a name the translation uses itself", x.Name)
			}
		case *ast.ExprStmt:
			markTop(x.X)
		case *ast.BinaryExpr:
			if x.Op == token.EQL || x.Op == token.NEQ {
				nilCtx(x.X, t.typeOf(x.Y))
				nilCtx(x.Y, t.typeOf(x.X))
			}
		case *ast.ReturnStmt:
			if fd.Type.Results != nil {
				var rts []types.Type
				for _, rf := range fd.Type.Results.List {
					n := len(rf.Names)
					if n == 0 {
						n = 1
					}
					for ; n > 0; n-- {
						rts = append(rts, t.typeOf(rf.Type))
					}
				}
				if len(rts) == len(x.Results) {
					for i, r := range x.Results {
						nilCtx(r, rts[i])
					}
				}
			}
		case *ast.AssignStmt:
			if len(x.Rhs) == 1 {
				markTop(x.Rhs[0])
			}
			if len(x.Lhs) == len(x.Rhs) && x.Tok == token.ASSIGN {
				for i, r := range x.Rhs {
					if id, ok := x.Lhs[i].(*ast.Ident); !ok || id.Name != "_" {
						nilCtx(r, t.typeOf(x.Lhs[i]))
					}
				}
			}
			if x.Tok != token.DEFINE {
				for _, l := range x.Lhs {
					if _, plain := unparen(l).(*ast.Ident); !plain && isParam(t.rootObj(l)) {
						t.fail(x, "assignment through the parameter %s (the caller would see it)", t.rootObj(l).Name())
					}
				}
			}
		case *ast.IncDecStmt:
			if _, plain := unparen(x.X).(*ast.Ident); !plain && isParam(t.rootObj(x.X)) {
				t.fail(x, "assignment through the parameter %s (the caller would see it)", t.rootObj(x.X).Name())
			}
		case *ast.SelectorExpr:
			// *stack.Snapshot / *stack.Aggregated are opaque here
			if sel := t.p.info.Selections[x]; sel != nil && sel.Kind() == types.FieldVal {
				switch structName(sel.Recv()) {
				case "Snapshot", "Aggregated":
					t.fail(x, "field %s of a %s (opaque in group Web)", x.Sel.Name, structName(sel.Recv()))
				}
			}
		case *ast.UnaryExpr:
			if x.Op == token.AND && !freshRet[x] {
				t.fail(x, "address-of other than `return &T{…}`")
			}
		}
		return true
	})
	t.webBufGuard(fd)
	t.webPtrGuard(fd)
}

// webIsEffect: is the call one that changes the world?  Returns a short name for it.
func (t *translator) webIsEffect(c *ast.CallExpr) (string, bool) {
	switch f := c.Fun.(type) {
	case *ast.Ident:
		if fn, ok := t.p.info.Uses[f].(*types.Func); ok && fn.Parent() == t.p.pkg.Scope() && t.funcs[f.Name] && t.p.uiPkgOf(f.Name) == t.p {
			return "group:" + f.Name, true
		}
	case *ast.SelectorExpr:
		switch {
		case t.isPkgSel(f, "net/http", "Error"):
			return "http.Error", true
		case t.isPkgSel(f, "runtime", "Stack"):
			return "runtime.Stack", true
		case t.webIsStackSel(f, "ScanSnapshot"):
			return "stack.ScanSnapshot", true
		case t.webIsStackSel(f, f.Sel.Name) && t.funcs[f.Sel.Name] && trGroupPkg[f.Sel.Name] != nil:
			// a function of the group that is declared in package stack, called from package webstack
			return "group:" + f.Sel.Name, true
		}
		if fn, ok := t.p.info.Uses[f.Sel].(*types.Func); ok {
			switch fn.FullName() {
			case "(net/http.Header).Set":
				return "Header.Set", true
			case "(*github.com/maruel/panicparse/v2/stack.Snapshot).Aggregate":
				return "Snapshot.Aggregate", true
			case "(*github.com/maruel/panicparse/v2/stack.Aggregated).ToHTML":
				return "Aggregated.ToHTML", true
			}
		}
	}
	return "", false
}

// webIsStackSel: stack.<name>, a function of package stack
func (t *translator) webIsStackSel(e ast.Expr, name string) bool {
	return t.isPkgSel(e, "github.com/maruel/panicparse/v2/stack", name)
}

// webAssigned (hook of assignedSet): the world is assigned by every node that contains a call with an
// effect; runtime.Stack(buf, …) assigns buf.
func (t *translator) webAssigned(n ast.Node, set map[types.Object]bool) {
	ast.Inspect(n, func(m ast.Node) bool {
		if c, ok := m.(*ast.CallExpr); ok {
			if name, is := t.webIsEffect(c); is {
				set[t.webW] = true
				if name == "runtime.Stack" && len(c.Args) == 2 {
					if o := t.rootObj(c.Args[0]); o != nil {
						set[o] = true
					}
				}
			}
		}
		return true
	})
}

// webBufGuard: runtime.Stack(buf, all) writes into the array of buf.  The translation rebinds the variable
// buf, which is exact only if no other live slice shares that array.  Required: buf is a local variable (not a
// parameter) of type []byte, and every occurrence of it in the function is one of
//
//	buf := make([]byte, n)  /  buf = make([]byte, n)      a fresh array
//	buf = buf[lo:hi]                                        the old value is dead afterwards
//	len(buf)
//	runtime.Stack(buf, all)
//	stack.ScanSnapshot(bytes.NewReader(buf), …)             read only (package bytes, package stack: trusted)
func (t *translator) webBufGuard(fd *ast.FuncDecl) {
	bufs := map[types.Object]bool{}
	ast.Inspect(fd.Body, func(n ast.Node) bool {
		if c, ok := n.(*ast.CallExpr); ok && t.isPkgSel(c.Fun, "runtime", "Stack") {
			if len(c.Args) != 2 {
				t.fail(c, "runtime.Stack: arguments")
			}
			id, ok := unparen(c.Args[0]).(*ast.Ident)
			if !ok {
				t.fail(c, "runtime.Stack into something other than a variable")
			}
			v, isVar := t.p.info.Uses[id].(*types.Var)
			if !isVar || v.IsField() || v.Parent() == nil || v.Parent() == t.p.pkg.Scope() {
				t.fail(c, "runtime.Stack into something other than a local variable")
			}
			for _, p := range t.params {
				if p.obj == types.Object(v) {
					t.fail(c, "runtime.Stack into a parameter (the caller holds the same array)")
				}
			}
			if sl, ok := v.Type().(*types.Slice); !ok || !isUint8(sl.Elem()) {
				t.fail(c, "runtime.Stack into a %s", v.Type())
			}
			bufs[v] = true
		}
		return true
	})
	if len(bufs) == 0 {
		return
	}
	allowed := map[*ast.Ident]bool{}
	is := func(e ast.Expr) (*ast.Ident, types.Object) {
		id, ok := unparen(e).(*ast.Ident)
		if !ok {
			return nil, nil
		}
		o := t.p.info.ObjectOf(id)
		if o == nil || !bufs[o] {
			return nil, nil
		}
		return id, o
	}
	isMake := func(e ast.Expr) bool {
		c, ok := unparen(e).(*ast.CallExpr)
		if !ok {
			return false
		}
		f, ok := c.Fun.(*ast.Ident)
		if !ok || f.Name != "make" {
			return false
		}
		_, isB := t.p.info.Uses[f].(*types.Builtin)
		return isB
	}
	ast.Inspect(fd.Body, func(n ast.Node) bool {
		switch x := n.(type) {
		case *ast.AssignStmt:
			if len(x.Lhs) == 1 && len(x.Rhs) == 1 {
				if id, o := is(x.Lhs[0]); id != nil {
					if isMake(x.Rhs[0]) {
						allowed[id] = true
					} else if sl, ok := unparen(x.Rhs[0]).(*ast.SliceExpr); ok && !sl.Slice3 {
						if id2, o2 := is(sl.X); id2 != nil && o2 == o && x.Tok == token.ASSIGN {
							allowed[id], allowed[id2] = true, true
						}
					}
				}
			}
		case *ast.CallExpr:
			if f, ok := x.Fun.(*ast.Ident); ok && f.Name == "len" && len(x.Args) == 1 {
				if _, isB := t.p.info.Uses[f].(*types.Builtin); isB {
					if id, _ := is(x.Args[0]); id != nil {
						allowed[id] = true
					}
				}
			}
			if t.isPkgSel(x.Fun, "runtime", "Stack") {
				if id, _ := is(x.Args[0]); id != nil {
					allowed[id] = true
				}
			}
			if t.webIsStackSel(x.Fun, "ScanSnapshot") && len(x.Args) == 3 {
				if r, ok := unparen(x.Args[0]).(*ast.CallExpr); ok && t.isPkgSel(r.Fun, "bytes", "NewReader") && len(r.Args) == 1 {
					if id, _ := is(r.Args[0]); id != nil {
						allowed[id] = true
					}
				}
			}
		}
		return true
	})
	ast.Inspect(fd.Body, func(n ast.Node) bool {
		if id, ok := n.(*ast.Ident); ok {
			if o := t.p.info.ObjectOf(id); o != nil && bufs[o] && !allowed[id] {
				t.fail(id, "%s is written by runtime.Stack and used here in a way that may share its array", id.Name)
			}
		}
		return true
	})
}

func isUint8(ty types.Type) bool {
	b, ok := ty.Underlying().(*types.Basic)
	return ok && b.Kind() == types.Uint8
}

// webPtrGuard: a local of pointer type is translated as the value it points to.  That is exact as long as
// nobody else holds the pointer while the function writes through it.  For every pointer-typed local p that is
// written through (p.f = v, *p = v):
//   - p is declared by `p := stack.DefaultOpts()` (a pointer to a struct allocated by that call: package stack,
//     trusted) and never assigned again;
//   - no write through p is inside a loop;
//   - every write through p precedes, in source order, every occurrence of p that is not a field read or a
//     write through it (an argument of a call, a copy: the pointer is handed on).
//
// Pointer-typed locals that are never written through are values anyway.
func (t *translator) webPtrGuard(fd *ast.FuncDecl) {
	written := map[types.Object]token.Pos{} // the last write through
	var walk func(n ast.Node, inLoop bool)
	lhsWrite := func(l ast.Expr, at ast.Node, inLoop bool) {
		if _, plain := unparen(l).(*ast.Ident); plain {
			return
		}
		o := t.rootObj(l)
		if o == nil {
			return
		}
		if _, isPtr := o.Type().Underlying().(*types.Pointer); !isPtr {
			return
		}
		if inLoop {
			t.fail(at, "write through the pointer %s inside a loop", o.Name())
		}
		if at.End() > written[o] {
			written[o] = at.End()
		}
	}
	walk = func(n ast.Node, inLoop bool) {
		ast.Inspect(n, func(m ast.Node) bool {
			switch x := m.(type) {
			case *ast.ForStmt:
				if m != n {
					walk(x, true)
					return false
				}
			case *ast.RangeStmt:
				if m != n {
					walk(x, true)
					return false
				}
			case *ast.AssignStmt:
				if x.Tok != token.DEFINE {
					for _, l := range x.Lhs {
						lhsWrite(l, x, inLoop)
					}
				}
			case *ast.IncDecStmt:
				lhsWrite(x.X, x, inLoop)
			}
			return true
		})
	}
	walk(fd.Body, false)
	for o, last := range written {
		// declared by p := stack.DefaultOpts(), never assigned again
		ndecl := 0
		ast.Inspect(fd.Body, func(n ast.Node) bool {
			as, ok := n.(*ast.AssignStmt)
			if !ok {
				return true
			}
			for i, l := range as.Lhs {
				id, ok := unparen(l).(*ast.Ident)
				if !ok || t.p.info.ObjectOf(id) != o {
					continue
				}
				fresh := false
				if as.Tok == token.DEFINE && len(as.Lhs) == len(as.Rhs) {
					if c, ok := unparen(as.Rhs[i]).(*ast.CallExpr); ok && t.webIsStackSel(c.Fun, "DefaultOpts") && len(c.Args) == 0 {
						fresh = true
					}
				}
				if !fresh {
					t.fail(as, "the pointer %s is written through and is not (only) the result of stack.DefaultOpts()", o.Name())
				}
				ndecl++
			}
			return true
		})
		if ndecl != 1 {
			t.fail(fd, "the pointer %s is written through and is not a local declared by p := stack.DefaultOpts()", o.Name())
		}
		// uses that hand the pointer on must come after the last write
		parents := map[ast.Node]ast.Node{}
		var stack []ast.Node
		ast.Inspect(fd.Body, func(n ast.Node) bool {
			if n == nil {
				stack = stack[:len(stack)-1]
				return true
			}
			if len(stack) > 0 {
				parents[n] = stack[len(stack)-1]
			}
			stack = append(stack, n)
			return true
		})
		ast.Inspect(fd.Body, func(n ast.Node) bool {
			id, ok := n.(*ast.Ident)
			if !ok || t.p.info.Uses[id] != o {
				return true
			}
			// p.f (read or written): not handed on
			if sel, ok := parents[id].(*ast.SelectorExpr); ok && sel.X == ast.Expr(id) {
				if s := t.p.info.Selections[sel]; s != nil && s.Kind() == types.FieldVal {
					return true
				}
			}
			if id.Pos() < last {
				t.fail(id, "the pointer %s is handed on here and written through afterwards", o.Name())
			}
			return true
		})
	}
}

// ---------------------------------------------------------------- expressions

// webIntConst: an integer constant of (after conversion) type int, as `(n : Int)`
func (t *translator) webIntConst(e ast.Expr) (string, bool) {
	tv, ok := t.p.info.Types[e]
	if !ok || tv.Value == nil || tv.Value.Kind() != constant.Int {
		return "", false
	}
	b, ok := tv.Type.(*types.Basic)
	if !ok {
		return "", false // a named type: an enumeration, left to the older code
	}
	if b.Kind() != types.Int && b.Kind() != types.UntypedInt {
		t.fail(e, "integer constant of type %s (only int in group Web)", b.Name())
	}
	return "(" + tv.Value.ExactString() + " : Int)", true
}

func (t *translator) webIsError(ty types.Type) bool {
	n, ok := ty.(*types.Named)
	return ok && n.Obj().Pkg() == nil && n.Obj().Name() == "error"
}

// webPure (hook at the top of pureExpr): the expressions of group Web that differ from the older groups'.
// ok=false: not one of them.  Panics with trImpure for what needs a bind.
func (t *translator) webPure(e ast.Expr) (string, bool) {
	if s, ok := t.webIntConst(e); ok {
		return s, true
	}
	if tv, ok := t.p.info.Types[e]; ok && tv.Value != nil {
		return "", false // other constants: the older code
	}
	switch x := e.(type) {
	case *ast.Ident:
		if x.Name == "nil" {
			if _, isNil := t.p.info.Uses[x].(*types.Nil); isNil {
				// the type checker leaves `nil` untyped where it converts to an interface: the type comes from
				// the context (webPrepass: the other operand of == / !=, the variable assigned, the result returned)
				if ty := t.webNil[x]; ty != nil && t.webIsError(ty) {
					return "GoErr.nil", true
				}
				t.fail(e, "nil of a type other than error, or in a context other than ==, !=, =, return")
			}
		}
	case *ast.SelectorExpr:
		if t.isPkgSel(x, "io", "EOF") {
			return "GoErr.eof", true
		}
		if id, ok := x.X.(*ast.Ident); ok {
			if _, isPkg := t.p.info.Uses[id].(*types.PkgName); isPkg {
				t.fail(e, "%s.%s: a package-level variable or function value", id.Name, x.Sel.Name)
			}
		}
	case *ast.IndexExpr:
		t.fail(e, "indexing (group Web has no Nat indices)")
	case *ast.SliceExpr:
		panic(trImpure{})
	case *ast.BinaryExpr:
		isInt := func(e ast.Expr) bool {
			b, ok := t.typeOf(e).Underlying().(*types.Basic)
			return ok && b.Info()&types.IsInteger != 0
		}
		switch x.Op {
		case token.GEQ, token.LEQ:
			if !isInt(x.X) || !isInt(x.Y) {
				t.fail(e, "%s on operands that are not integers", x.Op)
			}
			op := "≥"
			if x.Op == token.LEQ {
				op = "≤"
			}
			return fmt.Sprintf("(decide (%s %s %s))", t.pureExpr(x.X), op, t.pureExpr(x.Y)), true
		case token.EQL, token.NEQ:
			// interface values other than errors, pointers, slices: not comparable as values here
			ty := t.typeOf(x.X)
			if _, isIface := ty.Underlying().(*types.Interface); isIface && !t.webIsError(ty) {
				t.fail(e, "comparison of interface values of type %s", ty)
			}
			if _, isPtr := ty.Underlying().(*types.Pointer); isPtr {
				t.fail(e, "comparison of pointers")
			}
			if t.webIsError(ty) {
				// err == nil, err == io.EOF: identity of the sentinel.  Both operands must be error-typed terms.
				if !t.webIsError(t.typeOf(x.Y)) {
					if id, ok := unparen(x.Y).(*ast.Ident); !ok || id.Name != "nil" {
						t.fail(e, "comparison of an error with a %s", t.typeOf(x.Y))
					}
				}
			}
		}
	case *ast.CallExpr:
		if _, is := t.webIsEffect(x); is {
			panic(trImpure{})
		}
		arg := func(i int) string { return atom(t.pureExpr(x.Args[i])) }
		if id, ok := x.Fun.(*ast.Ident); ok {
			if _, isB := t.p.info.Uses[id].(*types.Builtin); isB {
				switch id.Name {
				case "len":
					switch t.typeOf(x.Args[0]).Underlying().(type) {
					case *types.Slice, *types.Basic:
						return "(lenI " + arg(0) + ")", true
					}
					t.fail(e, "len of a %s", t.typeOf(x.Args[0]))
				case "make":
					panic(trImpure{})
				}
				t.fail(e, "built-in %s", id.Name)
			}
			if tv, ok := t.p.info.Types[x.Fun]; ok && tv.IsType() {
				t.fail(e, "conversion to %s", tv.Type)
			}
			if fn, ok := t.p.info.Uses[id].(*types.Func); ok && fn.FullName() == "github.com/maruel/panicparse/v2/stack.getGOPATHs" && len(x.Args) == 0 {
				// context.go getGOPATHs: $GOPATH or its default, an oracle (ASSUMES it returns: it panics when
				// neither the current user nor $HOME can be determined)
				return "E.gopaths", true
			}
		}
		if sel, ok := x.Fun.(*ast.SelectorExpr); ok {
			switch {
			case t.isPkgSel(sel, "strconv", "Atoi") && len(x.Args) == 1:
				// no effect, but a pair: bound to a name (webBind), so that `a, err = strconv.Atoi(a)` reads the old a
				panic(trImpure{})
			case t.isPkgSel(sel, "runtime", "GOROOT") && len(x.Args) == 0:
				return "E.goroot", true
			}
			if fn, ok := t.p.info.Uses[sel.Sel].(*types.Func); ok && fn.FullName() == "(*net/http.Request).FormValue" && len(x.Args) == 1 {
				return "(Request.formValue " + atom(t.pureExpr(sel.X)) + " " + arg(0) + ")", true
			}
		}
		t.fail(e, "call of a function that is neither of the group nor one of the library functions it knows")
	case *ast.UnaryExpr:
		if x.Op == token.AND {
			// &T{…}: only as the result of a function (webPrepass), the pointer as the value
			return t.pureExpr(x.X), true
		}
	case *ast.CompositeLit:
		// stack.Opts{F: v, …}: the model's record; fields that are left out are the zero value in both
		ty := t.typeOf(x)
		if structName(ty) != "Opts" || t.leanType(x, ty) != "Cli.Opts" {
			t.fail(e, "composite literal of type %s", ty)
		}
		var fs []string
		for _, el := range x.Elts {
			kv, ok := el.(*ast.KeyValueExpr)
			if !ok {
				t.fail(x, "positional composite literal")
			}
			fs = append(fs, fmt.Sprintf("%s := %s", lowerFirst(kv.Key.(*ast.Ident).Name), t.pureExpr(kv.Value)))
		}
		return fmt.Sprintf("({ %s } : Cli.Opts)", strings.Join(fs, ", ")), true
	}
	return "", false
}

// webBind (hook at the top of bind, after the pure attempt): what needs a bind in group Web.
func (t *translator) webBind(e ast.Expr, k func(string) string) (string, bool) {
	pureArg := func(a ast.Expr, what string) string {
		s, ok := t.pure(a)
		if !ok {
			t.fail(a, "%s: an argument that can panic or has an effect", what)
		}
		return atom(s)
	}
	switch x := e.(type) {
	case *ast.SliceExpr:
		if x.Slice3 {
			t.fail(x, "3-index slice")
		}
		switch ty := t.typeOf(x.X).Underlying().(type) {
		case *types.Slice:
			if !isUint8(ty.Elem()) {
				t.fail(x, "slice expression on a %s", ty)
			}
		case *types.Basic:
			if ty.Info()&types.IsString == 0 {
				t.fail(x, "slice expression on a %s", ty)
			}
		default:
			t.fail(x, "slice expression on a %s", t.typeOf(x.X))
		}
		base := pureArg(x.X, "slice expression")
		lo, hi := "(0 : Int)", "(lenI "+base+")"
		if x.Low != nil {
			lo = pureArg(x.Low, "slice expression")
		}
		if x.High != nil {
			hi = pureArg(x.High, "slice expression")
		}
		v := t.fresh()
		return fmt.Sprintf("(goSliceI %s %s %s).bind fun %s =>\n%s%s", base, lo, hi, v, t.ind(), k(v)), true
	case *ast.CallExpr:
		if id, ok := x.Fun.(*ast.Ident); ok && id.Name == "make" {
			if _, isB := t.p.info.Uses[id].(*types.Builtin); isB {
				sl, isSl := t.typeOf(x.Args[0]).(*types.Slice)
				if !isSl || !isUint8(sl.Elem()) || len(x.Args) != 2 {
					t.fail(x, "make other than make([]byte, n)")
				}
				n := pureArg(x.Args[1], "make")
				v := t.fresh()
				return fmt.Sprintf("(makeBytes %s).bind fun %s =>\n%s%s", n, v, t.ind(), k(v)), true
			}
		}
		if sel, ok := x.Fun.(*ast.SelectorExpr); ok && t.isPkgSel(sel, "strconv", "Atoi") && len(x.Args) == 1 {
			v := t.fresh()
			return fmt.Sprintf("let %s := strconvAtoi E.atoiErrVal %s\n%s%s", v, pureArg(x.Args[0], "strconv.Atoi"), t.ind(), k(v)), true
		}
		name, is := t.webIsEffect(x)
		if !is {
			return "", false
		}
		if !t.webTop[x] {
			t.fail(x, "%s: a call with an effect inside a larger expression (only as a statement or as the right-hand side of an assignment)", name)
		}
		v := t.fresh()
		setWorld := func(from string) string { return fmt.Sprintf("let %s := %s\n%s", webWorld, from, t.ind()) }
		switch name {
		case "runtime.Stack":
			if tv, ok := t.p.info.Types[x.Args[1]]; !ok || tv.Value == nil || tv.Value.Kind() != constant.Bool || !constant.BoolVal(tv.Value) {
				t.fail(x, "runtime.Stack(buf, all) with all other than the constant true (the oracle is the dump of all goroutines)")
			}
			buf := pureArg(x.Args[0], name)
			// the buffer is written: rebind the variable (webBufGuard has checked that this is exact)
			wb := t.assignVal(x, x.Args[0], nil, v+".2.1", func() string { return k(v + ".2.2") })
			return fmt.Sprintf("let %s := World.runtimeStack E.stackDump %s %s true\n%s%s%s", v, webWorld, buf, t.ind(), setWorld(v+".1"), wb), true
		case "stack.ScanSnapshot":
			if len(x.Args) != 3 {
				t.fail(x, "stack.ScanSnapshot: arguments")
			}
			r, ok := unparen(x.Args[0]).(*ast.CallExpr)
			if !ok || !t.isPkgSel(r.Fun, "bytes", "NewReader") || len(r.Args) != 1 {
				t.fail(x, "stack.ScanSnapshot reading from something other than bytes.NewReader(b)")
			}
			if !t.isPkgSel(x.Args[1], "io", "Discard") {
				t.fail(x, "stack.ScanSnapshot with a prefix writer other than io.Discard")
			}
			in, opts := pureArg(r.Args[0], name), pureArg(x.Args[2], name)
			return fmt.Sprintf("let %s := World.scanSnapshot E.scanSnapshot %s %s %s\n%s%s%s", v, webWorld, in, opts, t.ind(), setWorld(v+".1"), k(v+".2")), true
		case "Snapshot.Aggregate":
			sel := x.Fun.(*ast.SelectorExpr)
			if len(x.Args) != 1 {
				t.fail(x, "Aggregate: arguments")
			}
			c, lvl := pureArg(sel.X, name), pureArg(x.Args[0], name)
			return fmt.Sprintf("(World.aggregate E.aggregate %s %s %s).bind fun %s =>\n%s%s%s", webWorld, c, lvl, v, t.ind(), setWorld(v+".1"), k(v+".2")), true
		case "Aggregated.ToHTML":
			sel := x.Fun.(*ast.SelectorExpr)
			if len(x.Args) != 2 {
				t.fail(x, "ToHTML: arguments")
			}
			// the receiver first (it may be a call with an effect of its own), then the arguments
			return t.bind(sel.X, func(a string) string {
				w, footer := pureArg(x.Args[0], name), pureArg(x.Args[1], name)
				return fmt.Sprintf("let %s := World.toHTML E.toHTML %s %s %s %s\n%s%s%s", v, webWorld, atom(a), w, footer, t.ind(), setWorld(v+".1"), k(v+".2"))
			}), true
		case "http.Error", "Header.Set":
			t.fail(x, "%s has no result", name)
		}
		if strings.HasPrefix(name, "group:") {
			fn := strings.TrimPrefix(name, "group:")
			var args []string
			for _, a := range x.Args {
				args = append(args, pureArg(a, fn))
			}
			return fmt.Sprintf("(E.%s %s).bind fun %s =>\n%s%s%s", fn, strings.Join(append([]string{webWorld}, args...), " "), v, t.ind(), setWorld(v+".1"), k(v+".2")), true
		}
	}
	return "", false
}

// ---------------------------------------------------------------- statements

// webStmt (hook at the top of stmts): the statements of group Web the older code does not have.
func (t *translator) webStmt(s ast.Stmt, rest []ast.Stmt, end trEnd) (string, bool) {
	cont := func() string { return t.stmts(rest, end) }
	switch x := s.(type) {
	case *ast.ExprStmt:
		c, ok := unparen(x.X).(*ast.CallExpr)
		if !ok {
			return "", false
		}
		name, is := t.webIsEffect(c)
		if !is {
			return "", false
		}
		pureArg := func(a ast.Expr) string {
			s, ok := t.pure(a)
			if !ok {
				t.fail(a, "%s: an argument that can panic or has an effect", name)
			}
			return atom(s)
		}
		switch name {
		case "http.Error":
			if len(c.Args) != 3 {
				t.fail(c, "http.Error: arguments")
			}
			return fmt.Sprintf("let %s := World.httpError %s %s %s %s\n%s%s", webWorld, webWorld, pureArg(c.Args[0]), pureArg(c.Args[1]), pureArg(c.Args[2]), t.ind(), cont()), true
		case "Header.Set":
			// w.Header().Set(k, v) on an http.ResponseWriter w
			sel := c.Fun.(*ast.SelectorExpr)
			h, ok := unparen(sel.X).(*ast.CallExpr)
			if !ok || len(h.Args) != 0 || len(c.Args) != 2 {
				t.fail(c, "Header.Set other than w.Header().Set(k, v)")
			}
			hs, ok := h.Fun.(*ast.SelectorExpr)
			if !ok {
				t.fail(c, "Header.Set other than w.Header().Set(k, v)")
			}
			if fn, ok := t.p.info.Uses[hs.Sel].(*types.Func); !ok || fn.FullName() != "(net/http.ResponseWriter).Header" {
				t.fail(c, "Header.Set on a header that is not w.Header() of an http.ResponseWriter")
			}
			return fmt.Sprintf("let %s := World.setHeader %s %s %s %s\n%s%s", webWorld, webWorld, pureArg(hs.X), pureArg(c.Args[0]), pureArg(c.Args[1]), t.ind(), cont()), true
		}
		// any other call with an effect as a statement: its results are dropped
		return t.bind(c, func(string) string { return cont() }), true
	case *ast.DeclStmt:
		gd, ok := x.Decl.(*ast.GenDecl)
		if !ok || gd.Tok != token.VAR || len(gd.Specs) != 1 {
			return "", false
		}
		vs, ok := gd.Specs[0].(*ast.ValueSpec)
		if !ok || len(vs.Names) != 1 || len(vs.Values) != 0 || vs.Type == nil || vs.Names[0].Name == "_" {
			return "", false
		}
		ty := t.typeOf(vs.Type)
		zero := ""
		switch {
		case t.webIsError(ty):
			zero = "GoErr.nil"
		default:
			if n, ok := ty.(*types.Named); ok && n.Obj().Pkg() != nil && n.Obj().Pkg().Name() == "stack" {
				// an enumeration of package stack: its constant of value 0
				sc := n.Obj().Pkg().Scope()
				for _, nm := range sc.Names() {
					if c, ok := sc.Lookup(nm).(*types.Const); ok && types.Identical(c.Type(), ty) && c.Val().Kind() == constant.Int && constant.Sign(c.Val()) == 0 {
						if l, ok := trEnumConst[nm]; ok {
							zero = l
						}
					}
				}
			}
		}
		if zero == "" {
			return "", false
		}
		typ := t.leanType(x, ty)
		id := vs.Names[0]
		t.declare(lid(id.Name), typ, t.p.info.Defs[id])
		return fmt.Sprintf("let %s : %s := %s\n%s%s", lid(id.Name), typ, zero, t.ind(), cont()), true
	case *ast.AssignStmt:
		// _ = e
		if len(x.Lhs) == 1 && len(x.Rhs) == 1 && x.Tok == token.ASSIGN {
			if id, ok := x.Lhs[0].(*ast.Ident); ok && id.Name == "_" {
				return t.bind(x.Rhs[0], func(string) string { return cont() }), true
			}
		}
	case *ast.RangeStmt:
		t.fail(x, "range loop (its index would be a Nat; group Web has Int only)")
	case *ast.ForStmt:
		if x.Cond != nil {
			t.fail(x, "for with a condition (the older groups' counted loops run over Nat; group Web has Int only)")
		}
		if x.Init != nil || x.Post != nil {
			// for init; ; post { body }  ==  init; for { body; post }   unless the body continues
			bad := false
			walkOwn(x.Body, func(m ast.Node) {
				if b, ok := m.(*ast.BranchStmt); ok && (b.Tok == token.CONTINUE || b.Tok == token.GOTO || b.Label != nil) {
					bad = true
				}
			}, nil)
			if bad {
				t.fail(x, "for without condition whose body has a continue (it would skip the post statement)")
			}
			y := *x
			y.Init, y.Post = nil, nil
			body := *x.Body
			body.List = append([]ast.Stmt{}, x.Body.List...)
			if x.Post != nil {
				body.List = append(body.List, x.Post)
			}
			y.Body = &body
			var list []ast.Stmt
			if x.Init != nil {
				list = append(list, x.Init)
			}
			list = append(list, &y)
			return t.stmts(append(list, rest...), end), true
		}
		return t.webFor(x, cont), true
	}
	return "", false
}

// webFor: `for { body }` as `after (forFuel (f_loopN E caps…) E.fuel st) fun st => rest` (cf. loopRoots)
func (t *translator) webFor(x *ast.ForStmt, cont func() string) string {
	outer := copyScope(t.scope)
	vs := t.assignedObj(x.Body, outer)
	t.nloop++
	name := fmt.Sprintf("%s_loop%d", t.fn, t.nloop)
	// captured: the locals (parameters included) that are not loop-carried
	isState := map[string]bool{}
	for _, v := range vs {
		isState[v.name] = true
	}
	var caps []trLocal
	seen := map[string]bool{}
	for i := len(outer) - 1; i >= 0; i-- { // the innermost binding of a name
		l := outer[i]
		if seen[l.name] || isState[l.name] || strings.HasPrefix(l.name, "_") {
			continue
		}
		seen[l.name] = true
		caps = append([]trLocal{l}, caps...)
	}
	var bind, args []string
	for _, c := range caps {
		bind = append(bind, fmt.Sprintf("(%s : %s)", c.name, c.typ))
		args = append(args, c.name)
	}
	resOuter := t.curRes()
	saveScope, saveDepth, saveSt, saveIn := t.scope, t.depth, t.stVars, t.inLoop
	t.frames = append(t.frames, trFrame{loop: true, brk: true, vs: vs, resTy: "(StepB " + tupleType(vs) + " " + resOuter + ")"})
	t.inLoop, t.stVars, t.depth = true, vs, 0
	t.scope = copyScope(outer)
	b := t.stmts(x.Body.List, func() string { return t.jumpLoop(x, false) })
	t.frames = t.frames[:len(t.frames)-1]
	t.inLoop, t.stVars, t.depth, t.scope = saveIn, saveSt, saveDepth, saveScope
	def := fmt.Sprintf("def %s (E : Env) %s (st : %s) : Option (StepB %s %s) :=\n%s  %s\n",
		name, strings.Join(bind, " "), tupleType(vs), tupleType(vs), resOuter, unpack(vs, "st", "  "), b)
	t.defs = append(t.defs, def)
	pat := tuple(vs)
	if len(vs) == 0 {
		pat = "_"
	}
	rest := cont()
	var un string
	if len(vs) > 1 {
		pat = "st"
		un = unpack(vs, "st", t.ind())
	}
	return fmt.Sprintf("after (forFuel (%s E %s) E.fuel %s) fun %s =>\n%s%s%s", name, strings.Join(args, " "), tuple(vs), pat, un, t.ind(), rest)
}
