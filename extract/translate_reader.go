// translate_reader.go — the group `Reader`: the line reader of stack/reader.go
// ((*reader).fill, buffered, readSlice, readLine) and ScanSnapshot of stack/context.go (the loop that reads lines,
// forwards text to the prefix writer, calls scan and builds the returned remainder).
//
// Generated file: lean/PP/TranslatedReader.lean (namespace PP.TrRd, its own Env); run-time support:
// lean/PP/Go/PreludeReader.lean; agreement with the hand-written LIST-level models PP/Model/Reader.lean and
// PP/Model/Loop.lean, as a refinement through an abstraction function: lean/PP/Tie/TranslatedReader.lean.
//
// Like group ScanSM this group has its OWN small statement/expression translator (type rdT): it shares nothing
// with the other groups but spelling helpers (lid, trFail, smIndent), needs no hook in translate.go, and is a
// WHITELIST: every construct that is not listed here makes the translation of the whole group fail by name
// (`translation_failed`).  Conventions are those of the other groups: a Go function is a non-recursive
// `def f (E : Env) args : Option τ` (`none` = a Go run-time panic, or an unbounded loop out of fuel, see below),
// calls of the group's functions go through `E`.
//
// What is translated and what each construct ASSUMES (sound or refuse):
//
//   - The translation stays at the ARRAY level.  `*reader` is the record `RdA` (PreludeReader): `buf` the array
//     `[16*1024]byte` as a list (its length is an INVARIANT the agreement theorems carry: `RdInv`; `len(r.buf)` is
//     the constant of the Go array type, emitted as `bufN`), `r`, `w` Go `int`s as Lean `Int` (ASSUMES no 64-bit
//     overflow: under `RdInv` every value is within [-1, 4*bufN]), `err` an `error`, `rd` the io.Reader.
//     The receiver is threaded: a method that assigns through it (or calls one that does) returns it with its
//     result (`RdA × result`); `buffered` only reads and returns its result alone.
//   - `error` values are `Option SliceErr` (nil = none): `io.ErrNoProgress`, `io.EOF`, any error of the io.Reader
//     (`SliceErr.rerr`), and the package's unexported sentinel `errBufferFull` (`SliceErr.bufferFull`).  Only
//     `== / != nil`, `== / != errBufferFull`, assignment and return are translated.  ASSUMES the io.Reader never
//     returns `errBufferFull` itself; CHECKED: the identifier is only used inside the functions of this group (so
//     it cannot leak to an io.Reader through this package).
//   - `r.buf[lo:hi]`, `r.buf[lo:]` are `sliceI r.buf lo hi` (`none` = slice bounds out of range; cap = len for an
//     array), `r.buf[:]` is `r.buf`.  Slices are VALUES taken at the moment of evaluation.  This is sound only
//     while the array is not written during the life of the slice: CHECKED for locals — a local that holds a slice
//     of `r.buf` or the `[]byte` result of a call of the group (`readSlice`, `readLine`, `buffered`: they alias
//     `r.buf`) must be declared with `:=` and no statement that follows in its block (its whole scope) may write the
//     array (`copy` into it, `Read` into it, a call of `fill`/`readSlice`/`readLine`); element writes `x[i] = v` do
//     not exist in the subset.  ASSUMED for callers outside the group (the ALIASING ASSUMPTION): the `[]byte`
//     results of `readSlice`/`readLine`/`buffered` are consumed or copied before the next call of a method of the
//     same reader.  `append(d, f...)` copies.
//   - `copy(r.buf[:], SRC)` (exactly this destination) is `r.buf := overlay r.buf SRC` (memmove semantics: SRC is
//     evaluated — a value — first).
//   - `n, err := r.rd.Read(r.buf[lo:])` (exactly this shape) is `readInto`: the io.Reader is the model's `Src`
//     (PP/Model/Reader.lean; a delivery schedule), `Src.read space` the oracle for one `Read` into `space` bytes;
//     the bytes it delivers are written at `lo`, and — the io.Reader contract lets an implementation use all of
//     `p` as scratch space — the rest of the window is overwritten with the oracle `E.scratch` (any bytes; the
//     agreement theorems hold for every such oracle).  ASSUMES the io.Reader contract: 0 ≤ n ≤ len(p) is what
//     `Src.read` delivers (the `n < 0` test is translated all the same), `p` is not retained, and `Read` does not
//     reach the reader `r` in any other way.
//   - `bytes.IndexByte(b, c)` is `indexByte b c` (-1 = absent); `len(x)` of a byte slice is `lenInt x`.
//   - A local `[]byte` declared `var d []byte` is NILABLE (`Option Bytes`, none = nil; `d == nil` is translated):
//     `d = make([]byte, 0, len(x)*K)` (exactly: length 0, capacity a product of a `len` and a positive constant:
//     never negative; ASSUMES the allocation succeeds) is `some []`; `d = append(d, f...)` is `goAppendN d f`
//     (append of nothing to nil stays nil); as a returned value `append(d, f...)` is its content.  Every other
//     `[]byte` is `Bytes` and is never compared with nil (refused): returned slices identify nil and empty.
//   - Statements: `x := e`, `x = e`, `x op= e` on int / error locals, `r.f = e`, `r.f op= e` on the int / error
//     fields of the receiver; `if` without else, optionally with an init `x := e`, either with a body that always
//     leaves (return / panic) — then the rest is the else branch — or with a body without any return/panic/
//     break/continue and no init — then the variables it assigns are threaded
//     (`(if c then … some vs else some vs).bind fun vs => rest`); `return`; `panic(…)` = `none`;
//     `for i := K; i > 0; i--` with a constant K ≥ 0 and a body that neither mentions `i` nor breaks/continues:
//     `repeatN body K`; `for [x := e]; ; [post] { body }` (no condition, no break/continue; left by return): the
//     loop on FUEL (`loopFuel`; the oracle `E.fuel_<f>` gives the fuel for the state the loop starts in): `none` when
//     the fuel runs out; `loopFuel_mono`
//     (PreludeReader): a result reached with some fuel is the result for any larger fuel, so a `some` IS the result
//     of the Go loop; the agreement theorems line the fuel up with the model's own fuel, for which sufficiency
//     is proved (`readSlice_isSome`, `readLine_isSome`).  The post statement runs after the body (there is no
//     `continue`).  Every variable in scope at a loop must be assigned in it (it is the loop-carried state).
//   - Scoping: a declaration of a name that is already in scope is refused (no shadowing), every use of an
//     identifier must resolve to the object the scope holds for that name; so a Lean `let` that outlives its Go
//     block cannot be referred to by mistake.
//   - Evaluation order: operands are translated left to right, the partial operations (slice expressions, calls)
//     are bound in that order before the statement's own effect.
//
// Additional constructs for ScanSnapshot(in io.Reader, prefix io.Writer, opts *Opts) (*Snapshot, []byte, error)
// (the signature is checked to be exactly this):
//
//   - The WORLD.  `in` is the model's `Src`, `prefix` the list of the bytes written to it so far; the translated function
//     returns both with its results (`((Src × Bytes) × (Option Snapshot × Option Bytes × Option GErr))`).
//     `r := reader{rd: in}` (exactly this literal) is a fresh `RdA` (array zeroed) into which `in` MOVES: the parameter is
//     refused from there on, the state of the io.Reader at a return is `r.rd`.  The local `r` is then the "receiver" of the
//     calls `r.readLine()`, `r.buffered()`, through `E`.
//   - `*Opts` is `Option Cli.Opts`; exactly `if opts == nil || !opts.isValid() { leave }` is a match on the pointer
//     (afterwards `opts` is the pointee; `isValid` is the oracle `E.isValid`, not called on nil); `opts.F` for the five
//     fields of the model's record.
//   - `s := scanningState{Snapshot: &Snapshot{LocalGOROOT: e1, LocalGOPATHs: e2}, state: K}` (exactly these fields) is a
//     `ScanSt` (PreludeReader): `sm` what scan works on (the model's `S`), `snap` the other fields of the Snapshot.
//     `s.scan(d)` is the oracle `E.scan` on `s.sm` (group ScanSM ties it to the model's `scanBytes`); `s.state` is
//     `s.sm.st`; `s.Goroutines != nil` is `s.sm.gs ≠ []` (the slice is nil-or-non-empty: see `cond`);
//     `nameArguments(s.Goroutines)`, `_ = s.guessPaths()`, `_ = s.augment()` are the oracles `E.nameArguments` (on the
//     goroutines: it works through the pointers of the slice), `E.guessPaths`, `E.augment` (on the whole state; `none` = a
//     panic); `s.Snapshot` (only as a returned value) is `some s.snapshot`, the value of the embedded pointee at that moment
//     (nothing runs after a return).  ASSUMES these calls and `prefix.Write` do not reach the local reader `r` and do not
//     keep or modify the []byte they are given (`rdPureCalls`).
//   - `error` is `Option GErr` here (an error of the reader, an error of scan — the `Err` tags of group ScanSM —,
//     `errors.New("invalid Opts")` — exactly this message —, an error of the writer); `== / != nil`, `== io.EOF`,
//     assignment, return.  The errors coming out of `E.readLine` / `E.scan` are injected (`GErr.slice`, `GErr.parse`).
//   - `_, err1 = prefix.Write(d)` is `goWrite E.write`: the oracle says how many bytes the writer accepts and which error it
//     returns.  `var err error`, `var x []byte` (nilable iff it is compared with nil or returned, otherwise nil ≡ empty),
//     `x = append([]byte{}, y...)` (a fresh non-nil copy), `x = append(x, r.buffered()...)`, bool locals and fields,
//     `&&`, `||`, `!` over pure total operands (`cond`).
//   - `d, err = r.readLine()` into EXISTING variables (here as the init of an if): `d` aliases `r.buf`; CHECKED: `d` is
//     declared `var d []byte`, and in its whole scope (from the declaration to the end of its block) this call is the only
//     operation that writes the array and is not inside a loop of that scope — so `d` is never loop-carried and no old
//     value of it is alive across a write.
//   - `for cond { … }` with `break` (no continue, no labelled break, no nested loop/switch/closure): `loopFuel` again, the
//     condition tested at the start of every iteration (`.brk` when it fails), the state = what the body assigns, other
//     variables it mentions are read-only parameters of the loop definition (`opts` only).  An `if` whose body may both
//     fall through and jump: the rest of the block is translated once for each way to reach it (`if c then body; rest
//     else rest`; no loop may follow).  The agreement theorem shows one more unit of fuel than the model's `scanB` uses
//     is enough (the Go loop tests `err == nil` at the top of the next iteration, the model leaves at once).
package main

import (
	"fmt"
	"go/ast"
	"go/constant"
	"go/token"
	"go/types"
	"sort"
	"strings"
)

var trFuncsRd = []string{"fill", "buffered", "readSlice", "readLine"}

// methods of the group that write the array r.buf (directly or through a callee)
var rdWritesBuf = map[string]bool{"fill": true, "readSlice": true, "readLine": true}

// calls that neither write r.buf nor keep the slices they are given (ASSUMED for scan — group ScanSM copies what it keeps
// —, for the io.Writer — its contract: "Write must not modify the slice data, even temporarily; implementations must not
// retain p" —, and for the post-processing of ScanSnapshot, which has no access to the local reader)
var rdPureCalls = map[string]bool{"IndexByte": true, "scan": true, "Write": true, "isValid": true, "guessPaths": true, "augment": true, "New": true}

// the constants of type `state` this group mentions (constructors of the model's `St`, as in group ScanSM)
var rdStates = map[string]bool{"looking": true, "done": true}

type rdVar struct {
	name  string
	kind  string // "int", "bytes", "nbytes" (nilable []byte), "err", "recv"
	obj   types.Object
	alias bool // may alias r.buf
	// for a []byte declared `var x []byte`: the statements that follow the declaration in its block (its whole scope)
	declRest []ast.Stmt
	declared bool
}

var rdLeanType = map[string]string{"int": "Int", "bytes": "Bytes", "nbytes": "Option Bytes", "err": "Option SliceErr", "recv": "RdA",
	"bool": "Bool", "gerr": "Option GErr", "src": "Src", "wr": "Bytes", "opts": "Option Cli.Opts", "optsv": "Cli.Opts", "scanst": "ScanSt",
	"snap": "Option Snapshot"}

type rdT struct {
	p        *pkgInfo
	fn       string
	recv     types.Object
	threaded map[string]bool // method name -> receiver is threaded
	results  map[string][]string
	scope    []rdVar
	defs     []string
	nloop    int
	tmp      int
	retKinds []string
	loop     string // "", "repeat", "fuel"
	bufN     int64
	fuelTyp  string // the type of the state of the function's unbounded loop ("" = none)
	errKind  string // the kind of Go `error` values in this function: "err" (Option SliceErr) or "gerr" (Option GErr)
	loopPat  string // the state tuple of the enclosing while loop (for break)
	srcMoved bool   // ScanSnapshot: the io.Reader parameter has been moved into the local reader (its state is r.rd)
	fd       *ast.FuncDecl
}

func (t *rdT) fail(n ast.Node, f string, a ...interface{}) {
	pos := t.p.fset.Position(n.Pos())
	panic(trFail{fmt.Sprintf("%s:%d: %s", pos.Filename[strings.LastIndex(pos.Filename, "/")+1:], pos.Line, fmt.Sprintf(f, a...))})
}

func (t *rdT) fresh() string { t.tmp++; return fmt.Sprintf("t%d", t.tmp) }

func (t *rdT) lookup(id *ast.Ident) *rdVar {
	obj := t.p.info.ObjectOf(id)
	for i := len(t.scope) - 1; i >= 0; i-- {
		if t.scope[i].name == lid(id.Name) {
			if t.scope[i].obj != obj {
				t.fail(id, "identifier %s does not resolve to the binding in scope", id.Name)
			}
			return &t.scope[i]
		}
	}
	return nil
}

func (t *rdT) declare(id *ast.Ident, kind string) *rdVar {
	if id.Name == "_" {
		t.fail(id, "blank identifier")
	}
	for _, v := range t.scope {
		if v.name == lid(id.Name) {
			t.fail(id, "declaration of %s shadows a variable in scope", id.Name)
		}
	}
	if id.Name == "E" || strings.HasPrefix(id.Name, "t") && len(id.Name) > 1 && id.Name[1] >= '0' && id.Name[1] <= '9' {
		t.fail(id, "identifier %s clashes with a generated name", id.Name)
	}
	t.scope = append(t.scope, rdVar{name: lid(id.Name), kind: kind, obj: t.p.info.Defs[id]})
	return &t.scope[len(t.scope)-1]
}

func (t *rdT) kindOf(n ast.Node, ty types.Type) string {
	if ty.String() == "error" {
		if t.errKind != "" {
			return t.errKind
		}
		return "err"
	}
	switch x := ty.Underlying().(type) {
	case *types.Basic:
		if x.Kind() == types.Int || x.Kind() == types.UntypedInt {
			return "int"
		}
		if x.Kind() == types.Bool || x.Kind() == types.UntypedBool {
			return "bool"
		}
	case *types.Slice:
		if b, ok := x.Elem().(*types.Basic); ok && b.Kind() == types.Uint8 {
			return "bytes"
		}
	}
	t.fail(n, "type %s is not supported", ty)
	return ""
}

func (t *rdT) typeOf(e ast.Expr) types.Type {
	if tv, ok := t.p.info.Types[e]; ok && tv.Type != nil {
		return tv.Type
	}
	if id, ok := e.(*ast.Ident); ok {
		if o := t.p.info.ObjectOf(id); o != nil {
			return o.Type()
		}
	}
	t.fail(e, "no type information")
	return nil
}

// isRecv: the expression is the receiver variable
func (t *rdT) isRecv(e ast.Expr) bool {
	id, ok := unparen(e).(*ast.Ident)
	return ok && t.p.info.ObjectOf(id) == t.recv && t.lookup(id) != nil
}

// recvField: e is `r.<field>`; returns the field name
func (t *rdT) recvField(e ast.Expr) (string, bool) {
	sel, ok := unparen(e).(*ast.SelectorExpr)
	if !ok || !t.isRecv(sel.X) {
		return "", false
	}
	if s := t.p.info.Selections[sel]; s == nil || s.Kind() != types.FieldVal {
		return "", false
	}
	return sel.Sel.Name, true
}

func (t *rdT) pkgFunc(e ast.Expr, pkg, name string) bool {
	sel, ok := unparen(e).(*ast.SelectorExpr)
	if !ok || sel.Sel.Name != name {
		return false
	}
	id, ok := sel.X.(*ast.Ident)
	if !ok {
		return false
	}
	pn, ok := t.p.info.Uses[id].(*types.PkgName)
	return ok && pn.Imported().Path() == pkg
}

func (t *rdT) builtin(e ast.Expr, name string) bool {
	id, ok := unparen(e).(*ast.Ident)
	if !ok || id.Name != name {
		return false
	}
	_, ok = t.p.info.Uses[id].(*types.Builtin)
	return ok
}

// groupCall: e is `r.<method>(…)` with a method of the group
func (t *rdT) groupCall(e ast.Expr) (string, *ast.CallExpr, bool) {
	c, ok := unparen(e).(*ast.CallExpr)
	if !ok {
		return "", nil, false
	}
	sel, ok := c.Fun.(*ast.SelectorExpr)
	if !ok || t.recv == nil || !t.isRecv(sel.X) {
		return "", nil, false
	}
	if s := t.p.info.Selections[sel]; s == nil || s.Kind() != types.MethodVal {
		return "", nil, false
	}
	if _, ok := t.results[sel.Sel.Name]; !ok {
		t.fail(e, "call of %s, which is not in the group", sel.Sel.Name)
	}
	if len(c.Args) != 0 {
		t.fail(e, "call with arguments")
	}
	return sel.Sel.Name, c, true
}

// writesBuf: the node contains an operation that writes the array r.buf
func (t *rdT) writesBuf(n ast.Node) bool {
	found := false
	ast.Inspect(n, func(m ast.Node) bool {
		c, ok := m.(*ast.CallExpr)
		if !ok {
			return true
		}
		if t.builtin(c.Fun, "copy") {
			found = true
		}
		if sel, ok := c.Fun.(*ast.SelectorExpr); ok {
			if sel.Sel.Name == "Read" || rdWritesBuf[sel.Sel.Name] {
				found = true
			}
			if _, isGroup := t.results[sel.Sel.Name]; !isGroup && !rdPureCalls[sel.Sel.Name] {
				found = true // an unknown method: refuse to reason about it
			}
		}
		return true
	})
	return found
}

// assigned: the variables in scope a node assigns (the receiver for a field write, a buffer write or a call of a
// threaded method)
func (t *rdT) assigned(n ast.Node) map[types.Object]bool {
	res := map[types.Object]bool{}
	var lhs func(e ast.Expr)
	lhs = func(e ast.Expr) {
		switch x := unparen(e).(type) {
		case *ast.Ident:
			if o := t.p.info.ObjectOf(x); o != nil {
				res[o] = true
			}
		case *ast.SelectorExpr:
			lhs(x.X)
		case *ast.IndexExpr:
			lhs(x.X)
		case *ast.SliceExpr:
			lhs(x.X)
		case *ast.StarExpr:
			lhs(x.X)
		}
	}
	ast.Inspect(n, func(m ast.Node) bool {
		switch x := m.(type) {
		case *ast.AssignStmt:
			for _, l := range x.Lhs {
				lhs(l)
			}
		case *ast.IncDecStmt:
			lhs(x.X)
		case *ast.CallExpr:
			if t.builtin(x.Fun, "copy") && len(x.Args) > 0 {
				lhs(x.Args[0])
			}
			if sel, ok := x.Fun.(*ast.SelectorExpr); ok {
				if sel.Sel.Name == "Read" {
					res[t.recv] = true
					for _, a := range x.Args {
						lhs(a)
					}
				}
				if t.threaded[sel.Sel.Name] || sel.Sel.Name == "scan" || sel.Sel.Name == "guessPaths" || sel.Sel.Name == "augment" || sel.Sel.Name == "Write" {
					lhs(sel.X)
				}
			}
			if id, ok := x.Fun.(*ast.Ident); ok && id.Name == "nameArguments" {
				for _, a := range x.Args {
					lhs(a)
				}
			}
		}
		return true
	})
	return res
}

// leaves: every path through the statements ends in return or panic
func (t *rdT) leaves(list []ast.Stmt) bool {
	if len(list) == 0 {
		return false
	}
	switch x := list[len(list)-1].(type) {
	case *ast.ReturnStmt:
		return true
	case *ast.BranchStmt:
		return x.Tok == token.BREAK && x.Label == nil
	case *ast.ExprStmt:
		if c, ok := x.X.(*ast.CallExpr); ok && t.builtin(c.Fun, "panic") {
			return true
		}
	}
	return false
}

// jumps: the node contains a return, panic, break, continue or goto
func (t *rdT) jumps(n ast.Node) bool {
	found := false
	ast.Inspect(n, func(m ast.Node) bool {
		switch x := m.(type) {
		case *ast.ReturnStmt, *ast.BranchStmt:
			found = true
		case *ast.CallExpr:
			if t.builtin(x.Fun, "panic") {
				found = true
			}
		}
		return true
	})
	return found
}

func (t *rdT) mentions(n ast.Node, obj types.Object) bool {
	found := false
	ast.Inspect(n, func(m ast.Node) bool {
		if id, ok := m.(*ast.Ident); ok && t.p.info.ObjectOf(id) == obj {
			found = true
		}
		return true
	})
	return found
}

// expr translates an expression of kind int / bytes / err: the bindings of its partial sub-expressions (in
// evaluation order) and the term.  want: the kind the context needs ("" = whatever the expression has).
func (t *rdT) expr(e ast.Expr, want string) (pre, term, kind string) {
	e = unparen(e)
	switch x := e.(type) {
	case *ast.BasicLit:
		switch x.Kind {
		case token.INT:
			return "", fmt.Sprintf("(%s : Int)", x.Value), "int"
		case token.CHAR:
			tv := t.p.info.Types[e]
			if v, ok := constant.Int64Val(tv.Value); ok && v >= 0 && v < 256 {
				return "", fmt.Sprintf("(%d : UInt8)", v), "byte"
			}
		}
		t.fail(e, "literal %s", x.Value)
	case *ast.Ident:
		if x.Name == "nil" && t.p.info.Uses[x] == types.Universe.Lookup("nil") {
			if want == "err" || want == "gerr" || want == "nbytes" || want == "snap" {
				return "", "none", want
			}
			t.fail(e, "nil of a type other than error, a nilable []byte or *Snapshot")
		}
		if v := t.lookup(x); v != nil {
			switch v.kind {
			case "recv", "src", "wr", "opts", "optsv", "scanst", "moved":
				t.fail(e, "%s used as a value", x.Name)
			}
			return "", v.name, v.kind
		}
		if c, ok := t.p.info.Uses[x].(*types.Const); ok && c.Parent() == t.p.pkg.Scope() && c.Type().String() == t.p.pkg.Path()+".state" && rdStates[x.Name] {
			return "", "St." + x.Name, "st"
		}
		if x.Name == "errBufferFull" {
			if v, ok := t.p.info.Uses[x].(*types.Var); ok && v.Parent() == t.p.pkg.Scope() {
				return "", "(some SliceErr.bufferFull)", "err"
			}
		}
		t.fail(e, "identifier %s", x.Name)
	case *ast.SelectorExpr:
		if f, ok := t.recvField(e); ok {
			switch f {
			case "r", "w":
				return "", t.recvName() + "." + f, "int"
			case "err":
				return "", t.recvName() + ".err", "err"
			}
			t.fail(e, "field %s of the reader used as a value", f)
		}
		if t.pkgFunc(e, "io", "ErrNoProgress") && t.errKind != "gerr" {
			return "", "(some (SliceErr.rerr RErr.noProgress))", "err"
		}
		if t.pkgFunc(e, "io", "EOF") {
			if t.errKind == "gerr" {
				return "", "(some (GErr.slice (SliceErr.rerr RErr.eof)))", "gerr"
			}
			return "", "(some (SliceErr.rerr RErr.eof))", "err"
		}
		if id, ok := unparen(x.X).(*ast.Ident); ok {
			if v := t.lookup(id); v != nil {
				sl := t.p.info.Selections[x]
				if sl == nil || sl.Kind() != types.FieldVal {
					t.fail(e, "selector %s", types.ExprString(e))
				}
				switch v.kind + "." + x.Sel.Name {
				case "scanst.state":
					return "", v.name + ".sm.st", "st"
				case "scanst.Goroutines":
					return "", v.name + ".sm.gs", "gs"
				case "scanst.Snapshot":
					// the pointer to the snapshot the state embeds: its value at this moment (only translated in a return)
					return "", "(some " + v.name + ".snapshot)", "snap"
				case "optsv.LocalGOROOT":
					return "", v.name + ".localGOROOT", "str"
				case "optsv.LocalGOPATHs":
					return "", v.name + ".localGOPATHs", "strs"
				case "optsv.NameArguments":
					return "", v.name + ".nameArguments", "bool"
				case "optsv.GuessPaths":
					return "", v.name + ".guessPaths", "bool"
				case "optsv.AnalyzeSources":
					return "", v.name + ".analyzeSources", "bool"
				}
			}
		}
		t.fail(e, "selector %s", types.ExprString(e))
	case *ast.BinaryExpr:
		if x.Op == token.ADD || x.Op == token.SUB {
			p1, a, k1 := t.expr(x.X, "int")
			p2, b, k2 := t.expr(x.Y, "int")
			if k1 != "int" || k2 != "int" {
				t.fail(e, "arithmetic on %s, %s", k1, k2)
			}
			op := "+"
			if x.Op == token.SUB {
				op = "-"
			}
			return p1 + p2, fmt.Sprintf("(%s %s %s)", a, op, b), "int"
		}
		t.fail(e, "operator %s as a value", x.Op)
	case *ast.SliceExpr:
		if f, ok := t.recvField(x.X); !ok || f != "buf" || x.Slice3 {
			t.fail(e, "slice expression on something other than r.buf")
		}
		if x.Low == nil && x.High == nil {
			return "", t.recvName() + ".buf", "bytes"
		}
		p1, lo := "", "(0 : Int)"
		if x.Low != nil {
			var k string
			p1, lo, k = t.expr(x.Low, "int")
			if k != "int" {
				t.fail(e, "slice bound")
			}
		}
		p2, hi := "", "(bufN : Int)"
		if x.High != nil {
			var k string
			p2, hi, k = t.expr(x.High, "int")
			if k != "int" {
				t.fail(e, "slice bound")
			}
		}
		v := t.fresh()
		return p1 + p2 + fmt.Sprintf("(sliceI %s.buf %s %s).bind fun %s =>\n", t.recvName(), lo, hi, v), v, "bytes"
	case *ast.CallExpr:
		if t.builtin(x.Fun, "len") && len(x.Args) == 1 {
			if f, ok := t.recvField(x.Args[0]); ok && f == "buf" {
				return "", "(bufN : Int)", "int"
			}
			p1, a, k := t.expr(x.Args[0], "")
			if k != "bytes" {
				t.fail(e, "len of %s", k)
			}
			return p1, fmt.Sprintf("(lenInt %s)", a), "int"
		}
		if t.pkgFunc(x.Fun, "bytes", "IndexByte") && len(x.Args) == 2 {
			p1, a, k1 := t.expr(x.Args[0], "bytes")
			p2, b, k2 := t.expr(x.Args[1], "")
			if k1 != "bytes" || k2 != "byte" {
				t.fail(e, "IndexByte operands")
			}
			return p1 + p2, fmt.Sprintf("(indexByte %s %s)", a, b), "int"
		}
		if t.builtin(x.Fun, "append") && len(x.Args) == 2 && x.Ellipsis.IsValid() {
			// append(d, f...) as a VALUE (returned): the content of the result
			d, ok := unparen(x.Args[0]).(*ast.Ident)
			if !ok {
				t.fail(e, "append to something other than a variable")
			}
			dv := t.lookup(d)
			if dv == nil || dv.kind != "nbytes" {
				t.fail(e, "append to %s, which is not a nilable []byte local", d.Name)
			}
			p2, f, k := t.expr(x.Args[1], "bytes")
			if k != "bytes" {
				t.fail(e, "append operand")
			}
			return p2, fmt.Sprintf("((goAppendN %s %s).getD [])", dv.name, f), "bytes"
		}
		if t.pkgFunc(x.Fun, "errors", "New") && len(x.Args) == 1 && t.errKind == "gerr" {
			if m, ok := strLit(x.Args[0]); ok && m == "invalid Opts" {
				return "", "(some GErr.invalidOpts)", "gerr"
			}
			t.fail(e, "errors.New with an unknown message")
		}
		if name, _, ok := t.groupCall(e); ok && !t.threaded[name] && len(t.results[name]) == 1 {
			v := t.fresh()
			return fmt.Sprintf("(E.%s %s).bind fun %s =>\n", name, t.recvName(), v), v, t.results[name][0]
		}
		t.fail(e, "call %s as a value", types.ExprString(x.Fun))
	}
	t.fail(e, "expression %s", types.ExprString(e))
	return
}

func (t *rdT) recvName() string {
	for _, v := range t.scope {
		if v.kind == "recv" {
			return v.name
		}
	}
	panic(trFail{"no receiver"})
}

// cond translates a condition to a decidable proposition.  `&&`, `||`, `!` are ∧, ∨, ¬: sound for Go's short-circuit
// evaluation because the operands translated here are pure and total (an operand with a partial sub-expression — a
// slice expression, a call of the group — is refused inside them).
func (t *rdT) cond(e ast.Expr) (pre, term string) {
	e = unparen(e)
	isNil := func(y ast.Expr) bool {
		id, ok := unparen(y).(*ast.Ident)
		return ok && id.Name == "nil" && t.p.info.Uses[id] == types.Universe.Lookup("nil")
	}
	switch x := e.(type) {
	case *ast.UnaryExpr:
		if x.Op == token.NOT {
			p1, c := t.cond(x.X)
			return p1, "¬ (" + c + ")"
		}
	case *ast.Ident:
		if v := t.lookup(x); v != nil && v.kind == "bool" {
			return "", v.name + " = true"
		}
	case *ast.SelectorExpr:
		if _, a, k := t.expr(e, "bool"); k == "bool" {
			return "", a + " = true"
		}
	case *ast.CallExpr:
		// opts.isValid() on a non-nil *Opts: the oracle E.isValid
		if sel, ok := x.Fun.(*ast.SelectorExpr); ok && sel.Sel.Name == "isValid" && len(x.Args) == 0 {
			if id, ok := unparen(sel.X).(*ast.Ident); ok {
				if v := t.lookup(id); v != nil && v.kind == "optsv" {
					return "", "E.isValid " + v.name + " = true"
				}
			}
		}
	case *ast.BinaryExpr:
		if x.Op == token.LAND || x.Op == token.LOR {
			p1, a := t.cond(x.X)
			p2, b := t.cond(x.Y)
			if p1 != "" || p2 != "" {
				t.fail(e, "a partial operation under && / ||")
			}
			op := "∧"
			if x.Op == token.LOR {
				op = "∨"
			}
			return "", fmt.Sprintf("(%s %s %s)", a, op, b)
		}
		ops := map[token.Token]string{token.GTR: ">", token.GEQ: "≥", token.LSS: "<", token.LEQ: "≤", token.EQL: "=", token.NEQ: "≠"}
		op, ok := ops[x.Op]
		if !ok {
			t.fail(e, "condition operator %s", x.Op)
		}
		if isNil(x.Y) {
			if x.Op != token.EQL && x.Op != token.NEQ {
				t.fail(e, "ordering against nil")
			}
			p1, a, k := t.expr(x.X, t.errKindOr())
			switch k {
			case "err", "gerr", "nbytes":
				return p1, fmt.Sprintf("%s %s none", a, op)
			case "gs":
				// s.Goroutines against nil.  The slice is nil-or-non-empty: the state is created in this function by a
				// literal without Goroutines (checked: see scanStLit), nothing here assigns the field, and scan (group
				// ScanSM, checked there) only ever appends at least one element to it.
				return p1, fmt.Sprintf("%s %s []", a, op)
			}
			t.fail(e, "comparison of %s with nil", k)
		}
		p1, a, k1 := t.expr(x.X, "")
		p2, c, k2 := t.expr(x.Y, k1)
		if k1 != k2 || (k1 != "int" && k1 != "err" && k1 != "gerr" && k1 != "st") {
			t.fail(e, "comparison of %s and %s", k1, k2)
		}
		if k1 != "int" && x.Op != token.EQL && x.Op != token.NEQ {
			t.fail(e, "ordering of %s", k1)
		}
		return p1 + p2, fmt.Sprintf("%s %s %s", a, op, c)
	}
	t.fail(e, "condition %s", types.ExprString(e))
	return
}

func (t *rdT) errKindOr() string {
	if t.errKind != "" {
		return t.errKind
	}
	return "err"
}

// aliasCheck: a local that may alias r.buf is declared; nothing after it in its block may write the array
func (t *rdT) aliasCheck(at ast.Node, name string, rest []ast.Stmt) {
	for _, s := range rest {
		if t.writesBuf(s) {
			t.fail(at, "%s may alias r.buf, which is written later in its scope", name)
		}
	}
}

func (t *rdT) mayAlias(e ast.Expr) bool {
	switch x := unparen(e).(type) {
	case *ast.SliceExpr:
		return true
	case *ast.CallExpr:
		_, _, ok := t.groupCall(x)
		return ok
	}
	return false
}

func (t *rdT) tupleOf(vs []rdVar) (pat, typ string) {
	var n, ty []string
	for _, v := range vs {
		n = append(n, v.name)
		ty = append(ty, rdLeanType[v.kind])
	}
	if len(vs) == 1 {
		return n[0], ty[0]
	}
	return "(" + strings.Join(n, ", ") + ")", "(" + strings.Join(ty, " × ") + ")"
}

// assignTo: `lhs (op)= term` for a local or a field of the receiver
func (t *rdT) assignTo(at ast.Node, lhs ast.Expr, tok token.Token, rhs ast.Expr) string {
	var cur, kind string
	var emit func(v string) string
	if f, ok := t.recvField(lhs); ok {
		switch f {
		case "r", "w":
			kind = "int"
		case "err":
			kind = "err"
		default:
			t.fail(at, "assignment to field %s", f)
		}
		r := t.recvName()
		cur = r + "." + f
		emit = func(v string) string { return fmt.Sprintf("let %s : RdA := { %s with %s := %s }\n", r, r, lid(f), v) }
	} else if id, ok := unparen(lhs).(*ast.Ident); ok {
		v := t.lookup(id)
		if v == nil || (v.kind != "int" && v.kind != "err" && v.kind != "gerr") {
			t.fail(at, "assignment to %s", id.Name)
		}
		kind, cur = v.kind, v.name
		emit = func(w string) string { return fmt.Sprintf("let %s : %s := %s\n", v.name, rdLeanType[v.kind], w) }
	} else {
		t.fail(at, "assignment to %s", types.ExprString(lhs))
	}
	pre, val, k := t.expr(rhs, kind)
	if k != kind {
		t.fail(at, "assignment of %s to %s", k, kind)
	}
	switch tok {
	case token.ASSIGN:
	case token.ADD_ASSIGN, token.SUB_ASSIGN:
		if kind != "int" {
			t.fail(at, "arithmetic on %s", kind)
		}
		op := "+"
		if tok == token.SUB_ASSIGN {
			op = "-"
		}
		val = fmt.Sprintf("(%s %s %s)", cur, op, val)
	default:
		t.fail(at, "assignment operator %s", tok)
	}
	return pre + emit(val)
}

// stmts translates a statement list; k yields the term for falling off its end.
func (t *rdT) stmts(list []ast.Stmt, k func() string) string {
	if len(list) == 0 {
		return k()
	}
	s, rest := list[0], list[1:]
	next := func() string { return t.stmts(rest, k) }
	switch x := s.(type) {
	case *ast.ReturnStmt:
		if len(rest) != 0 {
			t.fail(s, "statements after return")
		}
		return t.ret(x)
	case *ast.ExprStmt:
		c, ok := x.X.(*ast.CallExpr)
		if !ok {
			t.fail(s, "expression statement")
		}
		if t.builtin(c.Fun, "panic") {
			return "none\n"
		}
		if t.builtin(c.Fun, "copy") && len(c.Args) == 2 {
			d, ok := unparen(c.Args[0]).(*ast.SliceExpr)
			if !ok || d.Low != nil || d.High != nil || d.Slice3 {
				t.fail(s, "copy to something other than r.buf[:]")
			}
			if f, ok := t.recvField(d.X); !ok || f != "buf" {
				t.fail(s, "copy to something other than r.buf[:]")
			}
			pre, src, kd := t.expr(c.Args[1], "bytes")
			if kd != "bytes" {
				t.fail(s, "copy from %s", kd)
			}
			r := t.recvName()
			return pre + fmt.Sprintf("let %s : RdA := { %s with buf := overlay %s.buf %s }\n", r, r, r, src) + next()
		}
		if id, ok := c.Fun.(*ast.Ident); ok && id.Name == "nameArguments" && len(c.Args) == 1 {
			// nameArguments(s.Goroutines): it renames the arguments in place, through the pointers of the slice: the oracle
			// E.nameArguments yields the pointees afterwards (`none` = a panic)
			if fn, ok := t.p.info.Uses[id].(*types.Func); !ok || fn.Parent() != t.p.pkg.Scope() {
				t.fail(s, "nameArguments")
			}
			sel, ok := unparen(c.Args[0]).(*ast.SelectorExpr)
			if !ok || sel.Sel.Name != "Goroutines" {
				t.fail(s, "nameArguments operand")
			}
			sid, ok := unparen(sel.X).(*ast.Ident)
			if !ok {
				t.fail(s, "nameArguments operand")
			}
			sv := t.lookup(sid)
			if sv == nil || sv.kind != "scanst" {
				t.fail(s, "nameArguments operand")
			}
			v := t.fresh()
			return fmt.Sprintf("(E.nameArguments %s.sm.gs).bind fun %s =>\nlet %s : ScanSt := { %s with sm := { %s.sm with gs := %s } }\n", sv.name, v, sv.name, sv.name, sv.name, v) + next()
		}
		if name, _, ok := t.groupCall(c); ok {
			if len(t.results[name]) != 0 || !t.threaded[name] {
				t.fail(s, "call of %s as a statement", name)
			}
			r := t.recvName()
			return fmt.Sprintf("(E.%s %s).bind fun %s =>\n", name, r, r) + next()
		}
		t.fail(s, "call statement %s", types.ExprString(c.Fun))
	case *ast.DeclStmt:
		gd, ok := x.Decl.(*ast.GenDecl)
		if !ok || gd.Tok != token.VAR || len(gd.Specs) != 1 {
			t.fail(s, "declaration")
		}
		vs := gd.Specs[0].(*ast.ValueSpec)
		if len(vs.Names) != 1 || len(vs.Values) != 0 || vs.Type == nil {
			t.fail(s, "only `var x []byte` and `var x error` are supported")
		}
		switch t.kindOf(s, t.typeOf(vs.Type)) {
		case "bytes":
			if t.nilMatters(t.p.info.Defs[vs.Names[0]]) {
				v := t.declare(vs.Names[0], "nbytes")
				return fmt.Sprintf("let %s : Option Bytes := none\n", v.name) + next()
			}
			// never compared with nil, never returned: nil and empty need not be told apart
			v := t.declare(vs.Names[0], "bytes")
			v.declRest, v.declared = rest, true
			return fmt.Sprintf("let %s : Bytes := []\n", v.name) + next()
		case "gerr":
			v := t.declare(vs.Names[0], "gerr")
			return fmt.Sprintf("let %s : Option GErr := none\n", v.name) + next()
		}
		t.fail(s, "only `var x []byte` and `var x error` are supported")
	case *ast.BranchStmt:
		if x.Tok != token.BREAK || x.Label != nil || t.loop != "while" {
			t.fail(s, "%s", x.Tok)
		}
		if len(rest) != 0 {
			t.fail(s, "statements after break")
		}
		return fmt.Sprintf("some (.brk %s)\n", t.loopPat)
	case *ast.AssignStmt:
		return t.assign(x, rest) + next()
	case *ast.IfStmt:
		if x.Else != nil {
			t.fail(s, "if with else")
		}
		if r, ok := t.optsGate(x, next); ok {
			return r
		}
		mark := len(t.scope)
		pre := ""
		if x.Init != nil {
			as, ok := x.Init.(*ast.AssignStmt)
			if !ok || (as.Tok != token.DEFINE && as.Tok != token.ASSIGN) {
				t.fail(s, "if init")
			}
			// what an init assigns lives on after the if: the alias check looks at the rest of the block too
			pre = t.assign(as, append([]ast.Stmt{x.Body}, rest...))
		}
		if t.leaves(x.Body.List) {
			pc, c := t.cond(x.Cond)
			body := t.stmts(x.Body.List, func() string { t.fail(s, "internal: leaving block falls through"); return "" })
			t.scope = t.scope[:mark]
			return pre + pc + fmt.Sprintf("if %s then\n%selse\n", c, smIndent(body)+"\n") + next()
		}
		if x.Init == nil && !t.jumps(x.Body) {
			as := t.assigned(x.Body)
			var vs []rdVar
			for _, v := range t.scope {
				if as[v.obj] {
					vs = append(vs, v)
				}
			}
			if len(vs) == 0 {
				t.fail(s, "an if without effect")
			}
			pc, c := t.cond(x.Cond)
			pat, _ := t.tupleOf(vs)
			body := t.stmts(x.Body.List, func() string { return fmt.Sprintf("some %s\n", pat) })
			t.scope = t.scope[:mark]
			return pc + fmt.Sprintf("(if %s then\n%s\nelse some %s).bind fun %s =>\n", c, smIndent(body), pat, pat) + next()
		}
		// the body may fall through or jump: the rest of the block is translated once for each way to reach it
		// (no loop may follow: its definition would be emitted twice)
		for _, r := range rest {
			hasLoop := false
			ast.Inspect(r, func(m ast.Node) bool {
				if _, ok := m.(*ast.ForStmt); ok {
					hasLoop = true
				}
				if _, ok := m.(*ast.RangeStmt); ok {
					hasLoop = true
				}
				return true
			})
			if hasLoop {
				t.fail(s, "a loop after an if that both falls through and jumps")
			}
		}
		pc, c := t.cond(x.Cond)
		body := t.stmts(x.Body.List, func() string { t.scope = t.scope[:mark]; return next() })
		t.scope = t.scope[:mark]
		els := next()
		return pre + pc + fmt.Sprintf("if %s then\n%s\nelse\n", c, smIndent(body)) + els
	case *ast.ForStmt:
		return t.forStmt(x, next)
	}
	t.fail(s, "statement %T", s)
	return ""
}

// nilMatters: the []byte local is compared with nil or returned (then nil and empty must be told apart)
func (t *rdT) nilMatters(obj types.Object) bool {
	found := false
	ast.Inspect(t.fd.Body, func(m ast.Node) bool {
		switch x := m.(type) {
		case *ast.BinaryExpr:
			for _, pair := range [][2]ast.Expr{{x.X, x.Y}, {x.Y, x.X}} {
				a, ok1 := unparen(pair[0]).(*ast.Ident)
				b, ok2 := unparen(pair[1]).(*ast.Ident)
				if ok1 && ok2 && t.p.info.ObjectOf(a) == obj && b.Name == "nil" {
					found = true
				}
			}
		case *ast.ReturnStmt:
			if t.mentions(x, obj) {
				found = true
			}
		}
		return true
	})
	return found
}

// optsGate: exactly `if opts == nil || !opts.isValid() { leave }` on the *Opts parameter: a match on the pointer;
// afterwards `opts` is the pointee (the short-circuit `||` keeps isValid from being called on nil).
func (t *rdT) optsGate(x *ast.IfStmt, next func() string) (string, bool) {
	b, ok := unparen(x.Cond).(*ast.BinaryExpr)
	if !ok || b.Op != token.LOR || x.Init != nil {
		return "", false
	}
	l, ok := unparen(b.X).(*ast.BinaryExpr)
	if !ok || l.Op != token.EQL {
		return "", false
	}
	id, ok := unparen(l.X).(*ast.Ident)
	n, ok2 := unparen(l.Y).(*ast.Ident)
	if !ok || !ok2 || n.Name != "nil" {
		return "", false
	}
	v := t.lookup(id)
	if v == nil || v.kind != "opts" {
		return "", false
	}
	if !t.leaves(x.Body.List) {
		t.fail(x, "the nil test of opts must guard a leaving block")
	}
	mark := len(t.scope)
	body1 := t.stmts(x.Body.List, func() string { t.fail(x, "internal"); return "" })
	t.scope = t.scope[:mark]
	v = t.lookup(id)
	v.kind = "optsv"
	_, c := t.cond(b.Y)
	body2 := t.stmts(x.Body.List, func() string { t.fail(x, "internal"); return "" })
	t.scope = t.scope[:mark]
	return fmt.Sprintf("match %s with\n| none =>\n%s\n| some %s =>\n", v.name, smIndent(body1), v.name) +
		smIndent(fmt.Sprintf("if %s then\n%s\nelse\n", c, smIndent(body2))+next()) + "\n", true
}

// byteSliceLit: the expression is `[]byte{}`
func (t *rdT) emptyBytesLit(e ast.Expr) bool {
	cl, ok := unparen(e).(*ast.CompositeLit)
	return ok && len(cl.Elts) == 0 && t.kindOf(e, t.typeOf(e)) == "bytes"
}

// structLit: `T{f1: e1, …}` of the named struct type T of this package; returns the key/value pairs
func (t *rdT) structLit(e ast.Expr, name string) (map[string]ast.Expr, bool) {
	cl, ok := unparen(e).(*ast.CompositeLit)
	if !ok {
		return nil, false
	}
	nt, ok := t.typeOf(cl).(*types.Named)
	if !ok || nt.Obj().Name() != name || nt.Obj().Pkg() != t.p.pkg {
		return nil, false
	}
	res := map[string]ast.Expr{}
	for _, el := range cl.Elts {
		kv, ok := el.(*ast.KeyValueExpr)
		if !ok {
			t.fail(e, "positional composite literal")
		}
		k, ok := kv.Key.(*ast.Ident)
		if !ok {
			t.fail(e, "composite literal key")
		}
		res[k.Name] = kv.Value
	}
	return res, true
}

// scanStLit: exactly `scanningState{Snapshot: &Snapshot{LocalGOROOT: e1, LocalGOPATHs: e2}, state: K}`: no Goroutines (nil), no
// prefix, goroutineIndex 0
func (t *rdT) scanStLit(x *ast.AssignStmt, id *ast.Ident, kv map[string]ast.Expr) string {
	if len(kv) != 2 || kv["Snapshot"] == nil || kv["state"] == nil {
		t.fail(x, "scanningState literal: fields")
	}
	u, ok := unparen(kv["Snapshot"]).(*ast.UnaryExpr)
	if !ok || u.Op != token.AND {
		t.fail(x, "scanningState literal: Snapshot")
	}
	skv, ok := t.structLit(u.X, "Snapshot")
	if !ok || len(skv) != 2 || skv["LocalGOROOT"] == nil || skv["LocalGOPATHs"] == nil {
		t.fail(x, "scanningState literal: Snapshot fields")
	}
	p1, a, k1 := t.expr(skv["LocalGOROOT"], "str")
	p2, b, k2 := t.expr(skv["LocalGOPATHs"], "strs")
	p3, c, k3 := t.expr(kv["state"], "st")
	if k1 != "str" || k2 != "strs" || k3 != "st" || p1+p2+p3 != "" {
		t.fail(x, "scanningState literal: values")
	}
	t.scope = append(t.scope, rdVar{name: lid(id.Name), kind: "scanst", obj: t.p.info.Defs[id]})
	return fmt.Sprintf("let %s : ScanSt := { sm := { st := %s }, snap := { localGOROOT := %s, localGOPATHs := %s } }\n", lid(id.Name), c, a, b)
}

// readerLit: exactly `reader{rd: in}` with `in` the io.Reader parameter: the array is zeroed, r = w = 0, err = nil.  The
// io.Reader MOVES into the local reader: its state is `r.rd` from here on, the parameter leaves the scope.
func (t *rdT) readerLit(x *ast.AssignStmt, id *ast.Ident, kv map[string]ast.Expr) string {
	if len(kv) != 1 || kv["rd"] == nil || t.recv != nil {
		t.fail(x, "reader literal")
	}
	in, ok := unparen(kv["rd"]).(*ast.Ident)
	if !ok {
		t.fail(x, "reader literal")
	}
	v := t.lookup(in)
	if v == nil || v.kind != "src" {
		t.fail(x, "reader literal: rd")
	}
	src := v.name
	v.kind = "moved" // any later use is refused
	t.srcMoved = true
	t.recv = t.p.info.Defs[id]
	for _, w := range t.scope {
		if w.name == lid(id.Name) {
			t.fail(x, "declaration of %s shadows a variable in scope", id.Name)
		}
	}
	t.scope = append(t.scope, rdVar{name: lid(id.Name), kind: "recv", obj: t.recv})
	return fmt.Sprintf("let %s : RdA := { buf := List.replicate bufN 0, rd := %s }\n", lid(id.Name), src)
}

// assign translates := / = / op= (without the continuation); rest: the statements that follow in the block
func (t *rdT) assign(x *ast.AssignStmt, rest []ast.Stmt) string {
	// n, err := r.rd.Read(r.buf[lo:])
	if len(x.Lhs) == 2 && len(x.Rhs) == 1 {
		c, ok := unparen(x.Rhs[0]).(*ast.CallExpr)
		if !ok || (x.Tok != token.DEFINE && x.Tok != token.ASSIGN) {
			t.fail(x, "two-valued assignment")
		}
		a, ok1 := x.Lhs[0].(*ast.Ident)
		b, ok2 := x.Lhs[1].(*ast.Ident)
		if !ok1 || !ok2 {
			t.fail(x, "two-valued assignment")
		}
		if sel, ok := c.Fun.(*ast.SelectorExpr); ok && x.Tok == token.DEFINE && sel.Sel.Name == "scan" && len(c.Args) == 1 {
			// l, err1 := s.scan(d): the oracle E.scan (group ScanSM) on the part of the state scan touches
			id, ok := unparen(sel.X).(*ast.Ident)
			if !ok {
				t.fail(x, "scan on something other than a variable")
			}
			sv := t.lookup(id)
			if sv == nil || sv.kind != "scanst" {
				t.fail(x, "scan on something other than the scanning state")
			}
			pre, d, k := t.expr(c.Args[0], "bytes")
			if k != "bytes" {
				t.fail(x, "scan operand")
			}
			tsm, te := t.fresh(), t.fresh()
			va := t.declare(a, t.kindOf(a, t.typeOf(a)))
			vb := t.declare(b, t.kindOf(b, t.typeOf(b)))
			if va.kind != "bool" || vb.kind != "gerr" {
				t.fail(x, "result types of scan")
			}
			return pre + fmt.Sprintf("(E.scan %s.sm %s).bind fun (%s, (%s, %s)) =>\nlet %s : ScanSt := { %s with sm := %s }\nlet %s : Option GErr := %s.map GErr.parse\n",
				sv.name, d, tsm, va.name, te, sv.name, sv.name, tsm, vb.name, te)
		}
		if sel, ok := c.Fun.(*ast.SelectorExpr); ok && x.Tok == token.ASSIGN && sel.Sel.Name == "Write" && len(c.Args) == 1 && a.Name == "_" {
			// _, err1 = prefix.Write(d): the io.Writer is the bytes written so far; the oracle E.write says how many bytes this
			// Write accepts and which error it returns
			id, ok := unparen(sel.X).(*ast.Ident)
			if !ok {
				t.fail(x, "Write on something other than a variable")
			}
			wv := t.lookup(id)
			ev := t.lookup(b)
			if wv == nil || wv.kind != "wr" || ev == nil || ev.kind != "gerr" {
				t.fail(x, "Write: operands")
			}
			pre, d, k := t.expr(c.Args[0], "bytes")
			if k != "bytes" {
				t.fail(x, "Write operand")
			}
			return pre + fmt.Sprintf("let (%s, %s, %s) := goWrite E.write %s %s\n", wv.name, t.fresh(), ev.name, wv.name, d)
		}
		if name, _, ok := t.groupCall(c); ok && x.Tok == token.ASSIGN {
			// d, err = r.readLine(): both variables exist
			ks := t.results[name]
			va, vb := t.lookup(a), t.lookup(b)
			if len(ks) != 2 || !t.threaded[name] || va == nil || vb == nil || va.kind != ks[0] || ks[0] != "bytes" || ks[1] != "err" {
				t.fail(x, "assignment from %s", name)
			}
			va.alias = true
			t.aliasCheck(x, a.Name, rest)
			// the variable exists already: its WHOLE scope must be free of other writes of the array (an old value of it
			// would alias the array across them), and this assignment must not be repeated within that scope (a loop)
			if !va.declared {
				t.fail(x, "%s must be declared `var %s []byte` (in the block of this assignment or one around it)", a.Name, a.Name)
			}
			writers := 0
			for _, st := range va.declRest {
				ast.Inspect(st, func(m ast.Node) bool {
					switch y := m.(type) {
					case *ast.CallExpr:
						if t.writesBuf(&ast.ExprStmt{X: &ast.CallExpr{Fun: y.Fun, Args: nil}}) {
							writers++
						}
					case *ast.ForStmt, *ast.RangeStmt:
						if t.writesBuf(y) {
							t.fail(x, "%s may alias r.buf and its scope contains a loop that writes the array", a.Name)
						}
					}
					return true
				})
			}
			if writers != 1 {
				t.fail(x, "%s may alias r.buf, which is written %d times in its scope", a.Name, writers)
			}
			r := t.recvName()
			switch vb.kind {
			case "err":
				return fmt.Sprintf("(E.%s %s).bind fun (%s, (%s, %s)) =>\n", name, r, r, va.name, vb.name)
			case "gerr":
				te := t.fresh()
				return fmt.Sprintf("(E.%s %s).bind fun (%s, (%s, %s)) =>\nlet %s : Option GErr := %s.map GErr.slice\n", name, r, r, va.name, te, vb.name, te)
			}
			t.fail(x, "assignment from %s", name)
		}
		if x.Tok != token.DEFINE {
			t.fail(x, "two-valued assignment")
		}
		if sel, ok := c.Fun.(*ast.SelectorExpr); ok && sel.Sel.Name == "Read" {
			if f, ok := t.recvField(sel.X); !ok || f != "rd" || len(c.Args) != 1 {
				t.fail(x, "Read on something other than r.rd")
			}
			sl, ok := unparen(c.Args[0]).(*ast.SliceExpr)
			if !ok || sl.High != nil || sl.Low == nil || sl.Slice3 {
				t.fail(x, "Read into something other than r.buf[lo:]")
			}
			if f, ok := t.recvField(sl.X); !ok || f != "buf" {
				t.fail(x, "Read into something other than r.buf[lo:]")
			}
			pre, lo, k := t.expr(sl.Low, "int")
			if k != "int" {
				t.fail(x, "slice bound")
			}
			r := t.recvName()
			tb, ts := t.fresh(), t.fresh()
			va := t.declare(a, t.kindOf(a, t.typeOf(a)))
			vb := t.declare(b, t.kindOf(b, t.typeOf(b)))
			if va.kind != "int" || vb.kind != "err" {
				t.fail(x, "result types of Read")
			}
			return pre + fmt.Sprintf("(readInto (E.scratch %s.rd) %s.buf %s %s.rd).bind fun (%s, %s, %s, %s) =>\nlet %s : RdA := { %s with buf := %s, rd := %s }\n",
				r, r, lo, r, tb, va.name, vb.name, ts, r, r, tb, ts)
		}
		if name, _, ok := t.groupCall(c); ok {
			ks := t.results[name]
			if len(ks) != 2 || !t.threaded[name] {
				t.fail(x, "call of %s with two results", name)
			}
			r := t.recvName()
			va := t.declare(a, ks[0])
			vb := t.declare(b, ks[1])
			if ks[0] == "bytes" {
				va.alias = true
				t.aliasCheck(x, a.Name, rest)
			}
			return fmt.Sprintf("(E.%s %s).bind fun (%s, (%s, %s)) =>\n", name, r, r, va.name, vb.name)
		}
		t.fail(x, "two-valued assignment from %s", types.ExprString(c.Fun))
	}
	if len(x.Lhs) != 1 || len(x.Rhs) != 1 {
		t.fail(x, "parallel assignment")
	}
	if x.Tok == token.DEFINE {
		id, ok := x.Lhs[0].(*ast.Ident)
		if !ok {
			t.fail(x, "define")
		}
		if kv, ok := t.structLit(x.Rhs[0], "scanningState"); ok {
			return t.scanStLit(x, id, kv)
		}
		if kv, ok := t.structLit(x.Rhs[0], "reader"); ok {
			return t.readerLit(x, id, kv)
		}
		kind := t.kindOf(x, t.typeOf(id))
		pre, val, k := t.expr(x.Rhs[0], kind)
		if k != kind {
			t.fail(x, "definition of %s from %s", kind, k)
		}
		v := t.declare(id, kind)
		if kind == "bytes" {
			if !t.mayAlias(x.Rhs[0]) {
				t.fail(x, "a []byte local must be a slice of r.buf or a result of the group")
			}
			v.alias = true
			t.aliasCheck(x, id.Name, rest)
		}
		return pre + fmt.Sprintf("let %s : %s := %s\n", v.name, rdLeanType[kind], val)
	}
	// _ = s.guessPaths(), _ = s.augment(): the oracles E.guessPaths / E.augment on the whole state (`none` = a panic)
	if id, ok := unparen(x.Lhs[0]).(*ast.Ident); ok && id.Name == "_" && x.Tok == token.ASSIGN {
		if c, ok := unparen(x.Rhs[0]).(*ast.CallExpr); ok && len(c.Args) == 0 {
			if sel, ok := c.Fun.(*ast.SelectorExpr); ok && (sel.Sel.Name == "guessPaths" || sel.Sel.Name == "augment") {
				if sid, ok := unparen(sel.X).(*ast.Ident); ok {
					if sv := t.lookup(sid); sv != nil && sv.kind == "scanst" {
						return fmt.Sprintf("(E.%s %s).bind fun %s =>\n", sel.Sel.Name, sv.name, sv.name)
					}
				}
			}
		}
		t.fail(x, "assignment to _")
	}
	// nilable []byte locals: d = make([]byte, 0, len(x)*K), d = append(d, f...)
	if id, ok := unparen(x.Lhs[0]).(*ast.Ident); ok && x.Tok == token.ASSIGN {
		if v := t.lookup(id); v != nil && v.kind == "nbytes" {
			c, ok := unparen(x.Rhs[0]).(*ast.CallExpr)
			if !ok {
				t.fail(x, "assignment to a nilable []byte")
			}
			if t.builtin(c.Fun, "make") && len(c.Args) == 3 {
				if t.kindOf(x, t.typeOf(c.Args[0])) != "bytes" {
					t.fail(x, "make of another type")
				}
				if tv := t.p.info.Types[c.Args[1]]; tv.Value == nil || tv.Value.String() != "0" {
					t.fail(x, "make with a length other than 0")
				}
				m, ok := unparen(c.Args[2]).(*ast.BinaryExpr)
				if !ok || m.Op != token.MUL {
					t.fail(x, "make capacity must be len(x)*K")
				}
				l, ok := unparen(m.X).(*ast.CallExpr)
				tv := t.p.info.Types[m.Y]
				if !ok || !t.builtin(l.Fun, "len") || tv.Value == nil || constant.Sign(tv.Value) <= 0 {
					t.fail(x, "make capacity must be len(x)*K")
				}
				if pre, _, _ := t.expr(l, "int"); pre != "" {
					t.fail(x, "make capacity")
				}
				return fmt.Sprintf("let %s : Option Bytes := some []\n", v.name)
			}
			if t.builtin(c.Fun, "append") && len(c.Args) == 2 && c.Ellipsis.IsValid() && t.emptyBytesLit(c.Args[0]) {
				// append([]byte{}, f...): a fresh, non-nil copy
				pre, f, k := t.expr(c.Args[1], "bytes")
				if k != "bytes" {
					t.fail(x, "append operand")
				}
				return pre + fmt.Sprintf("let %s : Option Bytes := some %s\n", v.name, f)
			}
			if t.builtin(c.Fun, "append") && len(c.Args) == 2 && c.Ellipsis.IsValid() {
				d, ok := unparen(c.Args[0]).(*ast.Ident)
				if !ok || t.p.info.ObjectOf(d) != v.obj {
					t.fail(x, "append to another slice")
				}
				pre, f, k := t.expr(c.Args[1], "bytes")
				if k != "bytes" {
					t.fail(x, "append operand")
				}
				return pre + fmt.Sprintf("let %s : Option Bytes := goAppendN %s %s\n", v.name, v.name, f)
			}
			t.fail(x, "assignment to a nilable []byte")
		}
	}
	return t.assignTo(x, x.Lhs[0], x.Tok, x.Rhs[0])
}

func (t *rdT) ret(x *ast.ReturnStmt) string {
	if len(x.Results) != len(t.retKinds) {
		t.fail(x, "return with %d values", len(x.Results))
	}
	pre := ""
	var vals []string
	for i, r := range x.Results {
		p, v, k := t.expr(r, t.retKinds[i])
		if k != t.retKinds[i] {
			t.fail(x, "return of %s as %s", k, t.retKinds[i])
		}
		pre += p
		vals = append(vals, v)
	}
	return pre + t.wrapRet(t.retVal(vals))
}

func (t *rdT) retVal(vals []string) string {
	val := ""
	switch len(vals) {
	case 0:
	case 1:
		val = vals[0]
	default:
		val = "(" + strings.Join(vals, ", ") + ")"
	}
	if t.fn == "ScanSnapshot" {
		// the world: the io.Reader and the io.Writer as they are at this moment
		src, wr := "", ""
		for _, v := range t.scope {
			switch v.kind {
			case "src":
				src = v.name
			case "recv":
				src = v.name + ".rd"
			case "wr":
				wr = v.name
			}
		}
		if src == "" || wr == "" {
			panic(trFail{"ScanSnapshot: no io.Reader / io.Writer in scope"})
		}
		return "((" + src + ", " + wr + "), " + val + ")"
	}
	if t.threaded[t.fn] {
		if val == "" {
			return t.recvName()
		}
		return "(" + t.recvName() + ", " + val + ")"
	}
	return val
}

func (t *rdT) wrapRet(v string) string {
	if t.loop != "" {
		return fmt.Sprintf("some (.ret %s)\n", v)
	}
	return fmt.Sprintf("some %s\n", atom(v))
}

func (t *rdT) retType() string {
	var ks []string
	for _, k := range t.retKinds {
		ks = append(ks, rdLeanType[k])
	}
	val := strings.Join(ks, " × ")
	if len(ks) > 1 {
		val = "(" + val + ")"
	}
	if t.fn == "ScanSnapshot" {
		return "((Src × Bytes) × " + val + ")"
	}
	if t.threaded[t.fn] {
		if val == "" {
			return "RdA"
		}
		return "(RdA × " + val + ")"
	}
	return val
}

func (t *rdT) forStmt(x *ast.ForStmt, next func() string) string {
	if t.loop != "" {
		t.fail(x, "nested loop")
	}
	isWhile := x.Init == nil && x.Post == nil && x.Cond != nil
	hasBranch := false
	ast.Inspect(x.Body, func(m ast.Node) bool {
		if b, ok := m.(*ast.BranchStmt); ok && !(isWhile && b.Tok == token.BREAK && b.Label == nil) {
			hasBranch = true
		}
		switch m.(type) {
		case *ast.ForStmt, *ast.RangeStmt, *ast.SwitchStmt, *ast.TypeSwitchStmt, *ast.SelectStmt, *ast.FuncLit:
			hasBranch = true // a break inside would not be a break of this loop
		}
		return true
	})
	if hasBranch {
		t.fail(x, "continue/goto/labelled break, or a nested loop/switch/closure, in a loop")
	}
	mark := len(t.scope)
	t.nloop++
	name := fmt.Sprintf("%s_loop%d", t.fn, t.nloop)
	if isWhile {
		// for cond { body } with break: the loop-carried state is what the body assigns, the other variables it mentions are
		// captured (read-only parameters of the loop definition); the condition is tested at the start of every iteration
		as := t.assigned(x.Body)
		var st, caps []rdVar
		for _, v := range t.scope {
			switch {
			case as[v.obj]:
				st = append(st, v)
			case v.kind != "moved" && (t.mentions(x.Body, v.obj) || t.mentions(x.Cond, v.obj)):
				if v.kind != "optsv" && v.kind != "int" && v.kind != "bool" {
					t.fail(x, "%s is captured by the loop (kind %s)", v.name, v.kind)
				}
				caps = append(caps, v)
			}
		}
		if len(st) == 0 {
			t.fail(x, "a loop without state")
		}
		pat, typ := t.tupleOf(st)
		capB, capA := "", ""
		for _, v := range caps {
			capB += fmt.Sprintf(" (%s : %s)", v.name, rdLeanType[v.kind])
			capA += " " + v.name
		}
		pc, c := t.cond(x.Cond)
		if pc != "" {
			t.fail(x, "a partial operation in a loop condition")
		}
		t.loop, t.loopPat = "while", pat
		body := t.stmts(x.Body.List, func() string { return fmt.Sprintf("some (.cont %s)\n", pat) })
		t.loop, t.loopPat = "", ""
		t.scope = t.scope[:mark]
		body = fmt.Sprintf("if ¬ (%s) then\n  some (.brk %s)\nelse\n", c, pat) + body
		t.defs = append(t.defs, fmt.Sprintf("/-- condition and body of the loop at %s -/\ndef %s (E : Env)%s : %s → Option (StepB %s %s)\n  | %s =>\n%s\n",
			t.pos(x), name, capB, typ, typ, atom(t.retType()), pat, smIndent(smIndent(body))))
		if t.fuelTyp != "" {
			t.fail(x, "two unbounded loops in one function")
		}
		t.fuelTyp = typ
		return fmt.Sprintf("after (loopFuel (%s E%s) (E.fuel_%s %s) %s) fun %s =>\n", name, capA, t.fn, pat, pat, pat) + next()
	}
	state := func(n ast.Node) (string, string) {
		as := t.assigned(n)
		for _, v := range t.scope {
			if !as[v.obj] {
				t.fail(x, "%s is in scope at the loop but not assigned in it (captured variables are not supported)", v.name)
			}
		}
		return t.tupleOf(t.scope)
	}
	if x.Cond != nil {
		// for i := K; i > 0; i--
		in, ok1 := x.Init.(*ast.AssignStmt)
		c, ok2 := unparen(x.Cond).(*ast.BinaryExpr)
		po, ok3 := x.Post.(*ast.IncDecStmt)
		if !ok1 || !ok2 || !ok3 || in.Tok != token.DEFINE || len(in.Lhs) != 1 || c.Op != token.GTR || po.Tok != token.DEC {
			t.fail(x, "loop shape")
		}
		i, ok := in.Lhs[0].(*ast.Ident)
		obj := t.p.info.Defs[i]
		ci, ok4 := unparen(c.X).(*ast.Ident)
		pi, ok5 := unparen(po.X).(*ast.Ident)
		if !ok || !ok4 || !ok5 || t.p.info.Uses[ci] != obj || t.p.info.Uses[pi] != obj {
			t.fail(x, "loop shape")
		}
		if tv := t.p.info.Types[c.Y]; tv.Value == nil || tv.Value.String() != "0" {
			t.fail(x, "loop shape")
		}
		tv := t.p.info.Types[in.Rhs[0]]
		if tv.Value == nil || constant.Sign(tv.Value) < 0 || t.kindOf(x, t.typeOf(i)) != "int" {
			t.fail(x, "loop count")
		}
		cnt, exact := constant.Int64Val(tv.Value)
		if !exact || cnt > 1<<20 {
			t.fail(x, "loop count")
		}
		if t.mentions(x.Body, obj) {
			t.fail(x, "the loop body mentions the counter")
		}
		pat, typ := state(x.Body)
		t.loop = "repeat"
		body := t.stmts(x.Body.List, func() string { return fmt.Sprintf("some (.cont %s)\n", pat) })
		t.loop = ""
		t.scope = t.scope[:mark]
		t.defs = append(t.defs, fmt.Sprintf("/-- body of the counted loop at %s -/\ndef %s (E : Env) : %s → Option (Step %s %s)\n  | %s =>\n%s\n",
			t.pos(x), name, typ, typ, atom(t.retType()), pat, smIndent(smIndent(body))))
		return fmt.Sprintf("after (repeatN (%s E) %d %s) fun %s =>\n", name, cnt, pat, pat) + next()
	}
	// for [x := e]; ; [post] { body }
	pre := ""
	if x.Init != nil {
		in, ok := x.Init.(*ast.AssignStmt)
		if !ok || in.Tok != token.DEFINE || len(in.Lhs) != 1 {
			t.fail(x, "loop init")
		}
		pre = t.assign(in, []ast.Stmt{x.Body})
	}
	var all ast.Node = x.Body
	var post []ast.Stmt
	if x.Post != nil {
		post = []ast.Stmt{x.Post}
		all = &ast.BlockStmt{List: []ast.Stmt{x.Body, x.Post}}
	}
	pat, typ := state(all)
	t.loop = "fuel"
	inner := len(t.scope)
	body := t.stmts(x.Body.List, func() string {
		// falling off the body: the post statement (it sees the function scope only), then the next iteration
		t.scope = t.scope[:inner]
		return t.stmts(post, func() string { return fmt.Sprintf("some (.cont %s)\n", pat) })
	})
	t.loop = ""
	t.scope = t.scope[:mark]
	t.defs = append(t.defs, fmt.Sprintf("/-- body (and post statement) of the unbounded loop at %s -/\ndef %s (E : Env) : %s → Option (StepB %s %s)\n  | %s =>\n%s\n",
		t.pos(x), name, typ, typ, atom(t.retType()), pat, smIndent(smIndent(body))))
	// the loop has no break: it is only left by return, what follows it is unreachable (loopFuel yields `.cont` for a break only)
	if t.fuelTyp != "" {
		t.fail(x, "two unbounded loops in one function")
	}
	t.fuelTyp = typ
	return pre + fmt.Sprintf("after (loopFuel (%s E) (E.fuel_%s %s) %s) fun _ =>\nnone\n", name, t.fn, pat, pat)
}

func (t *rdT) pos(n ast.Node) string {
	pos := t.p.fset.Position(n.Pos())
	return fmt.Sprintf("%s:%d", pos.Filename[strings.LastIndex(pos.Filename, "/")+1:], pos.Line)
}

func (p *pkgInfo) translateReader() string {
	ns := "PP.TrRd"
	var sb strings.Builder
	fmt.Fprintf(&sb, "/- GENERATED by /verif/extract (translate_reader.go) from stack/reader.go — do not edit. -/\nimport PP.Go.PreludeReader\nset_option linter.unusedVariables false\nnamespace %s\nopen PP PP.Go\n\n", ns)
	var failed []string
	fds := map[string]*ast.FuncDecl{}
	for _, f := range trFuncsRd {
		fds[f] = p.funcDecl("reader", f)
	}
	// package-wide check: errBufferFull is only mentioned inside the functions of the group (and its declaration)
	for _, file := range p.files {
		for _, d := range file.Decls {
			fd, isFn := d.(*ast.FuncDecl)
			if isFn && fd.Recv != nil && fds[fd.Name.Name] == fd {
				continue
			}
			ast.Inspect(d, func(n ast.Node) bool {
				if id, ok := n.(*ast.Ident); ok && id.Name == "errBufferFull" {
					if v, ok := p.info.Uses[id].(*types.Var); ok && v.Parent() == p.pkg.Scope() {
						failed = append(failed, "errBufferFull is used outside the group")
					}
				}
				return true
			})
		}
	}
	// signatures: result kinds, and which methods thread the receiver (fixed point over the call graph)
	results := map[string][]string{}
	threaded := map[string]bool{}
	var bufN int64
	sigT := &rdT{p: p}
	func() {
		defer func() {
			if r := recover(); r != nil {
				if tf, ok := r.(trFail); ok {
					failed = append(failed, tf.msg)
					return
				}
				panic(r)
			}
		}()
		for _, f := range trFuncsRd {
			fd := fds[f]
			if fd.Type.Params != nil && len(fd.Type.Params.List) != 0 {
				sigT.fail(fd, "parameters")
			}
			results[f] = []string{}
			if fd.Type.Results != nil {
				for _, rf := range fd.Type.Results.List {
					if len(rf.Names) != 0 {
						sigT.fail(fd, "named results")
					}
					results[f] = append(results[f], sigT.kindOf(fd, sigT.typeOf(rf.Type)))
				}
			}
			if len(fd.Recv.List) != 1 || len(fd.Recv.List[0].Names) != 1 {
				sigT.fail(fd, "receiver")
			}
			pt, ok := sigT.typeOf(fd.Recv.List[0].Type).(*types.Pointer)
			if !ok {
				sigT.fail(fd, "value receiver")
			}
			st, ok := pt.Elem().Underlying().(*types.Struct)
			if !ok {
				sigT.fail(fd, "receiver type")
			}
			// the struct must be exactly {buf [N]byte; rd io.Reader; r, w int; err error}
			want := map[string]string{"buf": "", "rd": "io.Reader", "r": "int", "w": "int", "err": "error"}
			if st.NumFields() != len(want) {
				sigT.fail(fd, "fields of reader")
			}
			for i := 0; i < st.NumFields(); i++ {
				fl := st.Field(i)
				w, ok := want[fl.Name()]
				if !ok {
					sigT.fail(fd, "field %s of reader", fl.Name())
				}
				if fl.Name() == "buf" {
					arr, ok := fl.Type().(*types.Array)
					if !ok || arr.Elem().String() != "byte" && arr.Elem().String() != "uint8" || arr.Len() <= 0 {
						sigT.fail(fd, "reader.buf is not a byte array")
					}
					bufN = arr.Len()
				} else if fl.Type().String() != w {
					sigT.fail(fd, "type of field %s", fl.Name())
				}
			}
		}
		for changed := true; changed; {
			changed = false
			for _, f := range trFuncsRd {
				if threaded[f] {
					continue
				}
				fd := fds[f]
				t := &rdT{p: p, recv: p.info.Defs[fd.Recv.List[0].Names[0]], threaded: threaded, results: results}
				if t.assigned(fd.Body)[t.recv] {
					threaded[f] = true
					changed = true
				}
			}
		}
	}()
	type sig struct{ name, typ string }
	var sigs []sig
	var bodies []string
	var fuels []string
	if len(failed) == 0 {
		for _, f := range trFuncsRd {
			fd := fds[f]
			t := &rdT{p: p, fn: f, threaded: threaded, results: results, retKinds: results[f], bufN: bufN, fd: fd}
			func() {
				defer func() {
					if r := recover(); r != nil {
						if tf, ok := r.(trFail); ok {
							failed = append(failed, fmt.Sprintf("reader.%s: %s", f, tf.msg))
							return
						}
						panic(r)
					}
				}()
				rn := fd.Recv.List[0].Names[0]
				t.recv = p.info.Defs[rn]
				t.declare(rn, "recv")
				rname := t.recvName()
				body := t.stmts(fd.Body.List, func() string {
					if len(t.retKinds) != 0 {
						t.fail(fd, "function can fall off its end")
					}
					return t.wrapRet(t.retVal(nil))
				})
				var out strings.Builder
				for _, d := range t.defs {
					out.WriteString(d + "\n")
				}
				fmt.Fprintf(&out, "/-- reader.%s (%s) -/\ndef %s (E : Env) (%s : RdA) : Option %s :=\n%s\n", f, t.pos(fd), f, rname, atom(t.retType()), smIndent(body))
				sigs = append(sigs, sig{f, "RdA → Option " + atom(t.retType())})
				bodies = append(bodies, out.String())
				if t.fuelTyp != "" {
					fuels = append(fuels, fmt.Sprintf("fuel_%s : %s → Nat", f, t.fuelTyp))
				}
			}()
		}
	}
	if len(failed) == 0 {
		// ScanSnapshot(in io.Reader, prefix io.Writer, opts *Opts) (*Snapshot, []byte, error)
		fd := p.funcDecl("", "ScanSnapshot")
		t := &rdT{p: p, fn: "ScanSnapshot", threaded: threaded, results: results, retKinds: []string{"snap", "nbytes", "gerr"}, bufN: bufN, errKind: "gerr", fd: fd}
		func() {
			defer func() {
				if r := recover(); r != nil {
					if tf, ok := r.(trFail); ok {
						failed = append(failed, fmt.Sprintf("ScanSnapshot: %s", tf.msg))
						return
					}
					panic(r)
				}
			}()
			var ptys, rtys []string
			var names []*ast.Ident
			for _, fl := range fd.Type.Params.List {
				for _, n := range fl.Names {
					ptys = append(ptys, t.typeOf(fl.Type).String())
					names = append(names, n)
				}
			}
			if fd.Type.Results != nil {
				for _, fl := range fd.Type.Results.List {
					if len(fl.Names) != 0 {
						t.fail(fd, "named results")
					}
					rtys = append(rtys, t.typeOf(fl.Type).String())
				}
			}
			pk := p.pkg.Path()
			if fd.Recv != nil || strings.Join(ptys, ";") != "io.Reader;io.Writer;*"+pk+".Opts" || strings.Join(rtys, ";") != "*"+pk+".Snapshot;[]byte;error" {
				t.fail(fd, "signature of ScanSnapshot: (%s) (%s)", strings.Join(ptys, ";"), strings.Join(rtys, ";"))
			}
			var binds []string
			for i, k := range []string{"src", "wr", "opts"} {
				v := t.declare(names[i], k)
				binds = append(binds, fmt.Sprintf("(%s : %s)", v.name, rdLeanType[k]))
			}
			body := t.stmts(fd.Body.List, func() string { t.fail(fd, "function can fall off its end"); return "" })
			var out strings.Builder
			for _, d := range t.defs {
				out.WriteString(d + "\n")
			}
			fmt.Fprintf(&out, "/-- ScanSnapshot (%s) -/\ndef ScanSnapshot (E : Env) %s : Option %s :=\n%s\n", t.pos(fd), strings.Join(binds, " "), atom(t.retType()), smIndent(body))
			sigs = append(sigs, sig{"ScanSnapshot", "Src → Bytes → Option Cli.Opts → Option " + atom(t.retType())})
			bodies = append(bodies, out.String())
			if t.fuelTyp != "" {
				fuels = append(fuels, fmt.Sprintf("fuel_ScanSnapshot : %s → Nat", t.fuelTyp))
			}
		}()
	}
	if len(failed) != 0 {
		sort.Strings(failed)
		fmt.Fprintf(&sb, "/-- The translator could not handle the current source. -/\ntheorem translation_failed : %s = \"\" := rfl\n", leanStr(strings.Join(failed, "; ")))
		fmt.Fprintf(&sb, "\nend %s\n", ns)
		return sb.String()
	}
	fmt.Fprintf(&sb, "/-- `len(r.buf)`: the length of the array type of the field `buf` of `reader` -/\ndef bufN : Nat := %d\n\n", bufN)
	sb.WriteString("/-- the translated functions, as callees, and the oracles of the environment: `scratch` (what a `Read` leaves in\nthe part of its window it did not fill), `fuel_f` (the fuel of the unbounded loop of `f`, which may depend on the state the loop starts in) -/\nstructure Env where\n")
	for _, s := range sigs {
		fmt.Fprintf(&sb, "  %s : %s\n", s.name, s.typ)
	}
	sb.WriteString("  scan : S → Bytes → Option (S × (Bool × Option Err))\n  isValid : Cli.Opts → Bool\n  nameArguments : List Goroutine → Option (List Goroutine)\n  guessPaths : ScanSt → Option ScanSt\n  augment : ScanSt → Option ScanSt\n  write : Bytes → Bytes → Nat × Option GErr\n")
	sb.WriteString("  scratch : Src → Bytes\n")
	for _, f := range fuels {
		fmt.Fprintf(&sb, "  %s\n", f)
	}
	sb.WriteString("\n")
	for _, b := range bodies {
		sb.WriteString(b + "\n")
	}
	fmt.Fprintf(&sb, "end %s\n", ns)
	return sb.String()
}
