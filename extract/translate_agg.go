// translate_agg.go — the translated group Agg: (*Snapshot).Aggregate of stack/bucket.go.
//
// Generated file: lean/PP/TranslatedAgg.lean (namespace PP.TrA, its own Env); run-time support:
// lean/PP/Go/PreludeAgg.lean; agreement with the hand-written model PP/Model/Aggregate.lean
// (insertG, bucketLoop, sortNat, sortBuckets, aggregateWith π): lean/PP/Tie/TranslatedAgg.lean.
//
// Everything here is reached from translate.go through small hooks (t.agg…); each hook does nothing
// unless the group being translated is this one (t.agg != nil), so the older generated files do not
// depend on it.  The group runs on top of the machinery of group Roots (t.roots is set: break /
// continue, nested loops, join blocks, object-based detection of what a statement assigns).
//
// What is added, and what each construct ASSUMES (sound or refuse: everything not listed is refused by
// name; the checks are syntactic and deliberately narrow):
//
//   - a POINTER-KEYED MAP  `m := map[*Signature]*count{}`  (count a struct type declared in the function
//     with exactly the fields ids []int, first bool, order int) is the list of its entries, each entry
//     the model's record Bkt{key, ids, first, order}: the Signature the key points to and the fields of
//     the count the value points to.  A list can hold two entries with equal key VALUES, as the Go map
//     can hold two distinct pointers to equal Signatures; no entry is ever looked up by key.
//     Sound because (checked, aggPrepass):
//       * exactly one variable has this map type; it is assigned once, a map literal, at the top level
//         of the function (so it is never nil and never shared); every other occurrence of it is the
//         operand of a `range`, of len, of delete, or the map of an assignment m[k] = v;
//       * every *count is referenced by exactly one map entry and by nothing else: an expression of
//         type count / *count is either `&count{…}` assigned directly into the map, or the value
//         variable of a range over the map, used as `c.f` or in the re-key idiom below;
//       * a key pointer is only read (`*k`), passed to Signature.similar / equal / merge (which do not
//         write through their operands: the standing assumption of group 1, pinned by the write-set
//         pins of Extracted.lean) or deleted in the re-key idiom.
//
//   - RANGE OVER THE MAP  `for k, c := range m { … }`.  ASSUMED of Go (language spec, "For statements
//     with range clause"): the range visits every entry that is in the map when the statement starts
//     exactly once, in an order that is not specified and may differ from one range to the next; an
//     entry inserted during the range may or may not be visited, an entry deleted before it is reached
//     is not visited; inserting and deleting during a range is well defined.  The translation makes the
//     order an ORACLE of the environment, `E.mapOrder : Nat → List Bkt → List Bkt`: the k-th range over
//     the map executed by the call (k counts from 0, a ghost counter `_nr` threaded through the loops
//     like any loop-carried local) runs over `E.mapOrder k m`, and the list that represents the map is
//     REPLACED by that list (the order of the representation means nothing: the map is only ever read
//     through a range or len).  Go's behaviour is the translated function for SOME oracle such that
//     every `E.mapOrder k m` is a permutation of m (ValidOracle in PP/Lemmas/Greedy.lean); the tie
//     theorem holds for EVERY function E.mapOrder.  To keep the counter exact a range over the map must
//     stand directly in the function body or in the body of a range that does (nothing but loop bodies
//     between it and the function body: the counter is loop-carried state, it is not threaded through
//     the join after an `if`), and not inside another range over the map.  Inside the body the map may
//     only be changed by
//       * a write through the value variable, `c.f = e` / `sort.Ints(c.f)`: c is a pointer to the count
//         of the entry being visited, so the entry at the current position of the list is rewritten
//         (`m.set _i c`: the position is the loop index, nothing else moves entries during the range);
//       * the RE-KEY idiom  `m[k2] = c; delete(m, k)`  with c, k the variables of this range and k2 a
//         fresh pointer (below), every path from which leads to `break` without another statement: the
//         entry (k ↦ c) becomes (k2 ↦ c); the list keeps it in place, `m.set _i { c with key := k2 }`.
//         (The map never holds c twice outside the idiom; the freshly inserted entry is not visited
//         because the loop is left.)
//
//   - INSERTION  `m[k] = &count{…}`  outside any range over the map, k a fresh pointer: a new entry at the
//     end of the list (a fresh pointer is not a key of the map, so no entry is overwritten).  The
//     slice-typed fields of the literal must be slice literals (the count owns their arrays).
//     A FRESH POINTER VARIABLE is a local defined once, in the same statement list as its use as a key,
//     by `k := &T{…}` or by `k := x.merge(…)` where every return of (*Signature).merge is `&Signature{…}`
//     (checked on its declaration), and otherwise only used as `*k = e` / `*k`.
//
//   - `c.ids = append(c.ids, x)` is c.ids ++ [x] and `sort.Ints(c.ids)` is the model's sortNat (trusted:
//     sort.Ints sorts in increasing order; ids are natural numbers): exact under value semantics because
//     the arrays of a count's slices are allocated by this function and owned by that count; the only
//     copy, `IDs: c.ids` in a Bucket literal, must be in a range at the top level of the function after
//     which (textually) no count's slice is written again.
//     `bs = append(bs, x)` on a local slice made by make([]T, 0, n): bs ++ [x]; bs may otherwise only
//     be read (bs[i] in the sort closure, len, range), sorted by the one sort.SliceStable statement, or
//     copied into the composite literal of a `return`.
//
//   - the GHOST MAP  `order := make(map[*Bucket]int, n)`  is the field `order` of the record Bkt that
//     stands for a *Bucket (as in group 1, where the sort closure reads `order[l]` as `l.order`):
//     `&Bucket{…}` has order 0 (what a lookup of a missing key yields), and `order[p] = e` is
//     `{ p with order := e }`, accepted only as the statement right after `p := &Bucket{…}` (no copy of
//     the pointer exists yet).  `order` may otherwise only be read inside the sort closure.
//
//   - `sort.SliceStable(bs, func(i, j int) bool { l := bs[i]; r := bs[j]; … })` on the local slice bs:
//     `sliceStable E.Aggregate_sortLess bs` (PreludeAgg.lean), where Aggregate_sortLess is the closure
//     as group 1 translates it (PP.Tr.Aggregate_sortLess, a function of the two ELEMENTS; it is the only
//     sort call with a function literal in the function, which is what group 1 requires too).
//     TRUSTED: sort.SliceStable is a correct stable sort = List.mergeSort with `fun a b => !less b a`.
//
//   - `[]int{a, …}` is the list; `&Aggregated{Snapshot: s, Buckets: bs}` the record AggResult
//     (PreludeAgg.lean) — nothing of the result is dropped by the translation; the tie theorem forgets
//     the ghost field `order` of the buckets.
//
//   - assignments through anything but a local variable are refused except `c.f = e` (c the value
//     variable of the range being translated), `*k = e` (k a pointer variable defined by `k := &T{…}`),
//     and the map forms above (`x.f++`, `x.f += e` are refused: only a plain assignment is followed by the
//     write-back into the map).  Counted `for` loops, any loop inside a range over the map (the write-back
//     uses the index `_i` of that range), function literals other than the sort closure, go / defer /
//     select / goto / labels, and Go variables called `_nr`, `_i`, `_x` (names of the translation itself)
//     are refused.  `int`s are natural numbers as in group Roots (no subtraction, no negative constant);
//     the parameter `similar Similarity` is an enumeration.
//
// Hooks in translate.go (each a no-op outside this group): leanType → aggType; builtinCall → aggBuiltin;
// composite → aggComposite; stmts: ExprStmt → aggExprStmt, DeclStmt → aggDeclStmt, AssignStmt → aggAssign,
// RangeStmt → aggRangeStmt; assignedSet → aggAssignedExtra; translateGroup → aggExternFuncs, aggInit,
// aggBodyPrefix; rootsPrepass → aggPrepass.  main.go: one line (TranslatedAgg.lean, after the other groups).

package main

import (
	"fmt"
	"go/ast"
	"go/token"
	"go/types"
	"strings"
)

var trFuncsAgg = [][2]string{{"Snapshot", "Aggregate"}}

const aggNS = "PP.TrA"

// the ghost counter of ranges over the map
const aggGhost = "_nr"

// the functions of group 1 this group calls: fields of Env, mapped to group 1's modelEnv by the tie file
// (a change of their Go signature changes the type group 1 generates, and the tie file stops checking)
var aggExterns = [][2]string{
	{"Signature_similar", "Signature → Signature → Lvl → Option Bool"},
	{"Signature_equal", "Signature → Signature → Option Bool"},
	{"Signature_merge", "Signature → Signature → Option Signature"},
}

func (p *pkgInfo) translateAgg() string {
	trGroupTypePkg = map[string]string{}
	for _, n := range []string{"Arg", "Args", "Call", "Stack", "Signature", "Func", "Goroutine", "Bucket", "Aggregated", "Snapshot", "Similarity", "Location"} {
		trGroupTypePkg[n] = "stack"
	}
	defer func() { trGroupTypePkg = nil }()
	oracles := []string{"mapOrder : Nat → (List Bkt) → (List Bkt)"}
	for _, e := range aggExterns {
		oracles = append(oracles, e[0]+" : "+e[1])
	}
	oracles = append(oracles, "Aggregate_sortLess : Bkt → Bkt → Option Bool")
	return p.translateGroup(aggNS, "stack/bucket.go", trFuncsAgg, false, []string{"PP.Go.PreludeAgg"}, oracles)
}

// aggExternFuncs: the group-1 functions are callees of this group too
func aggExternFuncs(ns string, funcs map[string]bool) {
	if ns != aggNS {
		return
	}
	for _, e := range aggExterns {
		funcs[e[0]] = true
	}
}

type aggRange struct {
	stmt           *ast.RangeStmt
	keyObj, valObj types.Object
	top            bool // the range stands directly in the function body
}

type aggState struct {
	fd        *ast.FuncDecl
	parent    map[ast.Node]ast.Node
	countT    *types.Named // the local struct type count
	mapObj    types.Object // the variable of type map[*Signature]*count
	orderObj  types.Object // the ghost map order (nil if there is none)
	ranges    map[*ast.RangeStmt]*aggRange
	valOf     map[types.Object]*aggRange
	keyOf     map[types.Object]*aggRange
	cur       []*aggRange // the ranges over the map whose body is being translated
	sortCall  *ast.CallExpr
	checkedOK map[types.Object]bool
}

func (t *translator) aggInit(ns string, fd *ast.FuncDecl) {
	if ns != aggNS {
		return
	}
	t.agg = &aggState{fd: fd, ranges: map[*ast.RangeStmt]*aggRange{}, valOf: map[types.Object]*aggRange{}, keyOf: map[types.Object]*aggRange{},
		checkedOK: map[types.Object]bool{}}
	t.roots = true
}

// aggBodyPrefix: the ghost counter starts at 0
func (t *translator) aggBodyPrefix(body string) string {
	if t.agg == nil {
		return body
	}
	return "let " + aggGhost + " : Nat := 0\n  " + body
}

// ---------------------------------------------------------------- types

func aggPointee(ty types.Type) types.Type {
	if p, ok := ty.(*types.Pointer); ok {
		return p.Elem()
	}
	return ty
}

func (a *aggState) isCount(ty types.Type) bool {
	n, ok := aggPointee(ty).(*types.Named)
	return ok && a.countT != nil && n.Obj() == a.countT.Obj()
}

func isNamedPtr(ty types.Type, name string) bool {
	p, ok := ty.(*types.Pointer)
	if !ok {
		return false
	}
	n, ok := p.Elem().(*types.Named)
	return ok && n.Obj().Name() == name && n.Obj().Pkg() != nil && n.Obj().Pkg().Name() == "stack"
}

// isMap: map[*Signature]*count
func (a *aggState) isMap(ty types.Type) bool {
	m, ok := ty.Underlying().(*types.Map)
	if !ok {
		return false
	}
	_, vp := m.Elem().(*types.Pointer)
	return isNamedPtr(m.Key(), "Signature") && vp && a.isCount(m.Elem())
}

// isOrderMap: map[*Bucket]int
func isOrderMap(ty types.Type) bool {
	m, ok := ty.Underlying().(*types.Map)
	if !ok {
		return false
	}
	b, ok := m.Elem().(*types.Basic)
	return ok && b.Kind() == types.Int && isNamedPtr(m.Key(), "Bucket")
}

// aggType: the Lean types of this group that differ from the built-in table
func (t *translator) aggType(n ast.Node, ty types.Type) (string, bool) {
	if t.agg == nil {
		return "", false
	}
	if t.agg.isMap(ty) {
		return "(List Bkt)", true
	}
	if nm, ok := ty.(*types.Named); ok {
		if t.agg.isCount(nm) {
			// only ever reached through a map entry: the entry record
			return "Bkt", true
		}
		if nm.Obj().Name() == "Aggregated" && nm.Obj().Pkg() != nil && nm.Obj().Pkg().Name() == "stack" {
			return "AggResult", true
		}
	}
	if _, isMap := ty.Underlying().(*types.Map); isMap {
		t.fail(n, "map type %s (only map[*Signature]*count, and map[*Bucket]int as the ghost order map)", ty)
	}
	return "", false
}

// ---------------------------------------------------------------- prepass

func aggParents(root ast.Node) map[ast.Node]ast.Node {
	parents := map[ast.Node]ast.Node{}
	var stack []ast.Node
	ast.Inspect(root, func(n ast.Node) bool {
		if n == nil {
			stack = stack[:len(stack)-1]
			return false
		}
		if len(stack) > 0 {
			parents[n] = stack[len(stack)-1]
		}
		stack = append(stack, n)
		return true
	})
	return parents
}

// isBuiltinCall: c is a call of the built-in function name
func (t *translator) isBuiltinCall(c *ast.CallExpr, name string) bool {
	id, ok := c.Fun.(*ast.Ident)
	if !ok || id.Name != name {
		return false
	}
	_, ok = t.p.info.Uses[id].(*types.Builtin)
	return ok
}

// stmtList: the statement list s stands in and its position there (nil when s is not in a block)
func (a *aggState) stmtList(s ast.Stmt) ([]ast.Stmt, int) {
	var list []ast.Stmt
	switch b := a.parent[s].(type) {
	case *ast.BlockStmt:
		list = b.List
	case *ast.CaseClause:
		list = b.Body
	default:
		return nil, -1
	}
	for i, x := range list {
		if x == s {
			return list, i
		}
	}
	return nil, -1
}

// insideMapRange: the innermost range over the map that contains n in its body (nil if none)
func (a *aggState) insideMapRange(n ast.Node) *aggRange {
	for m := a.parent[n]; m != nil; m = a.parent[m] {
		if rs, ok := m.(*ast.RangeStmt); ok {
			if r := a.ranges[rs]; r != nil {
				return r
			}
		}
	}
	return nil
}

func (t *translator) aggPrepass(fd *ast.FuncDecl) {
	a := t.agg
	info := t.p.info
	a.parent = aggParents(fd.Body)
	t.scope = append(t.scope, trLocal{aggGhost, "Nat", nil})

	// constructs that are not translated in this group at all
	ast.Inspect(fd.Body, func(n ast.Node) bool {
		switch x := n.(type) {
		case *ast.ForStmt:
			t.fail(x, "counted for loop (not supported in group Agg)")
		case *ast.GoStmt, *ast.DeferStmt, *ast.SelectStmt, *ast.LabeledStmt, *ast.SendStmt, *ast.TypeSwitchStmt:
			t.fail(x, "unsupported statement %T", n)
		case *ast.BranchStmt:
			if x.Label != nil || x.Tok == token.GOTO {
				t.fail(x, "labelled %s / goto", x.Tok)
			}
		case *ast.IncDecStmt:
			// x.f++ would go to the generic code, which knows nothing of the write-back into the map
			if _, plain := x.X.(*ast.Ident); !plain {
				t.fail(x, "%s through something other than a local variable", x.Tok)
			}
		case *ast.SelectorExpr:
			if tv, ok := info.Types[x.X]; ok && structName(tv.Type) == "Snapshot" && x.Sel.Name != "Goroutines" {
				if _, isField := info.Uses[x.Sel].(*types.Var); isField {
					known := map[string]bool{"LocalGOROOT": true, "LocalGOPATHs": true, "RemoteGOROOT": true, "RemoteGOPATHs": true, "LocalGomods": true}
					if !known[x.Sel.Name] {
						t.fail(x, "Snapshot.%s is not a field of the model's Snapshot record", x.Sel.Name)
					}
				}
			}
		}
		return true
	})

	// names the translation of this group introduces itself
	for id, obj := range info.Defs {
		if obj != nil && id.Pos() >= fd.Pos() && id.Pos() <= fd.End() && (id.Name == aggGhost || id.Name == "_i" || id.Name == "_x") {
			t.fail(id, "the name %s is used by the translation itself", id.Name)
		}
	}

	// the local struct type count
	ast.Inspect(fd.Body, func(n ast.Node) bool {
		ts, ok := n.(*ast.TypeSpec)
		if !ok {
			return true
		}
		nm, _ := info.Defs[ts.Name].Type().(*types.Named)
		st, isStruct := nm.Underlying().(*types.Struct)
		if ts.Name.Name != "count" || a.countT != nil || !isStruct {
			t.fail(ts, "local type declaration %s (only one struct type `count` is modelled: the model's Bkt without its key)", ts.Name.Name)
		}
		want := [][2]string{{"ids", "[]int"}, {"first", "bool"}, {"order", "int"}}
		if st.NumFields() != len(want) {
			t.fail(ts, "type count must have exactly the fields ids []int, first bool, order int (the model's Bkt)")
		}
		for i, w := range want {
			if st.Field(i).Name() != w[0] || st.Field(i).Type().String() != w[1] || st.Field(i).Embedded() {
				t.fail(ts, "type count must have exactly the fields ids []int, first bool, order int (the model's Bkt): field %d is %s %s", i, st.Field(i).Name(), st.Field(i).Type())
			}
		}
		a.countT = nm
		return true
	})
	if a.countT != nil && a.countT.Obj().Parent() == t.p.pkg.Scope() {
		t.fail(fd, "type count is not local to the function")
	}

	// the map variable: defined once at the top level, by a literal
	for _, st := range fd.Body.List {
		as, ok := st.(*ast.AssignStmt)
		if !ok || as.Tok != token.DEFINE || len(as.Lhs) != 1 || len(as.Rhs) != 1 {
			continue
		}
		id, ok := as.Lhs[0].(*ast.Ident)
		if !ok || info.Defs[id] == nil {
			continue
		}
		switch {
		case a.isMap(info.Defs[id].Type()):
			cl, isLit := as.Rhs[0].(*ast.CompositeLit)
			if !isLit || len(cl.Elts) != 0 || a.mapObj != nil {
				t.fail(as, "the map of buckets must be defined once, by an empty map literal")
			}
			a.mapObj = info.Defs[id]
		case isOrderMap(info.Defs[id].Type()):
			mk, isCall := as.Rhs[0].(*ast.CallExpr)
			if !isCall || !t.isBuiltinCall(mk, "make") || len(mk.Args) < 1 || len(mk.Args) > 2 || a.orderObj != nil {
				t.fail(as, "the ghost map order must be defined once, by make(map[*Bucket]int[, n])")
			}
			a.orderObj = info.Defs[id]
		}
	}
	// no other variable of these types, and no function literal other than the sort closure
	for id, obj := range info.Defs {
		if obj == nil || id.Pos() < fd.Body.Pos() || id.Pos() > fd.Body.End() {
			continue
		}
		if v, ok := obj.(*types.Var); ok && !v.IsField() {
			if _, isMap := v.Type().Underlying().(*types.Map); isMap && obj != a.mapObj && obj != a.orderObj {
				t.fail(id, "map variable %s (only the map of buckets and the ghost map order, each defined once at the top level of the function)", id.Name)
			}
		}
	}
	nsort := 0
	ast.Inspect(fd.Body, func(n ast.Node) bool {
		switch x := n.(type) {
		case *ast.CallExpr:
			if t.isPkgSel(x.Fun, "sort", "SliceStable") {
				nsort++
				a.sortCall = x
			}
		case *ast.FuncLit:
			c, ok := a.parent[x].(*ast.CallExpr)
			if !ok || !t.isPkgSel(c.Fun, "sort", "SliceStable") || len(c.Args) != 2 || c.Args[1] != ast.Expr(x) {
				t.fail(x, "function literal other than the comparison of sort.SliceStable")
			}
		}
		return true
	})
	if nsort > 1 {
		t.fail(fd, "more than one sort.SliceStable call (group 1 translates the closure of exactly one)")
	}

	// the ranges over the map
	ast.Inspect(fd.Body, func(n ast.Node) bool {
		rs, ok := n.(*ast.RangeStmt)
		if !ok {
			return true
		}
		id, isId := rs.X.(*ast.Ident)
		if tv, ok := info.Types[rs.X]; ok {
			if _, isMap := tv.Type.Underlying().(*types.Map); isMap && (!isId || info.Uses[id] != a.mapObj || a.mapObj == nil) {
				t.fail(rs, "range over a map other than the map of buckets")
			}
		}
		if !isId || a.mapObj == nil || info.Uses[id] != a.mapObj {
			return true
		}
		if rs.Tok != token.DEFINE {
			t.fail(rs, "range over the map that assigns to existing variables")
		}
		r := &aggRange{stmt: rs}
		if k, ok := rs.Key.(*ast.Ident); ok && k.Name != "_" {
			r.keyObj = info.Defs[k]
		} else if rs.Key != nil && !ok {
			t.fail(rs, "range key that is not a variable")
		}
		if v, ok := rs.Value.(*ast.Ident); ok && v.Name != "_" {
			r.valObj = info.Defs[v]
		} else if rs.Value != nil && !ok {
			t.fail(rs, "range value that is not a variable")
		}
		// directly in the function body or in the body of a range that is itself in such a position (only loop
		// bodies between the function body and the range: the ghost counter is loop-carried state of loops, it is
		// not threaded through the join of an `if`), and not inside another range over the map
		var at ast.Node = rs
		for {
			blk, ok := a.parent[at].(*ast.BlockStmt)
			if !ok {
				t.fail(rs, "range over the map in an unexpected position")
			}
			if blk == fd.Body {
				r.top = at == ast.Node(rs)
				break
			}
			up, ok := a.parent[blk].(*ast.RangeStmt)
			if !ok || up.Body != blk {
				t.fail(rs, "a range over the map must stand directly in the function body or in a loop body (the ghost counter of ranges is not threaded through other statements)")
			}
			at = up
		}
		if a.insideMapRange(rs) != nil {
			t.fail(rs, "range over the map inside a range over the map")
		}
		a.ranges[rs] = r
		if r.keyObj != nil {
			a.keyOf[r.keyObj] = r
		}
		if r.valObj != nil {
			a.valOf[r.valObj] = r
		}
		return true
	})

	// every occurrence of the map variable
	ast.Inspect(fd.Body, func(n ast.Node) bool {
		id, ok := n.(*ast.Ident)
		if !ok || a.mapObj == nil || info.Uses[id] != a.mapObj {
			return true
		}
		switch p := a.parent[id].(type) {
		case *ast.RangeStmt:
			if p.X == ast.Expr(id) {
				return true
			}
		case *ast.CallExpr:
			if (t.isBuiltinCall(p, "len") && len(p.Args) == 1) || (t.isBuiltinCall(p, "delete") && len(p.Args) == 2 && p.Args[0] == ast.Expr(id)) {
				return true
			}
		case *ast.IndexExpr:
			if as, ok := a.parent[p].(*ast.AssignStmt); ok && p.X == ast.Expr(id) && as.Tok == token.ASSIGN && len(as.Lhs) == 1 && as.Lhs[0] == ast.Expr(p) {
				return true
			}
		}
		t.fail(id, "the map %s is used other than in range / len / delete / m[k] = v (it could be copied, or an entry looked up by key)", id.Name)
		return true
	})
	// every occurrence of the ghost map order
	ast.Inspect(fd.Body, func(n ast.Node) bool {
		id, ok := n.(*ast.Ident)
		if !ok || a.orderObj == nil || info.Uses[id] != a.orderObj {
			return true
		}
		ix, isIx := a.parent[id].(*ast.IndexExpr)
		if isIx && ix.X == ast.Expr(id) {
			if as, ok := a.parent[ix].(*ast.AssignStmt); ok && as.Tok == token.ASSIGN && len(as.Lhs) == 1 && as.Lhs[0] == ast.Expr(ix) {
				return true // validated where it is translated
			}
			// a read: only inside the sort closure (translated by group 1 as the field .order)
			for m := a.parent[ix]; m != nil; m = a.parent[m] {
				if _, ok := m.(*ast.FuncLit); ok {
					if as, ok := a.parent[ix].(*ast.AssignStmt); ok {
						for _, l := range as.Lhs {
							if l == ast.Expr(ix) {
								t.fail(ix, "the sort closure writes the ghost map order")
							}
						}
					}
					return true
				}
			}
		}
		t.fail(id, "the ghost map %s is used other than as order[p] = e right after p := &Bucket{…}, or read in the sort closure", id.Name)
		return true
	})

	// every expression of type count / *count
	ast.Inspect(fd.Body, func(n ast.Node) bool {
		e, ok := n.(ast.Expr)
		if !ok {
			return true
		}
		tv, ok := info.Types[e]
		if !ok || tv.IsType() || !a.isCount(tv.Type) {
			return true
		}
		mapAssign := func(rhs ast.Expr) bool {
			as, ok := a.parent[rhs].(*ast.AssignStmt)
			if !ok || as.Tok != token.ASSIGN || len(as.Lhs) != 1 || len(as.Rhs) != 1 || as.Rhs[0] != rhs {
				return false
			}
			ix, ok := as.Lhs[0].(*ast.IndexExpr)
			if !ok {
				return false
			}
			id, ok := ix.X.(*ast.Ident)
			return ok && info.Uses[id] == a.mapObj
		}
		switch x := e.(type) {
		case *ast.Ident:
			if a.valOf[info.Uses[x]] != nil {
				if sel, ok := a.parent[x].(*ast.SelectorExpr); ok && sel.X == ast.Expr(x) {
					return true
				}
				if mapAssign(x) {
					return true // the re-key idiom, validated where it is translated
				}
			}
		case *ast.IndexExpr:
			if as, ok := a.parent[x].(*ast.AssignStmt); ok && as.Tok == token.ASSIGN && len(as.Lhs) == 1 && as.Lhs[0] == e {
				return true
			}
		case *ast.UnaryExpr:
			if _, isLit := x.X.(*ast.CompositeLit); isLit && x.Op == token.AND && mapAssign(x) {
				return true
			}
		case *ast.CompositeLit:
			if u, ok := a.parent[x].(*ast.UnaryExpr); ok && u.Op == token.AND && mapAssign(u) {
				return true
			}
		}
		t.fail(e, "a *count is used other than as the value variable of a range over the map (c.f, or re-keyed) or as &count{…} stored directly in the map: it could be referenced twice")
		return true
	})

	// every occurrence of a key variable of a range over the map
	ast.Inspect(fd.Body, func(n ast.Node) bool {
		id, ok := n.(*ast.Ident)
		if !ok || a.keyOf[info.Uses[id]] == nil {
			return true
		}
		isExternCall := func(c *ast.CallExpr) bool {
			sel, ok := c.Fun.(*ast.SelectorExpr)
			if !ok {
				return false
			}
			tv, ok := info.Types[sel.X]
			if !ok {
				return false
			}
			name := structName(tv.Type) + "_" + sel.Sel.Name
			for _, e := range aggExterns {
				if e[0] == name {
					return true
				}
			}
			return false
		}
		switch p := a.parent[id].(type) {
		case *ast.SelectorExpr:
			if c, ok := a.parent[p].(*ast.CallExpr); ok && c.Fun == ast.Expr(p) && p.X == ast.Expr(id) && isExternCall(c) {
				return true
			}
		case *ast.CallExpr:
			if t.isBuiltinCall(p, "delete") && len(p.Args) == 2 && p.Args[1] == ast.Expr(id) {
				return true // the re-key idiom, validated where it is translated
			}
			if isExternCall(p) && p.Fun != ast.Expr(id) {
				return true
			}
		case *ast.StarExpr:
			if as, ok := a.parent[p].(*ast.AssignStmt); ok {
				for _, l := range as.Lhs {
					if l == ast.Expr(p) {
						t.fail(p, "assignment through a key of the map")
					}
				}
			}
			if u, ok := a.parent[p].(*ast.UnaryExpr); ok && u.Op == token.AND {
				t.fail(p, "address of the target of a key of the map")
			}
			if _, ok := a.parent[p].(*ast.SelectorExpr); ok {
				t.fail(p, "selector on the target of a key of the map")
			}
			return true
		}
		t.fail(id, "the key %s of the map is used other than as *%s, as an operand of Signature.similar / equal / merge, or in delete", id.Name, id.Name)
		return true
	})

	t.aggCheckCountSlices(fd)
}

// aggCheckCountSlices: the slices held by a count (see the header: c.ids = append(c.ids, x), sort.Ints(c.ids),
// one kind of copy, IDs: c.ids in a Bucket literal)
func (t *translator) aggCheckCountSlices(fd *ast.FuncDecl) {
	a := t.agg
	info := t.p.info
	type occ struct {
		pos token.Pos
		sel *ast.SelectorExpr
	}
	var writes, copies []occ
	ast.Inspect(fd.Body, func(n ast.Node) bool {
		sel, ok := n.(*ast.SelectorExpr)
		if !ok {
			return true
		}
		tv, ok := info.Types[sel.X]
		if !ok || !a.isCount(tv.Type) {
			return true
		}
		if _, isSlice := t.typeOf(sel).Underlying().(*types.Slice); !isSlice {
			return true
		}
		switch p := a.parent[sel].(type) {
		case *ast.AssignStmt:
			if p.Tok == token.ASSIGN && len(p.Lhs) == 1 && len(p.Rhs) == 1 && p.Lhs[0] == ast.Expr(sel) {
				if c, ok := p.Rhs[0].(*ast.CallExpr); ok && t.isBuiltinCall(c, "append") && len(c.Args) == 2 && !c.Ellipsis.IsValid() && t.samePath(c.Args[0], sel) {
					writes = append(writes, occ{p.Pos(), sel})
					return true
				}
			}
		case *ast.CallExpr:
			if t.isBuiltinCall(p, "append") && len(p.Args) == 2 && p.Args[0] == ast.Expr(sel) {
				if as, ok := a.parent[p].(*ast.AssignStmt); ok && as.Tok == token.ASSIGN && len(as.Lhs) == 1 && len(as.Rhs) == 1 && t.samePath(as.Lhs[0], sel) {
					return true
				}
			}
			if t.isBuiltinCall(p, "len") {
				return true
			}
			if t.isPkgSel(p.Fun, "sort", "Ints") && len(p.Args) == 1 {
				if _, isStmt := a.parent[p].(*ast.ExprStmt); isStmt {
					writes = append(writes, occ{p.Pos(), sel})
					return true
				}
			}
		case *ast.KeyValueExpr:
			if cl, ok := a.parent[p].(*ast.CompositeLit); ok && p.Value == ast.Expr(sel) && structName(t.typeOf(cl)) == "Bucket" {
				copies = append(copies, occ{p.Pos(), sel})
				return true
			}
		}
		t.fail(sel, "the slice %s of a count is used other than in c.f = append(c.f, x), sort.Ints(c.f), len(c.f) or as a field of a Bucket literal: its backing array could be shared", sel.Sel.Name)
		return true
	})
	for _, c := range copies {
		id, _ := c.sel.X.(*ast.Ident)
		var r *aggRange
		if id != nil {
			r = a.valOf[info.Uses[id]]
		}
		if r == nil || !r.top {
			t.fail(c.sel, "a slice of a count is copied into a Bucket outside a range over the map at the top level of the function")
		}
		for _, w := range writes {
			if w.pos > c.pos {
				t.fail(w.sel, "a slice of a count is written in place after it was copied into a Bucket (the two would share the array)")
			}
		}
	}
}

// samePath: the two expressions are the same variable / field path
func (t *translator) samePath(x, y ast.Expr) bool {
	x, y = unparen(x), unparen(y)
	switch a := x.(type) {
	case *ast.Ident:
		b, ok := y.(*ast.Ident)
		return ok && t.p.info.ObjectOf(a) != nil && t.p.info.ObjectOf(a) == t.p.info.ObjectOf(b)
	case *ast.SelectorExpr:
		b, ok := y.(*ast.SelectorExpr)
		return ok && a.Sel.Name == b.Sel.Name && t.samePath(a.X, b.X)
	}
	return false
}

// aggAssignedExtra: a write through the value variable of a range over the map (and delete) changes the map
func (t *translator) aggAssignedExtra(n ast.Node, set map[types.Object]bool) {
	if t.agg == nil || t.agg.mapObj == nil {
		return
	}
	a := t.agg
	ast.Inspect(n, func(m ast.Node) bool {
		switch s := m.(type) {
		case *ast.AssignStmt:
			for _, l := range s.Lhs {
				if id, ok := l.(*ast.Ident); ok && s.Tok == token.DEFINE && t.p.info.Defs[id] != nil {
					continue
				}
				if o := t.rootObj(l); o != nil && a.valOf[o] != nil {
					set[a.mapObj] = true
				}
			}
		case *ast.IncDecStmt:
			if o := t.rootObj(s.X); o != nil && a.valOf[o] != nil {
				set[a.mapObj] = true
			}
		case *ast.CallExpr:
			if t.isBuiltinCall(s, "delete") {
				set[a.mapObj] = true
			}
			if t.isPkgSel(s.Fun, "sort", "Ints") && len(s.Args) == 1 {
				if o := t.rootObj(s.Args[0]); o != nil && a.valOf[o] != nil {
					set[a.mapObj] = true
				}
			}
		}
		return true
	})
}

// ---------------------------------------------------------------- fresh pointers

// freshMethod: every return of the method is `&T{…}` (a pointer no one else holds)
func (t *translator) freshMethod(recv, name string) bool {
	for _, f := range t.p.files {
		for _, d := range f.Decls {
			fd, ok := d.(*ast.FuncDecl)
			if !ok || fd.Name.Name != name || fd.Body == nil || fd.Recv == nil || len(fd.Recv.List) != 1 {
				continue
			}
			rt := fd.Recv.List[0].Type
			if s, ok := rt.(*ast.StarExpr); ok {
				rt = s.X
			}
			if id, ok := rt.(*ast.Ident); !ok || id.Name != recv {
				continue
			}
			fresh, any := true, false
			ast.Inspect(fd.Body, func(n ast.Node) bool {
				switch x := n.(type) {
				case *ast.FuncLit:
					return false
				case *ast.ReturnStmt:
					any = true
					if len(x.Results) != 1 {
						fresh = false
						return true
					}
					u, ok := x.Results[0].(*ast.UnaryExpr)
					if !ok || u.Op != token.AND {
						fresh = false
						return true
					}
					if _, ok := u.X.(*ast.CompositeLit); !ok {
						fresh = false
					}
				}
				return true
			})
			return fresh && any
		}
	}
	return false
}

// aggFreshPtrVar: id denotes a fresh pointer variable (see the header).  `at` is the statement that uses it
// as a map key (nil when the variable is only checked as the target of `*k = e`): the definition must stand
// in the same statement list, before it, and the variable must not be used after it.
func (t *translator) aggFreshPtrVar(id *ast.Ident, at ast.Stmt) {
	a := t.agg
	info := t.p.info
	obj := info.Uses[id]
	if obj == nil {
		t.fail(id, "%s is not a variable", id.Name)
	}
	var def *ast.AssignStmt
	ast.Inspect(a.fd.Body, func(n ast.Node) bool {
		as, ok := n.(*ast.AssignStmt)
		if !ok {
			return true
		}
		for _, l := range as.Lhs {
			if lid, ok := l.(*ast.Ident); ok && (info.Defs[lid] == obj || (as.Tok != token.DEFINE && info.Uses[lid] == obj)) {
				if def != nil || as.Tok != token.DEFINE || len(as.Lhs) != 1 || len(as.Rhs) != 1 {
					t.fail(as, "the pointer variable %s is assigned more than once", id.Name)
				}
				def = as
			}
		}
		return true
	})
	if def == nil {
		t.fail(id, "%s is not a local variable defined by `:=`", id.Name)
	}
	fresh := false
	switch r := def.Rhs[0].(type) {
	case *ast.UnaryExpr:
		_, isLit := r.X.(*ast.CompositeLit)
		fresh = r.Op == token.AND && isLit
	case *ast.CallExpr:
		if sel, ok := r.Fun.(*ast.SelectorExpr); ok && at != nil {
			if tv, ok := info.Types[sel.X]; ok && structName(tv.Type) == "Signature" && sel.Sel.Name == "merge" && t.freshMethod("Signature", "merge") {
				fresh = true
			}
		}
	}
	if !fresh {
		t.fail(def, "%s is not a fresh pointer: it must be defined by &T{…}, or by Signature.merge every return of which is &Signature{…}", id.Name)
	}
	if at != nil {
		l1, i1 := a.stmtList(def)
		l2, i2 := a.stmtList(at)
		if l1 == nil || l2 == nil || len(l1) != len(l2) || &l1[0] != &l2[0] || i1 >= i2 {
			t.fail(at, "the pointer %s is not defined earlier in the same statement list as the statement that stores it in the map", id.Name)
		}
	}
	nkey := 0
	ast.Inspect(a.fd.Body, func(n ast.Node) bool {
		u, ok := n.(*ast.Ident)
		if !ok || info.Uses[u] != obj {
			return true
		}
		switch p := a.parent[u].(type) {
		case *ast.StarExpr:
			if _, isSel := a.parent[p].(*ast.SelectorExpr); isSel {
				t.fail(p, "selector on *%s", id.Name)
			}
			if un, ok := a.parent[p].(*ast.UnaryExpr); ok && un.Op == token.AND {
				t.fail(p, "address of *%s", id.Name)
			}
			if at != nil && u.Pos() > at.Pos() {
				t.fail(u, "%s is used after it was stored in the map", id.Name)
			}
			return true
		case *ast.IndexExpr:
			if p.Index == ast.Expr(u) {
				if as, ok := a.parent[p].(*ast.AssignStmt); ok && as.Tok == token.ASSIGN && len(as.Lhs) == 1 && as.Lhs[0] == ast.Expr(p) {
					if mid, ok := p.X.(*ast.Ident); ok && info.Uses[mid] == a.mapObj {
						nkey++
						return true
					}
				}
			}
		}
		t.fail(u, "the pointer %s is used other than as *%s or as the key of one assignment into the map: it could be shared", id.Name, id.Name)
		return true
	})
	if nkey > 1 {
		t.fail(id, "the pointer %s is stored in the map more than once", id.Name)
	}
}

// ---------------------------------------------------------------- statements

func (t *translator) aggDeclStmt(x *ast.DeclStmt, cont func() string) (string, bool) {
	if t.agg == nil {
		return "", false
	}
	if gd, ok := x.Decl.(*ast.GenDecl); ok && gd.Tok == token.TYPE {
		return cont(), true // checked by aggPrepass; the type checker has resolved its uses
	}
	return "", false
}

// curRange: the range over the map whose value variable obj is, if its body is being translated
func (t *translator) aggCurRange(obj types.Object) *aggRange {
	if t.agg == nil || obj == nil {
		return nil
	}
	for _, r := range t.agg.cur {
		if r.valObj == obj {
			return r
		}
	}
	return nil
}

func (t *translator) aggMapName() string { return lid(t.agg.mapObj.Name()) }

// aggWriteBack: after a write through the value variable of the current range, the entry of the list is
// rewritten; the binding of the map must still be the map's (checkBinding on a synthetic use)
func (t *translator) aggWriteBack(n ast.Node, r *aggRange, cont func() string) string {
	m := t.aggMapName()
	t.aggCheckName(n, m, t.agg.mapObj)
	t.aggCheckName(n, lid(r.valObj.Name()), r.valObj)
	t.aggCheckName(n, "_i", nil)
	return fmt.Sprintf("let %s := %s.set _i %s\n%s%s", m, m, lid(r.valObj.Name()), t.ind(), cont())
}

// aggCheckName: the innermost Lean binding called name stands for obj
func (t *translator) aggCheckName(n ast.Node, name string, obj types.Object) {
	for i := len(t.scope) - 1; i >= 0; i-- {
		if t.scope[i].name == name {
			if t.scope[i].obj != obj {
				t.fail(n, "%s is shadowed by an inner declaration here", name)
			}
			return
		}
	}
	t.fail(n, "%s is not in scope here", name)
}

// followedByBreak: every path from the end of statement s leads to an unlabelled `break` of the range r
// without executing another statement
func (t *translator) followedByBreak(s ast.Stmt, r *aggRange) bool {
	a := t.agg
	for {
		list, i := a.stmtList(s)
		if list == nil {
			return false
		}
		if i+1 < len(list) {
			b, ok := list[i+1].(*ast.BranchStmt)
			if !ok || b.Tok != token.BREAK || b.Label != nil || i+2 != len(list) {
				return false
			}
			// the break must leave r: no loop or switch between it and r
			for m := a.parent[b]; m != nil; m = a.parent[m] {
				switch m.(type) {
				case *ast.RangeStmt:
					return m == ast.Node(r.stmt)
				case *ast.ForStmt, *ast.SwitchStmt, *ast.TypeSwitchStmt, *ast.SelectStmt, *ast.FuncLit:
					return false
				}
			}
			return false
		}
		// s is the last statement of its block: the block must be a branch of an if statement
		blk, ok := a.parent[s].(*ast.BlockStmt)
		if !ok {
			return false
		}
		up, ok := a.parent[blk].(*ast.IfStmt)
		if !ok {
			return false
		}
		// an else-if chain: climb to the outermost if
		for {
			outer, ok := a.parent[up].(*ast.IfStmt)
			if !ok || outer.Else != ast.Stmt(up) {
				break
			}
			up = outer
		}
		s = up
	}
}

func (t *translator) aggAssign(x *ast.AssignStmt, rest []ast.Stmt, end trEnd) (string, bool) {
	if t.agg == nil {
		return "", false
	}
	a := t.agg
	info := t.p.info
	cont := func() string { return t.stmts(rest, end) }
	if len(x.Lhs) != 1 || len(x.Rhs) != 1 {
		for _, l := range x.Lhs {
			if _, plain := l.(*ast.Ident); !plain {
				t.fail(x, "multiple assignment to something other than variables")
			}
		}
		return "", false
	}
	lhs, rhs := x.Lhs[0], x.Rhs[0]
	if id, ok := lhs.(*ast.Ident); ok {
		if x.Tok == token.DEFINE && a.orderObj != nil && info.Defs[id] == a.orderObj {
			// order := make(map[*Bucket]int[, n]): a ghost; the size hint is evaluated (it must not panic)
			mk := rhs.(*ast.CallExpr)
			if len(mk.Args) == 2 {
				if _, ok := t.pure(mk.Args[1]); !ok {
					t.fail(x, "the size hint of make(map…) can panic or has an effect")
				}
			}
			return cont(), true
		}
		if o := info.ObjectOf(id); o != nil && (a.keyOf[o] != nil || a.valOf[o] != nil) && x.Tok != token.DEFINE {
			t.fail(x, "assignment to a variable of a range over the map")
		}
		if x.Tok != token.DEFINE && info.Uses[id] == a.mapObj {
			t.fail(x, "the map is assigned a second time")
		}
		return "", false // a plain local
	}
	if x.Tok != token.ASSIGN {
		t.fail(x, "%s through something other than a local variable", x.Tok)
	}
	// m[k] = v
	if ix, ok := lhs.(*ast.IndexExpr); ok {
		mid, _ := ix.X.(*ast.Ident)
		switch {
		case mid != nil && a.orderObj != nil && info.Uses[mid] == a.orderObj:
			// order[p] = e right after p := &Bucket{…}
			pid, ok := ix.Index.(*ast.Ident)
			list, i := a.stmtList(x)
			if !ok || list == nil || i == 0 {
				t.fail(x, "order[p] = e must follow p := &Bucket{…} directly")
			}
			def, ok := list[i-1].(*ast.AssignStmt)
			if !ok || def.Tok != token.DEFINE || len(def.Lhs) != 1 || len(def.Rhs) != 1 {
				t.fail(x, "order[p] = e must follow p := &Bucket{…} directly")
			}
			did, ok1 := def.Lhs[0].(*ast.Ident)
			u, ok2 := def.Rhs[0].(*ast.UnaryExpr)
			if !ok1 || !ok2 || info.Defs[did] == nil || info.Defs[did] != info.Uses[pid] || u.Op != token.AND {
				t.fail(x, "order[p] = e must follow p := &Bucket{…} directly")
			}
			if cl, ok := u.X.(*ast.CompositeLit); !ok || structName(t.typeOf(cl)) != "Bucket" {
				t.fail(x, "order[p] = e must follow p := &Bucket{…} directly")
			}
			if usesObjIn(info, []ast.Stmt{&ast.ExprStmt{X: rhs}}, info.Uses[pid]) {
				t.fail(x, "order[p] = e where e reads p")
			}
			p := lid(pid.Name)
			t.checkBinding(pid)
			return t.bind(rhs, func(v string) string {
				return fmt.Sprintf("let %s := { %s with order := %s }\n%s%s", p, p, v, t.ind(), cont())
			}), true
		case mid != nil && a.mapObj != nil && info.Uses[mid] == a.mapObj:
			kid, ok := ix.Index.(*ast.Ident)
			if !ok {
				t.fail(x, "assignment into the map with a key that is not a variable")
			}
			m := t.aggMapName()
			// insertion of a new count
			if u, ok := rhs.(*ast.UnaryExpr); ok && u.Op == token.AND {
				cl, _ := u.X.(*ast.CompositeLit)
				if cl == nil || !a.isCount(t.typeOf(cl)) {
					t.fail(x, "assignment into the map of something other than &count{…}")
				}
				if a.insideMapRange(x) != nil || len(a.cur) != 0 {
					t.fail(x, "insertion into the map inside a range over it")
				}
				t.aggFreshPtrVar(kid, x)
				t.checkBinding(kid)
				t.aggCheckName(x, m, a.mapObj)
				vals := map[string]ast.Expr{}
				for _, el := range cl.Elts {
					kv, ok := el.(*ast.KeyValueExpr)
					if !ok {
						t.fail(cl, "positional composite literal")
					}
					vals[kv.Key.(*ast.Ident).Name] = kv.Value
				}
				for f, v := range vals {
					if _, isSlice := t.typeOf(v).Underlying().(*types.Slice); isSlice {
						if _, isLit := v.(*ast.CompositeLit); !isLit {
							t.fail(v, "the slice %s of a new count must be a slice literal (the count owns its array)", f)
						}
					}
				}
				// field values in source order
				var order []string
				for _, el := range cl.Elts {
					order = append(order, el.(*ast.KeyValueExpr).Key.(*ast.Ident).Name)
				}
				terms := map[string]string{"ids": "[]", "first": "false", "order": "0"}
				var rec func(i int) string
				rec = func(i int) string {
					if i == len(order) {
						entry := fmt.Sprintf("({ key := %s, ids := %s, first := %s, order := %s } : Bkt)", lid(kid.Name), terms["ids"], terms["first"], terms["order"])
						return fmt.Sprintf("let %s := %s ++ [%s]\n%s%s", m, m, entry, t.ind(), cont())
					}
					return t.bind(vals[order[i]], func(v string) string { terms[order[i]] = v; return rec(i + 1) })
				}
				return rec(0), true
			}
			// the re-key idiom: m[k2] = c; delete(m, k)
			cid, ok := rhs.(*ast.Ident)
			var r *aggRange
			if ok {
				r = t.aggCurRange(info.Uses[cid])
			}
			if r == nil || r != a.insideMapRange(x) || len(a.cur) == 0 || a.cur[len(a.cur)-1] != r {
				t.fail(x, "assignment into the map of something other than &count{…} or the value variable of the range being executed")
			}
			bad := func() {
				t.fail(x, "m[k2] = c must be followed directly by delete(m, k) (k, c the variables of the range) and then by break")
			}
			if len(rest) == 0 {
				bad()
			}
			es, ok := rest[0].(*ast.ExprStmt)
			if !ok {
				bad()
			}
			del, ok := es.X.(*ast.CallExpr)
			if !ok || !t.isBuiltinCall(del, "delete") || len(del.Args) != 2 {
				bad()
			}
			dm, ok1 := del.Args[0].(*ast.Ident)
			dk, ok2 := del.Args[1].(*ast.Ident)
			if !ok1 || !ok2 || info.Uses[dm] != a.mapObj || r.keyObj == nil || info.Uses[dk] != r.keyObj {
				bad()
			}
			if !t.followedByBreak(es, r) {
				bad()
			}
			t.aggFreshPtrVar(kid, x)
			t.checkBinding(kid)
			t.checkBinding(cid)
			t.aggCheckName(x, m, a.mapObj)
			t.aggCheckName(x, "_i", nil)
			c := lid(cid.Name)
			return fmt.Sprintf("let %s := %s.set _i ({ %s with key := %s } : Bkt)\n%s%s", m, m, c, lid(kid.Name), t.ind(), t.stmts(rest[1:], end)), true
		}
		t.fail(x, "assignment to an element (only m[k] = v on the map of buckets and order[p] = e)")
	}
	// *k = e on a pointer variable defined by k := &T{…}
	if st, ok := lhs.(*ast.StarExpr); ok {
		id, ok := st.X.(*ast.Ident)
		if !ok {
			t.fail(x, "assignment through a pointer that is not a variable")
		}
		t.aggFreshPtrVar(id, nil)
		return "", false // the generic code: let k := e
	}
	// c.f = e through the value variable of the range being executed
	if sel, ok := lhs.(*ast.SelectorExpr); ok {
		if id, ok := sel.X.(*ast.Ident); ok {
			if r := t.aggCurRange(info.Uses[id]); r != nil && len(a.cur) > 0 && a.cur[len(a.cur)-1] == r {
				return t.assign(x, lhs, rhs, func() string { return t.aggWriteBack(x, r, cont) }), true
			}
		}
	}
	t.fail(x, "assignment through something other than a local variable, the value variable of the range over the map, or a fresh pointer")
	return "", false
}

func (t *translator) aggExprStmt(x *ast.ExprStmt, rest []ast.Stmt, end trEnd) (string, bool) {
	if t.agg == nil {
		return "", false
	}
	a := t.agg
	info := t.p.info
	c, ok := x.X.(*ast.CallExpr)
	if !ok {
		return "", false
	}
	cont := func() string { return t.stmts(rest, end) }
	switch {
	case t.isPkgSel(c.Fun, "sort", "Ints") && len(c.Args) == 1:
		// sort.Ints(c.f): in place, through the value variable of the range being executed
		sel, ok := c.Args[0].(*ast.SelectorExpr)
		var r *aggRange
		if ok {
			if id, ok := sel.X.(*ast.Ident); ok {
				r = t.aggCurRange(info.Uses[id])
			}
		}
		if r == nil || a.cur[len(a.cur)-1] != r {
			t.fail(x, "sort.Ints of something other than a slice of the value variable of the range over the map")
		}
		cur, ok := t.pure(c.Args[0])
		if !ok {
			t.fail(x, "sort.Ints of an expression that can panic")
		}
		return t.assignVal(x, c.Args[0], nil, "(sortNat "+atom(cur)+")", func() string { return t.aggWriteBack(x, r, cont) }), true
	case t.isPkgSel(c.Fun, "sort", "SliceStable"):
		if len(c.Args) != 2 || len(a.cur) != 0 {
			t.fail(x, "sort.SliceStable in an unexpected position")
		}
		bs, ok := c.Args[0].(*ast.Ident)
		lit, ok2 := c.Args[1].(*ast.FuncLit)
		if !ok || !ok2 {
			t.fail(x, "sort.SliceStable must be called on a local slice with a function literal")
		}
		obj, isVar := info.Uses[bs].(*types.Var)
		if !isVar || obj.IsField() || obj.Parent() == t.p.pkg.Scope() {
			t.fail(x, "sort.SliceStable must be called on a local slice")
		}
		sl, isSlice := obj.Type().Underlying().(*types.Slice)
		if !isSlice || !isNamedPtr(sl.Elem(), "Bucket") {
			t.fail(x, "sort.SliceStable on a slice of type %s (the closure of group 1 compares *Bucket)", obj.Type())
		}
		t.aggCheckLocalSlice(bs)
		// the closure starts with l := bs[i]; r := bs[j] for its parameters (i, j) and the SAME slice: it is then
		// a function of the two elements, the one group 1 translates
		if len(lit.Type.Params.List) != 1 || len(lit.Type.Params.List[0].Names) != 2 || len(lit.Body.List) < 3 {
			t.fail(lit, "unexpected shape of the sort closure")
		}
		for k, pn := range lit.Type.Params.List[0].Names {
			as, ok := lit.Body.List[k].(*ast.AssignStmt)
			if !ok || as.Tok != token.DEFINE || len(as.Lhs) != 1 || len(as.Rhs) != 1 {
				t.fail(lit, "the sort closure does not start with l := bs[i]; r := bs[j]")
			}
			ix, ok := as.Rhs[0].(*ast.IndexExpr)
			if !ok {
				t.fail(as, "the sort closure does not start with l := bs[i]; r := bs[j]")
			}
			xid, ok1 := ix.X.(*ast.Ident)
			iid, ok2 := ix.Index.(*ast.Ident)
			if !ok1 || !ok2 || info.Uses[xid] != types.Object(obj) || info.Uses[iid] != info.Defs[pn] {
				t.fail(as, "the sort closure does not start with l := bs[i]; r := bs[j] on the slice being sorted")
			}
		}
		// beyond these two statements the closure must not mention the slice or its index parameters
		for _, st := range lit.Body.List[2:] {
			ast.Inspect(st, func(n ast.Node) bool {
				if id, ok := n.(*ast.Ident); ok {
					if u := info.Uses[id]; u != nil && (u == types.Object(obj) || u == info.Defs[lit.Type.Params.List[0].Names[0]] || u == info.Defs[lit.Type.Params.List[0].Names[1]]) {
						t.fail(id, "the sort closure reads the slice or an index after its first two statements (it would not be a function of the two elements)")
					}
				}
				return true
			})
		}
		t.checkBinding(bs)
		v := t.fresh()
		name := lid(bs.Name)
		return fmt.Sprintf("(sliceStable E.Aggregate_sortLess %s).bind fun %s =>\n%slet %s := %s\n%s%s", name, v, t.ind(), name, v, t.ind(), cont()), true
	case t.isBuiltinCall(c, "delete"):
		t.fail(x, "delete outside the idiom m[k2] = c; delete(m, k); break")
	}
	return "", false
}

// aggCheckLocalSlice: bs is a local slice made by make([]T, 0, n) that is only extended by bs = append(bs, x),
// read, sorted by the sort.SliceStable statement, or copied into the composite literal of a return
func (t *translator) aggCheckLocalSlice(id *ast.Ident) {
	a := t.agg
	info := t.p.info
	obj := info.ObjectOf(id)
	if a.checkedOK[obj] {
		return
	}
	v, isVar := obj.(*types.Var)
	if !isVar || v.IsField() || v.Parent() == nil || v.Parent() == t.p.pkg.Scope() {
		t.fail(id, "%s is not a local variable", id.Name)
	}
	for _, p := range t.params {
		if p.obj == obj {
			t.fail(id, "%s is a parameter", id.Name)
		}
	}
	ast.Inspect(a.fd.Body, func(n ast.Node) bool {
		u, ok := n.(*ast.Ident)
		if !ok || (info.Uses[u] != obj && info.Defs[u] != obj) {
			return true
		}
		switch p := a.parent[u].(type) {
		case *ast.AssignStmt:
			if len(p.Lhs) == 1 && len(p.Rhs) == 1 && p.Lhs[0] == ast.Expr(u) {
				c, isCall := p.Rhs[0].(*ast.CallExpr)
				if p.Tok == token.DEFINE && isCall && t.isBuiltinCall(c, "make") && len(c.Args) == 3 {
					return true
				}
				if p.Tok == token.ASSIGN && isCall && t.isBuiltinCall(c, "append") && len(c.Args) == 2 && !c.Ellipsis.IsValid() {
					if a0, ok := c.Args[0].(*ast.Ident); ok && info.Uses[a0] == obj {
						return true
					}
				}
			}
		case *ast.CallExpr:
			if t.isBuiltinCall(p, "len") {
				return true
			}
			if t.isBuiltinCall(p, "append") && len(p.Args) == 2 && p.Args[0] == ast.Expr(u) {
				if as, ok := a.parent[p].(*ast.AssignStmt); ok && as.Tok == token.ASSIGN && len(as.Lhs) == 1 {
					if l, ok := as.Lhs[0].(*ast.Ident); ok && info.Uses[l] == obj {
						return true
					}
				}
			}
			if t.isPkgSel(p.Fun, "sort", "SliceStable") && len(p.Args) == 2 && p.Args[0] == ast.Expr(u) {
				if _, isStmt := a.parent[p].(*ast.ExprStmt); isStmt {
					return true
				}
			}
		case *ast.IndexExpr:
			if p.X == ast.Expr(u) {
				if as, ok := a.parent[p].(*ast.AssignStmt); ok {
					for _, l := range as.Lhs {
						if l == ast.Expr(p) {
							t.fail(p, "assignment to an element of %s", id.Name)
						}
					}
				}
				if _, isSel := a.parent[p].(*ast.SelectorExpr); !isSel {
					return true
				}
				// bs[i].f: a read unless it is assigned through
				for m := a.parent[p]; m != nil; m = a.parent[m] {
					if as, ok := m.(*ast.AssignStmt); ok {
						for _, l := range as.Lhs {
							if t.rootObj(l) == obj {
								t.fail(p, "assignment through an element of %s", id.Name)
							}
						}
						break
					}
					if _, isStmt := m.(ast.Stmt); isStmt {
						break
					}
				}
				return true
			}
		case *ast.RangeStmt:
			if p.X == ast.Expr(u) {
				return true
			}
		case *ast.KeyValueExpr:
			if p.Value == ast.Expr(u) {
				if cl, ok := a.parent[p].(*ast.CompositeLit); ok {
					var up ast.Node = a.parent[cl]
					if un, ok := up.(*ast.UnaryExpr); ok && un.Op == token.AND {
						up = a.parent[un]
					}
					if _, isRet := up.(*ast.ReturnStmt); isRet {
						return true
					}
				}
			}
		}
		t.fail(u, "%s is extended by append or sorted in place, and used here in a way that may share its backing array", id.Name)
		return true
	})
	a.checkedOK[obj] = true
}

// aggBuiltin: append in the two forms of the header
func (t *translator) aggBuiltin(name string, x *ast.CallExpr, sub func(ast.Expr) string) (string, bool) {
	if t.agg == nil || name != "append" || !t.isBuiltinCall(x, "append") {
		return "", false
	}
	a := t.agg
	if len(x.Args) != 2 || x.Ellipsis.IsValid() {
		t.fail(x, "append with other than one element")
	}
	as, ok := a.parent[x].(*ast.AssignStmt)
	if !ok || as.Tok != token.ASSIGN || len(as.Lhs) != 1 || len(as.Rhs) != 1 || as.Rhs[0] != ast.Expr(x) || !t.samePath(as.Lhs[0], x.Args[0]) {
		t.fail(x, "append other than `v = append(v, x)`")
	}
	switch first := x.Args[0].(type) {
	case *ast.Ident:
		t.aggCheckLocalSlice(first)
	case *ast.SelectorExpr:
		// c.f = append(c.f, x): checked by aggCheckCountSlices; c must be the value variable of the range being executed
		id, ok := first.X.(*ast.Ident)
		if !ok || t.aggCurRange(t.p.info.Uses[id]) == nil {
			t.fail(x, "append to a field of something other than the value variable of the range over the map")
		}
	default:
		t.fail(x, "append to something other than a local slice or a slice of a count")
	}
	return fmt.Sprintf("(%s ++ [%s])", sub(x.Args[0]), sub(x.Args[1])), true
}

// aggComposite: the composite literals of this group
func (t *translator) aggComposite(x *ast.CompositeLit, sub func(ast.Expr) string) (string, bool) {
	if t.agg == nil {
		return "", false
	}
	ty := t.typeOf(x)
	if sl, ok := ty.Underlying().(*types.Slice); ok {
		// []T{a, b}: the list (elements without keys; each must be an expression without effect)
		if b, isBasic := sl.Elem().Underlying().(*types.Basic); !isBasic || b.Info()&types.IsInteger == 0 || b.Kind() == types.Uint8 {
			t.fail(x, "slice literal of type %s (only []int)", ty)
		}
		var es []string
		for _, el := range x.Elts {
			if _, isKV := el.(*ast.KeyValueExpr); isKV {
				t.fail(x, "slice literal with indices")
			}
			s, ok := t.pure(el)
			if !ok {
				t.fail(el, "slice literal with an element that can panic or has an effect")
			}
			es = append(es, s)
		}
		return "[" + strings.Join(es, ", ") + "]", true
	}
	if t.agg.isCount(ty) {
		t.fail(x, "a count literal other than m[k] = &count{…}")
	}
	named, _ := ty.(*types.Named)
	if named == nil || named.Obj().Pkg() == nil || named.Obj().Pkg().Name() != "stack" {
		return "", false
	}
	fields := func(want ...string) map[string]string {
		got := map[string]string{}
		for _, el := range x.Elts {
			kv, ok := el.(*ast.KeyValueExpr)
			if !ok {
				t.fail(x, "positional composite literal")
			}
			got[kv.Key.(*ast.Ident).Name] = sub(kv.Value)
		}
		for _, w := range want {
			if _, ok := got[w]; !ok {
				t.fail(x, "composite literal of %s without the field %s", named.Obj().Name(), w)
			}
		}
		if len(got) != len(want) {
			t.fail(x, "composite literal of %s with fields other than %s", named.Obj().Name(), strings.Join(want, ", "))
		}
		return got
	}
	switch named.Obj().Name() {
	case "Bucket":
		// a *Bucket is the record Bkt; its ghost field order is what order[p] yields: 0 until order[p] = e
		f := fields("Signature", "IDs", "First")
		return fmt.Sprintf("({ key := %s, ids := %s, first := %s, order := 0 } : Bkt)", f["Signature"], f["IDs"], f["First"]), true
	case "Aggregated":
		f := fields("Snapshot", "Buckets")
		return fmt.Sprintf("({ snapshot := %s, buckets := %s } : AggResult)", f["Snapshot"], f["Buckets"]), true
	}
	return "", false
}

// ---------------------------------------------------------------- loops

func (t *translator) aggRangeStmt(x *ast.RangeStmt, cont func() string) (string, bool) {
	if t.agg == nil {
		return "", false
	}
	if x.Tok != token.DEFINE {
		t.fail(x, "range that assigns to existing variables")
	}
	return t.aggLoop(x, cont), true
}

// containsMapRange: does n contain a range over the map?
func (t *translator) containsMapRange(n ast.Node) bool {
	found := false
	ast.Inspect(n, func(m ast.Node) bool {
		if rs, ok := m.(*ast.RangeStmt); ok && t.agg.ranges[rs] != nil {
			found = true
		}
		return !found
	})
	return found
}

// aggLoop is loopRoots for this group: a range over a slice whose body may contain ranges over the map (the
// ghost counter is then loop-carried), or a range over the map itself (see the header).
func (t *translator) aggLoop(x *ast.RangeStmt, cont func() string) string {
	a := t.agg
	body := x.Body
	mr := a.ranges[x]
	outer := copyScope(t.scope)
	vs := t.assignedObj(body, outer)
	if t.containsMapRange(body) {
		if mr != nil {
			t.fail(x, "range over the map inside a range over the map")
		}
		ghost := false
		for _, l := range outer {
			if l.name == aggGhost && l.obj == nil {
				ghost = true
			}
		}
		if !ghost {
			t.fail(x, "internal: the counter of ranges is not in scope")
		}
		vs = append(vs, trLocal{aggGhost, "Nat", nil})
	}
	hasBrk := breaksLoop(body)
	t.nloop++
	name := fmt.Sprintf("%s_loop%d", t.fn, t.nloop)
	keyName, valName := "_i", "_x"
	var keyObj, valObj types.Object
	if id, ok := x.Key.(*ast.Ident); ok && id.Name != "_" {
		keyName = lid(id.Name)
		keyObj = t.p.info.ObjectOf(id)
	}
	if id, ok := x.Value.(*ast.Ident); ok && id.Name != "_" {
		valName = lid(id.Name)
		valObj = t.p.info.ObjectOf(id)
	}
	step, run := "Step", "forRange"
	if hasBrk {
		step, run = "StepB", "forRangeB"
	}
	emit := func(xs string, elemType string, pre string) string {
		var caps []trLocal
		isState := map[string]bool{}
		for _, v := range vs {
			isState[v.name] = true
		}
		caps = append(caps, t.params...)
		for _, l := range outer {
			if !isState[l.name] && !strings.HasPrefix(l.name, "_") {
				caps = append(caps, l)
			}
		}
		var bind, args []string
		seen := map[string]bool{}
		for i := len(caps) - 1; i >= 0; i-- {
			if seen[caps[i].name] {
				caps = append(caps[:i], caps[i+1:]...)
				continue
			}
			seen[caps[i].name] = true
		}
		for _, c := range caps {
			bind = append(bind, fmt.Sprintf("(%s : %s)", c.name, c.typ))
			args = append(args, c.name)
		}
		resOuter := t.curRes()
		saveScope, saveDepth, saveSt, saveIn := t.scope, t.depth, t.stVars, t.inLoop
		t.frames = append(t.frames, trFrame{loop: true, brk: hasBrk, vs: vs, resTy: "(" + step + " " + tupleType(vs) + " " + resOuter + ")"})
		t.inLoop, t.stVars, t.depth = true, vs, 0
		prologue := ""
		if mr == nil {
			t.scope = append(copyScope(outer), trLocal{keyName, "Nat", keyObj}, trLocal{valName, elemType, valObj})
		} else {
			// the element is the entry; the key variable is the Signature the key points to
			t.scope = append(copyScope(outer), trLocal{"_i", "Nat", nil}, trLocal{valName, "Bkt", valObj})
			if keyObj != nil {
				t.scope = append(t.scope, trLocal{keyName, "Signature", keyObj})
				prologue = fmt.Sprintf("let %s : Signature := %s.key\n  ", keyName, valName)
			}
			a.cur = append(a.cur, mr)
		}
		b := t.stmts(body.List, func() string { return t.jumpLoop(x, false) })
		if mr != nil {
			a.cur = a.cur[:len(a.cur)-1]
		}
		t.frames = t.frames[:len(t.frames)-1]
		t.inLoop, t.stVars, t.depth, t.scope = saveIn, saveSt, saveDepth, saveScope
		idx := keyName
		if mr != nil {
			idx = "_i"
		}
		def := fmt.Sprintf("def %s (E : Env) %s (%s : Nat) (%s : %s) (st : %s) : Option (%s %s %s) :=\n%s  %s%s\n",
			name, strings.Join(bind, " "), idx, valName, elemType, tupleType(vs), step, tupleType(vs), resOuter,
			unpack(vs, "st", "  "), prologue, b)
		t.defs = append(t.defs, def)
		pat := tuple(vs)
		if len(vs) == 0 {
			pat = "_"
		}
		rest := cont()
		var un string
		if len(vs) > 1 {
			pat = "st"
			un = unpack(vs, "st", t.ind())
		}
		return fmt.Sprintf("%safter (%s (%s E %s) %s 0 %s) fun %s =>\n%s%s%s", pre, run, name, strings.Join(args, " "), xs, tuple(vs), pat, un, t.ind(), rest)
	}
	if mr != nil {
		// the k-th range over the map: the representation is put in the order the oracle gives this range
		if len(a.cur) != 0 {
			t.fail(x, "range over the map inside a range over the map")
		}
		m := t.aggMapName()
		t.aggCheckName(x, m, a.mapObj)
		t.aggCheckName(x, aggGhost, nil)
		pre := fmt.Sprintf("let %s := E.mapOrder %s %s\n%slet %s := %s + 1\n%s", m, aggGhost, m, t.ind(), aggGhost, aggGhost, t.ind())
		// the value variable must be named when the body writes through it; an unnamed one is never written
		return emit(m, "Bkt", pre)
	}
	if len(a.cur) != 0 {
		// the position of the entry being visited is the index `_i` of the range over the map: no other loop
		// body may stand between a write through its value variable and that range
		t.fail(x, "loop inside a range over the map")
	}
	var elem types.Type
	switch c := t.typeOf(x.X).Underlying().(type) {
	case *types.Slice:
		elem = c.Elem()
	case *types.Array:
		elem = c.Elem()
	default:
		t.fail(x, "range over %s", t.typeOf(x.X))
	}
	t.rangeAliasGuard(x, x.X, body)
	et := t.leanType(x, elem)
	return t.bind(x.X, func(xs string) string { return emit(atom(xs), et, "") })
}
